"""C01 Transitions run exits, entries and initial transitions in UML order.

Decided (buffer / ordering side of the transition machinery, for every nesting depth - no depth bound, by widening):
HSM-BUF.O1/O2/O3   : in dispatch with trans_ analysed inline, every store, grow-append and load on the entry-path buffer is at the
                     index the code believes (zone-domain abstract interpretation; the invariant is mark == len(buffer)-1).
HSM-BUF.O5         : each entry loop enters slots j, j-1, ..., 0: one ENTRY call and one `j -= 1` per iteration, ending exactly after
                     slot 0 (outermost first, each state once, the target last).
HSM-SIGSET         : trans_ sends only SUPER/EXIT (entries are made by dispatch from the buffer); dispatch sends no REFLECTION.
HSM-CURSOR.I1      : dispatch leaves temp.fun == state.fun.
HSM-CONTENT.O4/O5  : slot k holds the k-th ancestor of the target whenever it is used for entry (ghost frontier / depths).
HSM-CONTENT.O6-exit: every EXIT goes to the ancestor of the current state at depth NX = exits made so far (no state skipped, repeated, or
                     exited that is not active), from the current state through the source and on into trans_.
HSM-CONTENT.O6-lca : where trans_ returns index r, an identity test between A(current, m) and A(target, q) passed on that path, exactly m
                     states were exited and r == q-1: exits stop and entries start at one and the same tested common state (for a self
                     transition the pair of parents: the source is exited and re-entered).
HSM-CONTENT.O7-noraise : every raise statement in dispatch/trans_ is unreachable in the abstract semantics of protocol-following charts
                     (answers are never None, a parent differs from its child, an init target lies inside the state that takes it).
HSM-CONTENT.O6-min : the tested common state is the innermost one: at every passing common-ancestor test for depths (m, q) either m is the
                     source, or q is the target, or A(current, m-1) and A(target, q-1) were compared on this path and differ (in a tree that
                     excludes every lower common ancestor).  Ghost records of "depth c differs from target depths lo..hi" carry the failed tests.
HSM-CONTENT.O6-cover: a state that is exited before any common-ancestor test has passed (it is given up as a candidate) has been compared with
                     every collected ancestor of the target (record lo == 0, hi == frontier), and the collection ended at the outermost state (the
                     last SUPER query was not answered SUPER).  With O6-exit (the climb moves one level per exit) this is the safety half of "the
                     search finds the common ancestor": the outermost state is on both chains, is in the buffer, and is compared with every candidate.
Not decided as such: termination (a liveness statement); it follows from the obligations above for finite charts and is argued in DESIGN 9.8.
"""
from sa import hsmrules


def check(run, model, tier):
    run.explanation = ('Abstract interpretation of HsmEventProcessor.dispatch with trans_ inlined, in the zone (difference-bound) domain over the '
                       'integer locals and the ghost len(path buffer), partitioned by the valuation of the status-flag local; plus CFG rules on the '
                       'entry loops, the signal each of the 19 handler-call sites sends and the cursor typestate. '
                       'The invariants hold for every depth of nesting and of initial transition (loops are solved by widening, not unrolled); '
                       'handlers are modelled by the protocol H1-H4.')
    run.rule('HSM-BUF.O1-store', 'every buf[i] = v has 0 <= i <= len(buf)-1')
    run.rule('HSM-BUF.O2-append', 'every grow-append standing for "populate slot i" has i == len(buf)')
    run.rule('HSM-BUF.O3-load', 'every load buf[j] has 0 <= j <= len(buf)-1')
    run.rule('HSM-BUF.O5-entry-loop', 'entry loops: one ENTRY call and one -1 step per iteration, exit exactly after slot 0')
    run.rule('HSM-SIGSET', 'signals each processor method may send')
    run.rule('HSM-CURSOR.I1', 'temp.fun == state.fun at every normal exit')
    ba, res = hsmrules.record_buffer_obligations(run, model, 'dispatch')
    run.floor('buffer obligations in dispatch+trans_', len(res), 12)
    run.rule('HSM-CONTENT.O4-content', 'an ancestor of the target stored into slot i of the path buffer is its i-th ancestor (ghost depth d == i)')
    run.rule('HSM-CONTENT.O5-content', 'ENTRY is sent only through slots at or below the content frontier K (slots 0..K hold the 0..K-th ancestors of the target)')
    run.rule('HSM-CONTENT.O6-exit', 'every EXIT call goes to the state of the active chain at depth NX (NX = exits made so far in the step): exits climb from the current state one level at a time')
    run.rule('HSM-CONTENT.O6-lca', 'where the entry-path routine returns r: a state of the active chain at depth m was tested equal to the target\'s ancestor at depth q, NX == m and r == q-1 (parents for source == target)')
    run.rule('HSM-CONTENT.O6-min', 'where a common-ancestor test passes for depths (m, q): m is the source, or q is the target, or the states at depths (m-1, q-1) were compared and differ - so no lower common ancestor exists (the common state is the innermost one)')
    run.rule('HSM-CONTENT.O6-cover', 'a state exited before any common-ancestor test has passed was compared with every ancestor of the target (slots 0..frontier), and the ancestor path ends at the outermost state')
    run.rule('HSM-CONTENT.O5-first', 'the first ENTRY after an initial transition goes to the state just below the state that took it (the entry-path walk stopped there): nothing already active is entered again')
    run.rule('HSM-CONTENT.O9-init', 'INIT is sent to the current target (ghost depth 0), the state whose entry was the last one made')
    run.rule('HSM-CONTENT.O7-noraise', 'no raise statement of dispatch/trans_ is reachable by a chart that follows the handler protocol: a well-formed transition is never aborted half-way')
    cc = hsmrules.record_content_obligations(run, model, 'dispatch', cursor_at_entry=False, kinds={'O4-content', 'O5-content', 'O6-exit', 'O6-lca', 'O6-min', 'O6-cover', 'O7-noraise', 'O9-init', 'O5-first'})
    run.floor('content store obligations in dispatch+trans_', cc['O4-content'], 5)
    run.floor('content entry obligations in dispatch', cc['O5-content'], 2)
    run.floor('exit obligations in dispatch+trans_', cc['O6-exit'], 4)
    run.floor('common-ancestor obligations where trans_ returns', cc['O6-lca'], 1)
    run.floor('INIT sites in dispatch', cc['O9-init'], 1)
    run.floor('first entries after an initial transition in dispatch', cc['O5-first'], 1)
    run.floor('common-ancestor tests judged for minimality', cc['O6-min'], 5)
    run.floor('exits of a candidate judged for complete comparison', cc['O6-cover'], 2)
    run.floor('raise statements in dispatch+trans_ proved unreachable for protocol-following charts', cc['O7-noraise'], 5)
    n = hsmrules.entry_loops(run, model, 'dispatch')
    run.floor('entry loops in dispatch', n, 2)
    # (the shape rule HSM-LCA.match was retired with HSM-CURSOR.parent-read: O6-lca decides 'entry starts just below the tested common state' for every way of writing the scan)
    run.rule('HSM-TRANS', 'chart.trans(x) stores x in the cursor, answers TRAN, writes nothing else (the processor side of H3)')
    hsmrules.trans_api_rule(run, model)
    n = hsmrules.signal_sets(run, model, ['dispatch', 'trans_'])
    run.floor('handler-call sites in dispatch+trans_', n, 14)
    # (the shape rule HSM-CURSOR.parent-read was retired: O6-exit decides the same thing - the state exited next is the parent of the one exited before -
    #  for every way of writing the re-ask, see DESIGN 9.8)
    hsmrules.cursor_invariant(run, model, ['dispatch'])
    for a in ('H1 h(chart, SUPER|EMPTY) returns SUPER and sets temp.fun to the parent (top returns IGNORED)',
              'H2 h(chart, ENTRY|EXIT) returns HANDLED and leaves the cursor, or behaves as H1',
              'H3 h(chart, INIT) returns TRAN after chart.trans(x), or HANDLED, or H1',
              'H4 handlers cannot reach the processor\'s locals and do not call dispatch re-entrantly'):
        run.assume(a)
    hsmrules.protocol_census(run, model)
