"""C14 Queued charts dispatch posted events in deque order, one per step.

ENDS.post          : post_fifo adds its event at the end opposite the consumer's, post_lifo at the consumer's end; exactly
                     once on every path.  The consumer end is read from next_rtc (the pop it uses), not assumed.
CONSUMER.next_rtc  : on the non-empty path exactly one pop at the consumer end and exactly one dispatch whose argument is the
                     popped value, the pop first; on the empty path neither.
CONSUMER.circuit   : complete_circuit loops while the queue is non-empty, each iteration takes a step, no other exit.
REENTRY.post       : no call path from post_fifo/post_lifo to dispatch (a post made by a handler cannot re-enter the step).
WRAP.once          : the spy wrappers around post_fifo/post_lifo/next_rtc run the wrapped method exactly once.
"""
import ast

from sa.model import AnalysisError, norm
from sa.util import cfg_of
from sa.context import callgraph
from sa import queues, wrap


def check(run, model, tier):
    run.explanation = ('End-label and path-count analysis of HsmWithQueues: which end of the deque each operation touches (consumer end read '
                       'from next_rtc), exactly-one pop/dispatch on the non-empty path of a step, the loop shape of complete_circuit, and call-'
                       'graph reachability showing that posting never re-enters dispatch. Together these say the chart behaves like a deque '
                       'driven by the same operations, for every interleaving of posts and steps.')
    run.rule('ENDS.post', 'post_fifo adds opposite the consumer end, post_lifo at it, exactly once with its own argument')
    run.rule('CONSUMER.next_rtc', 'non-empty: one pop at the consumer end then one dispatch of the popped value; empty: neither')
    run.rule('CONSUMER.circuit', 'complete_circuit: while non-empty, step; no other exit')
    run.rule('REENTRY.post', 'dispatch is not reachable from post_fifo/post_lifo in the call graph')
    run.rule('WRAP.once', 'wrappers of post_fifo/post_lifo/next_rtc call the wrapped method exactly once and return its result')
    E = queues.consumer_end(model)
    run.note('consumer end of the pending queue: ' + E)
    queues.check_post_ends(run, model, 'ENDS.post', E)
    queues.check_next_rtc(run, model, 'CONSUMER.next_rtc', E)
    queues.check_complete_circuit(run, model, 'CONSUMER.circuit')
    queues.check_dispatch_sites(run, model, 'CONSUMER.next_rtc', E)
    # the queue an active object substitutes for the plain deque must itself behave like one (same ends, same order, overflow gives up the newest fifo event)
    run.rule('ENDS.locking', 'LockingDeque forwards append/appendleft/pop/popleft to the deque: same end, once, and the deque operations of every path leave the content a deque would have')
    run.rule('BOUND.buffers', 'every deque of the package is bounded by the object\'s own class constant, and a token queue has the capacity of the deque it mirrors')
    queues.check_locking_deque(run, model, 'ENDS.locking', None, 'BOUND.buffers')
    queues.check_bounds(run, model, 'BOUND.buffers')
    cg = callgraph(model)
    hq = model.cls('HsmWithQueues')
    disp = set()
    for k in [hq] + model.subclasses(hq) + model.mro(hq):
        f = k.methods.get('dispatch')
        if f is not None:
            disp.add(f)
            disp.add(cg.entry(f))
    for nm in ('post_fifo', 'post_lifo'):
        for k in [hq] + model.subclasses(hq):
            f = k.methods.get(nm)
            if f is None:
                continue
            reach = cg.reach([cg.entry(f)])
            hit = [x.qualname for x in reach if x in disp]
            run.inst('REENTRY.post', f, '%s does not reach dispatch' % f.qualname, not hit,
                     '' if not hit else '%s can reach %s: a post made from a handler would run a nested step' % (f.qualname, hit), obligation=True)
    n = 0
    for nm in ('post_fifo', 'post_lifo', 'next_rtc'):
        raw = hq.methods[nm]
        for fac, d in getattr(raw, 'decorator_chain', []):
            if fac == 'unknown':
                raise AnalysisError('unknown decorator on HsmWithQueues.%s' % nm)
            info = wrap.analyse_wrapper(model, cg, fac)
            n += 1
            ok = info.count == (1, 1)
            run.inst('WRAP.once', info.inner, 'wrapper of %s calls it exactly once' % nm, ok,
                     '' if ok else 'the wrapper runs %s %s times on some path (%s)' % (nm, info.count, info.witness), obligation=True)
            if nm == 'next_rtc':
                for c, how, ok2, why in info.results:
                    run.inst('WRAP.once', info.inner, 'wrapper of next_rtc returns its result', bool(ok2), why or 'result %s' % how, node=c, obligation=True)
    run.floor('wrappers on post_fifo/post_lifo/next_rtc', n, 5)
    run.rule('LAYER.queue-writers', 'only post_fifo/post_lifo, next_rtc, stop() (wake-up item) and the LockingDeque itself operate on the pending-event queue')
    queues.check_queue_writers(run, model, 'LAYER.queue-writers')
    run.rule('ENDS.queue-class', 'the pending and deferral queues are collections.deque objects (or subclasses that redefine none of deque\'s interface)')
    from sa.context import callgraph as _cgq
    queues.check_queue_classes(run, model, _cgq(model), 'ENDS.queue-class')
    run.assume('collections.deque semantics for append/appendleft/pop/popleft')
