"""C03 start_at enters the enclosing states outside-in and follows initial transitions.

HSM-BUF.O1/O2/O3 : in init every store, grow-append and load on the path buffer is inside it / at the believed index - in
                   particular the first load of the entry loop (index after the pre-decrement) is >= 0.
HSM-BUF.O5       : the entry loop enters slots index-1, ..., 0, one ENTRY per iteration, step -1, ending exactly at slot 0.
HSM-SIGSET       : init sends only SUPER, ENTRY, INIT: nothing is exited by start_at.
ORDER.start_at   : start_at sets state.fun = top and temp.fun = the start state, then runs init(), then does the bookkeeping.
HSM-CURSOR.I1    : init leaves temp.fun == state.fun == the last init target.
Not decided: as C01.
"""
import ast

from sa.model import AnalysisError, dotted, norm
from sa.util import cfg_of
from sa import hsmrules


def check(run, model, tier):
    run.explanation = ('Zone-domain abstract interpretation of HsmEventProcessor.init (any depth, by widening), CFG rules on its entry loop, the '
                       'signal set of its three handler-call sites and a must-precede rule in start_at.')
    run.rule('HSM-BUF.O1-store', 'every buf[i] = v has 0 <= i <= len(buf)-1')
    run.rule('HSM-BUF.O2-append', 'every grow-append standing for "populate slot i" has i == len(buf)')
    run.rule('HSM-BUF.O3-load', 'every load buf[j] has 0 <= j <= len(buf)-1')
    run.rule('HSM-BUF.O5-entry-loop', 'entry loop: one ENTRY call and one -1 step per iteration, exit exactly at slot 0')
    run.rule('HSM-SIGSET', 'init sends only SUPER, ENTRY, INIT')
    run.rule('ORDER.start_at', 'state.fun = top; temp.fun = start state < init() < bookkeeping')
    run.rule('HSM-CURSOR.I1', 'temp.fun == state.fun at exit of init')
    ba, res = hsmrules.record_buffer_obligations(run, model, 'init')
    run.floor('buffer obligations in init', len(res), 4)
    run.rule('HSM-CONTENT.O4-content', 'an ancestor of the init target stored into slot i of the path buffer is its i-th ancestor (ghost depth d == i)')
    run.rule('HSM-CONTENT.O5-content', 'ENTRY is sent only through slots at or below the content frontier K')
    run.rule('HSM-CONTENT.O5-first', 'the first ENTRY after start / after an initial transition goes to the state just below the outermost active state of that leg')
    run.rule('HSM-CONTENT.O9-init', 'INIT is sent to the current target (ghost depth 0), the state whose entry was the last one made')
    run.rule('HSM-CONTENT.O7-noraise', 'no raise statement of init() is reachable by a chart that follows the handler protocol (start state below top, init targets inside the state that takes them)')
    # the cursor is the start state when init() is called: that is what ORDER.start_at establishes
    cc = hsmrules.record_content_obligations(run, model, 'init', cursor_at_entry=True)
    run.floor('content store obligations in init', cc['O4-content'], 2)
    run.floor('content entry obligations in init', cc['O5-content'], 1)
    run.floor('INIT sites in init', cc['O9-init'], 1)
    run.floor('first entries after start / after an initial transition in init', cc['O5-first'], 1)
    run.floor('raise statements in init proved unreachable for protocol-following charts', cc['O7-noraise'], 1)
    n = hsmrules.entry_loops(run, model, 'init')
    run.floor('entry loops in init', n, 1)
    run.rule('HSM-TRANS', 'chart.trans(x) stores x in the cursor, answers TRAN, writes nothing else (the processor side of H3)')
    hsmrules.trans_api_rule(run, model)
    n = hsmrules.signal_sets(run, model, ['init'])
    run.floor('handler-call sites in init', n, 3)
    hsmrules.cursor_invariant(run, model, ['init'])
    # ---- start_at
    hep = hsmrules.processor(model)
    f = hep.methods.get('start_at')
    if f is None:
        raise AnalysisError('HsmEventProcessor.start_at not found')
    g = cfg_of(f)
    run.touch(f, g)
    selfn, startp = f.params[0], f.params[1]

    def assigns(path):
        return [n for n in g.nodes if n.kind == 'stmt' and isinstance(n.ast, ast.Assign) and any(dotted(t) == selfn + '.' + path for t in n.ast.targets)]
    inits = [n for n in g.nodes if n.kind not in ('entry', 'exit', 'xexit', 'def') and
             any(isinstance(c.func, ast.Attribute) and c.func.attr == 'init' and dotted(c.func.value) == selfn for c in n.calls())]
    if len(inits) != 1:
        raise AnalysisError('start_at: expected one init() call')
    i0 = inits[0]
    st = [n for n in assigns('state.fun') if g.dominates(n, i0)]
    tp = [n for n in assigns('temp.fun') if g.dominates(n, i0)]
    ok = bool(st) and dotted(st[-1].ast.value) == selfn + '.top'
    run.inst('ORDER.start_at', f, 'state.fun = top before init()', ok,
             '' if ok else 'start_at does not set the state to top before init(): the parent walk of init never terminates at the outermost state / stops early', obligation=True)
    ok = bool(tp) and isinstance(tp[-1].ast.value, ast.Name) and tp[-1].ast.value.id == startp
    run.inst('ORDER.start_at', f, 'temp.fun = requested start state before init()', ok, 'start_at does not hand the requested state to init()', obligation=True)
    ok = g.postdominates(i0, g.entry)
    run.inst('ORDER.start_at', f, 'init() runs on every path', ok, 'a path of start_at skips init()', obligation=True)
    late = [n for n in assigns('state.fun') + assigns('temp.fun') if g.exists_path(i0, n)]
    # (what an except-handler does before it re-raises is the failure path: init() did not complete there)
    failing = set()
    for t_ in ast.walk(f.node):
        if isinstance(t_, ast.Try):
            for h_ in t_.handlers:
                if h_.body and isinstance(h_.body[-1], ast.Raise):
                    failing.update(id(x_) for b_ in h_.body for x_ in ast.walk(b_))
    late = [n for n in late if id(n.ast) not in failing]
    run.inst('ORDER.start_at', f, 'the state is not overwritten after init()', not late, 'start_at rewrites the state after init(): %s' % [norm(n.ast) for n in late], obligation=True)
    for a in ('H1-H4 handler protocol (see C01)',):
        run.assume(a)
    hsmrules.protocol_census(run, model)
