"""C19 The spy log records exactly the state invocations the processor made.

SPY.offer-before-call : in spy_on (instrumented path) the line "<signal>:<state>" is appended to the step log before the wrapped
                        handler runs - on every path that runs it - so every invocation the processor makes through a decorated
                        handler is logged, in invocation order.
SPY.hook-marker       : the ":HOOK" line is appended exactly when the handler returned HANDLED for a non-inner signal
                        (control-dependent on both tests, after the call).
SPY.markers           : START is appended before the start walk; POST_FIFO/POST_LIFO/POST_DEFERRED/RECALL markers name the signal
                        of the very event posted/recalled and are appended only when instrumented; the queue reflection is appended
                        to step log and full log together.
SPY.accumulate        : the step log is cleared only before the wrapped step; the full log is written only by extend(step log)
                        after the step (exactly once per step / start) or by the paired reflection append.
RING.right-end        : the four ring buffers (rtc.spy, rtc.tuples, full.spy, full.trace) are bounded deques only ever extended at
                        the right, so truncation keeps the most recent entries in order.
Not decided: the exact line sequence for a given chart (runtime).
"""
import ast

from sa.model import AnalysisError, walk_shallow, dotted, norm
from sa.util import local_defs, expand_locals, partial_format, cfg_of, shallow_calls, guarded_by_edge, const_str, status_const, strip_not
from sa.context import callgraph
from sa import queues, wrap

RINGS = ('rtc.spy', 'rtc.tuples', 'full.spy', 'full.trace')
RIGHT_ONLY = {'append', 'extend'}
READ_ONLY = {'copy', 'count', 'index', '__len__'}


_ALIASES = {}


def ring_aliases(fnode):
    """locals of a function that are plain aliases of a ring buffer: x = self.full.spy / a, b = self.rtc.spy, self.full.spy"""
    key = id(fnode)
    if key in _ALIASES:
        return _ALIASES[key]
    out = {}
    for n in ast.walk(fnode):
        if isinstance(n, ast.Assign) and len(n.targets) == 1:
            tg, vv = n.targets[0], n.value
            pairs = list(zip(tg.elts, vv.elts)) if isinstance(tg, ast.Tuple) and isinstance(vv, ast.Tuple) and len(tg.elts) == len(vv.elts) else [(tg, vv)]
            for t_, v_ in pairs:
                if isinstance(t_, ast.Name):
                    d = dotted(v_)
                    for r in RINGS:
                        if d and d.endswith('.' + r):
                            out[t_.id] = (r, n)
    _ALIASES[key] = out
    return out


def ring_of(expr, aliases=None):
    d = dotted(expr)
    if not d:
        return None
    if aliases and isinstance(expr, ast.Name) and expr.id in aliases:
        return aliases[expr.id][0]
    for r in RINGS:
        if d.endswith('.' + r):
            return r
    return None


SCRIBBLE_TEXTS = ('plain note', '', '  padded  ', 'two\nlines', 'percent %s %d %%', 'braces {} {0} {name}', 'escaped {{x}}', "{'k': [1, 2]}", 'tail }', 'héllo')


def scribble_verbatim(run, model):
    """SPY.scribble: evaluate scribble() on a scratch chart for a finite set of texts (format metacharacters, padding, line breaks) - the step log gains exactly
    that text when the chart is instrumented and nothing otherwise"""
    from sa import pureeval
    run.rule('SPY.scribble', 'scribble(text) appends exactly `text` to the step log when instrumented, nothing otherwise (evaluated over %d texts)' % len(SCRIBBLE_TEXTS))
    fs = [f for f in model.all_funcs() if f.name == 'scribble' and f.cls is not None]
    if not fs:
        raise AnalysisError('scribble not found')
    for f in fs:
        run.touch(f)
        bad = None
        for inst in (True, False):
            for text in SCRIBBLE_TEXTS:
                chart = pureeval.Obj(instrumented=inst, rtc=pureeval.Obj(spy=[], tuples=[]), full=pureeval.Obj(spy=[], trace=[]), name='chart')
                try:
                    pureeval.call(f.node, [chart, text], globals_=pureeval.module_constants(model, f.module), mutable=True, strict_locals=True)
                    got = list(chart.rtc.spy)
                except pureeval.Raised as ex:
                    got = 'raises %s' % ex.what
                want = [text] if inst else []
                if got != want:
                    bad = bad or (inst, text, got)
        run.inst('SPY.scribble', f, 'scribble(text): step log gains exactly [text] when instrumented', bad is None,
                 '' if bad is None else ('%s(%r) on a chart with instrumented=%s leaves the step log as %s, expected %r: the scribble marker of the step is not the text the '
                                         'handler wrote (texts with format metacharacters - a dict repr, JSON, "{}" - are altered or abort the step, so the lines of that step '
                                         'never reach the full spy)' % (f.qualname, bad[1], bad[0], bad[2] if isinstance(bad[2], str) else repr(bad[2]), [bad[1]] if bad[0] else [])),
                 obligation=True)
    run.floor('scribble definitions', len(fs), 1)


class _Handler:
    """a state handler stand-in: callable, named, answers with a fixed status"""
    def __init__(self, name, status):
        self.__name__ = name
        self.status = status
        self.calls = 0

    def __call__(self, *a):
        self.calls += 1
        return self.status


def wrapper_cases(model, so, inner):
    """the spy wrapper run on a scratch chart for every status a handler can answer with and for an outer and an inner signal: yields
    (status name, signal name, step log, tuples written to rtc.tuples, handler calls, returned value, handler).  AnalysisError when the wrapper is outside the evaluator's fragment"""
    from sa import pureeval
    statuses = ('HANDLED', 'SUPER', 'UNHANDLED', 'IGNORED', 'TRAN', 'ENTRY', 'EXIT', 'INIT', 'Q_RET_NULL')
    rs = pureeval.Obj(**{s_: pureeval.Obj(__name__=s_) for s_ in statuses})
    inner_names = INNER_NAMES
    sig = pureeval.Obj(is_inner_signal=lambda nm: nm in inner_names, REFLECTION_SIGNAL=4, ENTRY_SIGNAL=1, EXIT_SIGNAL=2, INIT_SIGNAL=3)
    # defaults of the package's spy_tuple(...) helper, so that a field the wrapper leaves out reads as the package reads it
    defaults = {}
    stf = None
    try:
        stf = model.func('hsm.spy_tuple')
    except Exception:
        stf = None
    if stf is not None:
        a_ = stf.node.args
        for nm_, dv_ in zip([x.arg for x in a_.args][len(a_.args) - len(a_.defaults):], a_.defaults):
            if isinstance(dv_, ast.Constant):
                defaults[nm_] = dv_.value

    def spy_tuple(**kw):
        d = dict(defaults)
        d.update(kw)
        return pureeval.Obj(**d)
    for st_name in ('HANDLED', 'SUPER', 'UNHANDLED', 'IGNORED', 'TRAN'):
        for sname, snum in (('USER_SIGNAL', 50), ('ENTRY_SIGNAL', 1)):
            h = _Handler('state_a', getattr(rs, st_name))
            chart = pureeval.Obj(instrumented=True, rtc=pureeval.Obj(spy=[], tuples=[]), spied_on=False, state_name=None, state_fn=None, name='c')
            ev_ = pureeval.Obj(signal_name=sname, signal=snum, payload=None)
            g_ = dict(pureeval.module_constants(model, so.module))
            g_.update({so.params[0]: h, 'signals': sig, 'return_status': rs, 'spy_tuple': spy_tuple, 'SpyTuple': spy_tuple,
                       'inspect': pureeval.Obj(ismethod=lambda f_: False), 'stdlib_datetime': pureeval.Obj(now=lambda: 0)})
            for f_ in model.all_funcs():
                if f_.module is so.module and f_.cls is None and f_.parent is None and f_.name not in g_:
                    g_[f_.name] = pureeval.Closure(f_.node, g_)
            try:
                got = pureeval.call(inner.node, [chart, ev_], globals_=g_, mutable=True, strict_locals=True)
            except pureeval.Raised as ex:
                got = 'raises ' + ex.what
            yield st_name, sname, list(chart.rtc.spy), list(chart.rtc.tuples), h.calls, got, h


INNER_NAMES = {'ENTRY_SIGNAL', 'EXIT_SIGNAL', 'INIT_SIGNAL'}


def hook_eval(run, model, so, inner):
    """SPY.hook-marker by evaluation: the spy wrapper is run on a scratch chart for every status a handler can answer with and for an inner and an outer signal: the
    step log must read [offer] plus [offer:HOOK] exactly when the status is HANDLED and the signal is not an inner one; the handler runs exactly once"""
    bad = None
    n = 0
    try:
        for st_name, sname, log, _tuples, calls, got, h in wrapper_cases(model, so, inner):
            n += 1
            offer = '%s:%s' % (sname, 'state_a')
            want = [offer] + ([offer + ':HOOK'] if st_name == 'HANDLED' and sname not in INNER_NAMES else [])
            if (log != want or calls != 1 or got is not h.status) and bad is None:
                bad = (st_name, sname, log, want, calls, got)
    except AnalysisError as ex:
        run.note('the spy wrapper is outside the evaluator\'s fragment (%s): its HOOK line is decided structurally' % ex)
        return False
    run.inst('SPY.hook-marker', inner, 'spy wrapper evaluated over %d status x signal cases: offer line, HOOK line iff HANDLED and not an inner signal, handler called once' % n, bad is None,
             '' if bad is None else ('for a handler answering %s to %s the step log reads %s, expected %s (handler calls: %d, wrapper returns %s): the HOOK marker no longer says '
                                     '"this state handled the event internally"' % (bad[0], bad[1], bad[2], bad[3], bad[4],
                                                                                 getattr(bad[5], '__name__', bad[5]))), obligation=True)
    return True


def check(run, model, tier):
    run.explanation = ('Dominance and control-dependence analysis of the spy wrapper and of the marker wrappers, plus a who-writes census of the four '
                       'ring buffers over the whole package. Because all 29 handler-call sites of the processor go through the decorated handler '
                       'object, logging before the wrapped call inside spy_on records every invocation by construction, for every chart.')
    for r, t in (('SPY.offer-before-call', 'offer line appended before the wrapped handler call on every instrumented path'),
                 ('SPY.hook-marker', 'HOOK line iff status is HANDLED and the signal is not an inner signal'),
                 ('SPY.markers', 'START / POST_* / RECALL / reflection markers: right text, right event, only when instrumented'),
                 ('SPY.accumulate', 'rtc.spy cleared only before the step; full.spy written by extend(rtc.spy) after it, once'),
                 ('RING.right-end', 'ring buffers bounded and only extended at the right')):
        run.rule(r, t)
    cg = callgraph(model)
    so = model.func('hsm.spy_on')
    inner = cg.factories.get(so)
    if inner is None:
        raise AnalysisError('spy_on is not a decorator factory')
    g = cfg_of(inner)
    run.touch(inner, g)
    chart = inner.params[0]
    fnp = so.params[0]
    callnodes = [n for n in g.nodes if wrap.fn_calls_in(n, fnp)]
    spy_appends = [(n, c) for n in g.nodes if n.kind not in ('entry', 'exit', 'xexit', 'def') for c in n.calls()
                   if isinstance(c.func, ast.Attribute) and c.func.attr == 'append' and ring_of(c.func.value) == 'rtc.spy']
    offers = []
    hooks = []
    for n, c in spy_appends:
        a = c.args[0] if c.args else None
        fmt = const_str(a.func.value) if isinstance(a, ast.Call) and isinstance(a.func, ast.Attribute) and a.func.attr == 'format' else None
        if fmt == '{}:{}':
            offers.append((n, c, a))
        elif fmt == '{}:{}:HOOK':
            hooks.append((n, c, a))
        else:
            raise AnalysisError('spy_on: unrecognised spy line %s' % norm(c))
    run.floor('spy_on offer-line sites', len(offers), 1)
    run.floor('spy_on HOOK-line sites', len(hooks), 1)
    # the instrumented call = the call node not guarded by `not instrumented` / `hasattr(rtc) is False`
    inst_calls = []
    for n in callnodes:
        reach_wo = False
        for o, _c, _a in offers:
            if g.dominates(o, n):
                reach_wo = True
        if reach_wo:
            inst_calls.append(n)
    run.inst('SPY.offer-before-call', inner, 'an offer line dominates the instrumented handler call', len(inst_calls) == 1,
             '' if len(inst_calls) == 1 else 'no wrapped-handler call in spy_on is dominated by the "<signal>:<state>" line: invocations are logged late or not at all', obligation=True)
    # calls that are not dominated by an offer must be on the not-instrumented / no-rtc branches
    for n in callnodes:
        if n in inst_calls:
            continue
        from sa.boolflow import values_at
        hs = sorted({norm(c) for t in g.nodes if t.kind == 'test' for c in ast.walk(t.ast) if isinstance(c, ast.Call) and norm(c.func) == 'hasattr'})
        ki = chart + '.instrumented'
        vals = values_at(g, n, {ki} | set(hs))
        ok = bool(vals) and all(v.get(ki) is False or any(v.get(h_) is False for h_ in hs) for v in vals)
        run.inst('SPY.offer-before-call', inner, 'unlogged handler call only when not instrumented', ok,
                 '' if ok else 'spy_on calls the handler without logging the offer on an instrumented path', node=n.ast, obligation=True)
    for n, c, a in offers:
        args = [norm(x) for x in a.args]
        nm = [k for k in ('name',)]
        ok = len(args) == 2 and args[0].endswith('.signal_name')
        # second argument: the wrapped function's name
        defs = {}
        for st in walk_shallow(inner.node):
            if isinstance(st, ast.Assign) and len(st.targets) == 1 and isinstance(st.targets[0], ast.Name):
                defs.setdefault(st.targets[0].id, []).append(st.value)
        ok = ok and (args[1] == fnp + '.__name__' or (args[1] in defs and all(norm(v) == fnp + '.__name__' for v in defs[args[1]])))
        run.inst('SPY.offer-before-call', inner, 'offer line is "<e.signal_name>:<handler name>"', ok, 'offer line is built from %s' % args, node=c, obligation=True)
    # ---- HOOK: decided by evaluating the wrapper on a scratch chart (status x inner/outer signal) when the evaluator can follow it; the structural reading below otherwise
    hook_decided = hook_eval(run, model, so, inner)
    for n, c, a in ([] if hook_decided else hooks):
        st_tests = [t for t in g.nodes if t.kind == 'test' and isinstance(t.ast, ast.Compare) and any(status_const(x) == 'HANDLED' for x in ast.walk(t.ast))]
        # (the answer may have been taken into a local first: `inner = signals.is_inner_signal(..)` ... `if inner is not True:`)
        idefs_ = local_defs(inner.node)

        def asks_inner(t_):
            for x in ast.walk(t_):
                if isinstance(x, ast.Attribute) and x.attr == 'is_inner_signal':
                    return True
                if isinstance(x, ast.Name):
                    ds_ = [d_ for d_ in idefs_.get(x.id, []) if isinstance(d_, ast.AST)]
                    if len(ds_) == 1 and len(idefs_.get(x.id, [])) == 1 and isinstance(ds_[0], ast.Call) and norm(ds_[0].func).endswith('.is_inner_signal'):
                        return True
            return False
        in_tests = [t for t in g.nodes if t.kind == 'test' and asks_inner(t.ast)]
        ok1 = any(isinstance(t.ast.ops[0], (ast.Is, ast.Eq)) and guarded_by_edge(g, n, t, 'true') for t in st_tests)
        if not ok1:
            # the same through a local that holds the comparison (`is_hook = status is HANDLED` ... `if is_hook:`): the conditions that must hold at the HOOK line
            from sa.boolflow import must_atoms as _ma
            ok1 = any(op in ('Is', 'Eq') and r.endswith('.HANDLED') for (l, op, r) in _ma(g, n, inner.node, params=inner.params))
        ok2 = False
        for t in in_tests:
            i2, pol = strip_not(t.ast)
            # `is_inner_signal(...) is not True`  => strip_not gives (call, False): the HOOK must be on the edge where the call is False
            lab = 'true' if pol else 'false'
            want = 'false' if lab == 'true' else 'true'
            if guarded_by_edge(g, n, t, 'true') and not pol or guarded_by_edge(g, n, t, 'false') and pol:
                ok2 = True
        if not ok2:
            # through locals that hold the classification (`internal = signals.is_inner_signal(name) is True` ... `found = not internal and ...` ... `if found:`)
            from sa.boolflow import must_atoms as _ma3
            for (l_, op_, r_) in _ma3(g, n, inner.node, params=inner.params):
                if 'is_inner_signal(' in l_ and ((op_ == 'Falsy') or (op_ in ('IsNot', 'NotEq') and r_ == 'True') or (op_ in ('Is', 'Eq') and r_ == 'False')):
                    ok2 = True
                if op_ in ('Falsy', 'Truthy') and l_.isidentifier():
                    ds_ = [d_ for d_ in local_defs(inner.node).get(l_, []) if isinstance(d_, ast.AST)]
                    if len(ds_) == 1 and 'is_inner_signal(' in norm(ds_[0]):
                        i_, p_ = strip_not(ds_[0])
                        pos_ = p_          # True: the local is true exactly for inner signals
                        if isinstance(i_, ast.Compare) and len(i_.ops) == 1 and isinstance(i_.comparators[0], ast.Constant) and isinstance(i_.comparators[0].value, bool):
                            same_ = isinstance(i_.ops[0], (ast.Is, ast.Eq)) == i_.comparators[0].value
                            pos_ = p_ if same_ else not p_
                        if (op_ == 'Falsy') == pos_:
                            ok2 = True
        if not (ok1 and ok2):
            # path-sensitive: the classification may travel through a constant-valued local (`kind = 'hook'` ... `if kind == 'hook':`): which outcomes of the two
            # observations are possible where the HOOK line is written
            from sa.boolflow import values_at as _va
            watch_ = {}
            for t in g.nodes:
                if t.kind != 'test':
                    continue
                for x in ast.walk(t.ast):
                    if isinstance(x, (ast.Compare, ast.Call)) and 'is_inner_signal(' in norm(x) and (isinstance(x, ast.Compare) or norm(x.func).endswith('is_inner_signal')):
                        i_, p_ = strip_not(x)
                        pos_ = True
                        if isinstance(x, ast.Compare) and len(x.ops) == 1 and isinstance(x.comparators[0], ast.Constant) and isinstance(x.comparators[0].value, bool):
                            pos_ = isinstance(x.ops[0], (ast.Is, ast.Eq)) == x.comparators[0].value
                        watch_[norm(x)] = ('inner', pos_)
                    if isinstance(x, ast.Compare) and len(x.ops) == 1 and any(status_const(y) == 'HANDLED' for y in ast.walk(x)):
                        watch_[norm(x)] = ('handled', isinstance(x.ops[0], (ast.Is, ast.Eq)))
            try:
                vals_ = _va(g, n, set(watch_), fnode=inner.node, params=inner.params)
            except AnalysisError:
                vals_ = []
            if vals_:
                def known(v_, what, want):
                    return any(k_[0] == what and v_.get(txt_) is (want == k_[1]) for txt_, k_ in watch_.items() if v_.get(txt_) is not None)
                ok1 = ok1 or all(known(v_, 'handled', True) for v_ in vals_)
                ok2 = ok2 or all(known(v_, 'inner', False) for v_ in vals_)
        if not (ok1 and ok2):
            # a guard on a local the analysis cannot see through (a classification code computed from the observations) is an unknown idiom, not evidence of a defect
            opaque = [t for t in g.nodes if t.kind == 'test' and any(guarded_by_edge(g, n, t, lab_) for lab_ in ('true', 'false'))
                      and any(isinstance(x, ast.Name) and x.id not in inner.params and len(local_defs(inner.node).get(x.id, [])) >= 2
                              and all(isinstance(d_, (ast.Constant, ast.Name)) for d_ in local_defs(inner.node)[x.id]) for x in ast.walk(t.ast))
                      and not any(status_const(y) for y in ast.walk(t.ast)) and 'is_inner_signal' not in norm(t.ast)]
            if opaque:
                raise AnalysisError('spy_on: the HOOK line is guarded by %s, a local the analysis cannot relate to the inner-signal / HANDLED observations' % norm(opaque[0].ast))
        ok3 = all(g.dominates(cn, n) for cn in inst_calls) and bool(inst_calls)
        run.inst('SPY.hook-marker', inner, 'HOOK only if the handler returned HANDLED', ok1, 'the HOOK line is not control-dependent on `status is HANDLED`', node=c, obligation=True)
        run.inst('SPY.hook-marker', inner, 'HOOK only for non-inner signals', ok2, 'the HOOK line is not control-dependent on the inner-signal test', node=c, obligation=True)
        run.inst('SPY.hook-marker', inner, 'HOOK is appended after the handler ran', ok3, 'the HOOK line precedes the handler call', node=c, obligation=True)
        # ... and conversely every HANDLED/non-inner path appends it
        for t in st_tests:
            succ = [m for m, l in g.succ[t] if l == 'true']
            if succ and guarded_by_edge(g, n, t, 'true'):
                cnt = queues.count(g, [n], start=succ[0])
                run.inst('SPY.hook-marker', inner, 'every HANDLED non-inner offer gets its HOOK line', cnt == (1, 1), 'HOOK lines on that branch: %s' % (cnt,), node=c, obligation=True)
    # ---- markers
    def marker_wrapper(factory_name, text, when):
        fac = None
        for f in cg.factories:
            if f.name == factory_name:
                fac = f
        if fac is None:
            raise AnalysisError('marker wrapper %s not found' % factory_name)
        inn = cg.factories[fac]
        gg = cfg_of(inn)
        run.touch(inn, gg)
        recv = inn.params[0]
        apps = [(n, c) for n in gg.nodes if n.kind not in ('entry', 'exit', 'xexit', 'def') for c in n.calls()
                if isinstance(c.func, ast.Attribute) and c.func.attr == 'append' and ring_of(c.func.value) == 'rtc.spy']
        hit = []
        mdefs_ = local_defs(inn.node)
        for n, c in apps:
            a = c.args[0] if c.args else None
            if isinstance(a, ast.Name) and len(mdefs_.get(a.id, [])) == 1 and isinstance(mdefs_[a.id][0], ast.AST):
                a = mdefs_[a.id][0]          # the line built into a local first
            elif isinstance(a, ast.Name):
                # ... a local that starts as None and is set to the line once (`line = None` / `if instrumented: line = ...` / `if line is not None: append(line)`)
                real_ = [d_ for d_ in mdefs_.get(a.id, []) if isinstance(d_, ast.AST) and not (isinstance(d_, ast.Constant) and d_.value is None)]
                if len(real_) == 1 and all(isinstance(d_, ast.AST) for d_ in mdefs_.get(a.id, [])):
                    a = real_[0]
            lit = const_str(a)
            fmt = partial_format(a)
            if lit == text or (fmt is not None and fmt.startswith(text)):
                hit.append((n, c, a))
        ok = len(hit) == 1
        run.inst('SPY.markers', inn, 'marker %r appended once' % text, ok, '' if ok else 'marker %r sites: %d' % (text, len(hit)), obligation=True)
        fncalls = [n for n in gg.nodes if wrap.fn_calls_in(n, fac.params[0])]
        for n, c, a in hit:
            from props.c18 import instrumented_guard
            okg = instrumented_guard(gg, n, recv)
            run.inst('SPY.markers', inn, 'marker %r only when instrumented' % text, okg, 'marker written although the chart is not instrumented', node=c, obligation=True)
            if when == 'before':
                oko = any(gg.exists_path(n, f_) for f_ in fncalls) and not any(gg.exists_path(f_, n) for f_ in fncalls)
            else:
                oko = all(not gg.exists_path(n, f_) for f_ in fncalls) and any(gg.dominates(f_, n) for f_ in fncalls)
            run.inst('SPY.markers', inn, 'marker %r is written %s the wrapped operation' % (text, when), oko, 'marker order is wrong', node=c, obligation=True)
            if isinstance(a, ast.Call) and a.args:
                # the argument that fills the hole after the marker text (constant arguments are part of the text)
                free = [x for x in a.args if not isinstance(x, ast.Constant)]
                arg = norm(expand_locals(free[0], inn.node, depth=1, params=inn.params)) if free else 'a constant'
                okn = arg.endswith('.signal_name') and (arg.split('.')[0] in inn.params or text == 'RECALL:')
                run.inst('SPY.markers', inn, 'marker %r names the signal of the event concerned' % text, okn, 'marker argument is %s' % arg, node=c, obligation=True)
    marker_wrapper('spy_on_start', 'START', 'before')
    marker_wrapper('append_fifo_to_spy', 'POST_FIFO:', 'after')
    marker_wrapper('append_lifo_to_spy', 'POST_LIFO:', 'after')
    marker_wrapper('append_defer_to_spy', 'POST_DEFERRED:', 'after')
    marker_wrapper('append_recall_to_spy', 'RECALL:', 'before')
    # ---- scribble: the documented marker for user notes carries the caller's text unchanged
    scribble_verbatim(run, model)
    # reflection pairs
    for facname in ('append_queue_reflection_after_start', 'append_queue_reflection_to_spy'):
        fac = [f for f in cg.factories if f.name == facname]
        if not fac:
            raise AnalysisError('%s not found' % facname)
        inn = cg.factories[fac[0]]
        apps = [c for c in shallow_calls(inn.node) if isinstance(c.func, ast.Attribute) and c.func.attr == 'append' and ring_of(c.func.value) in ('rtc.spy', 'full.spy')]
        rings = sorted(ring_of(c.func.value) for c in apps)
        ldefs_ = local_defs(inn.node)

        def reflection_arg(a):
            if isinstance(a, ast.Name):
                ds = [d for d in ldefs_.get(a.id, []) if isinstance(d, ast.AST)]
                return len(ds) == 1 and len(ldefs_.get(a.id, [])) == 1 and norm(ds[0]).endswith('.queue_reflection()')
            return norm(a).endswith('.queue_reflection()')
        ok = rings == ['full.spy', 'rtc.spy'] and all(c.args and reflection_arg(c.args[0]) for c in apps)
        if ok:
            # "together": the two appends happen under the same conditions
            from sa.boolflow import must_atoms as _ma2
            gi_ = cfg_of(inn)
            nodes_ = [next((n_ for n_ in gi_.nodes if n_.kind not in ('entry', 'exit', 'xexit', 'def') and any(x_ is c for x_ in n_.walk())), None) for c in apps]
            if None in nodes_:
                raise AnalysisError('%s: reflection appends not found in the CFG' % inn.qualname)
            at_ = [_ma2(gi_, n_, inn.node, params=inn.params) for n_ in nodes_]
            ok = at_[0] == at_[1]
        run.inst('SPY.markers', inn, 'queue reflection goes to step log and full log together', ok, 'reflection written to %s' % rings, obligation=True)
    # ---- accumulate
    n_ext = 0
    held_across = []
    for f in model.all_funcs():
        al = ring_aliases(f.node)
        for c in shallow_calls(f.node):
            if not isinstance(c.func, ast.Attribute):
                continue
            ring = ring_of(c.func.value, al)
            if ring is not None and isinstance(c.func.value, ast.Name) and c.func.value.id in al:
                # an alias taken before the wrapped step and used after it keeps the *object*, not the field
                fac_ = cg.factory_of_inner(f)
                if fac_ is not None:
                    gg_ = cfg_of(f)
                    an = [n for n in gg_.nodes if n.kind == 'stmt' and n.ast is al[c.func.value.id][1]]
                    un = [n for n in gg_.nodes if n.kind not in ('entry', 'exit', 'xexit', 'def') and any(x is c for x in n.walk())]
                    steps_ = [n for n in gg_.nodes if wrap.fn_calls_in(n, fac_.params[0])]
                    if an and un and any(gg_.exists_path(an[0], s_) and gg_.exists_path(s_, un[0]) for s_ in steps_):
                        held_across.append((f, ring, c))
            if ring is None:
                continue
            m = c.func.attr
            if m in READ_ONLY:
                continue
            if m == 'clear':
                ok = True
                if ring == 'rtc.spy':
                    # must precede the wrapped step / dispatch in the same function
                    gg = cfg_of(f)
                    node = [n for n in gg.nodes if n.kind not in ('entry', 'exit', 'xexit', 'def') and any(x is c for x in n.walk())]
                    fac = cg.factory_of_inner(f)
                    if fac is not None:
                        steps = [n for n in gg.nodes if wrap.fn_calls_in(n, fac.params[0])]
                    else:
                        steps = [n for n in gg.nodes if n.kind not in ('entry', 'exit', 'xexit', 'def') and
                                 any(isinstance(x.func, ast.Attribute) and x.func.attr == 'dispatch' for x in n.calls())]
                    ok = bool(node) and bool(steps) and all(not gg.exists_path(s, node[0]) for s in steps)
                    run.inst('SPY.accumulate', f, 'step log cleared only before the step', ok,
                             '' if ok else 'rtc.spy is cleared after (or without) the step: lines of the step are lost before they reach the full log', node=c, obligation=True)
                elif ring in ('full.spy', 'full.trace'):
                    ok = f.name in ('clear_spy', 'clear_trace')
                    run.inst('SPY.accumulate', f, '%s cleared only by its clear_* method' % ring, ok, '%s is cleared in %s' % (ring, f.qualname), node=c, obligation=True)
                continue
            ok = m in RIGHT_ONLY
            run.inst('RING.right-end', f, '%s.%s' % (ring, m), ok,
                     '' if ok else '%s is modified with %s: the ring no longer keeps the most recent entries in order' % (ring, m), node=c, obligation=True)
            if ring == 'full.spy' and m == 'extend':
                n_ext += 1
                ok = c.args and ring_of(c.args[0], al) == 'rtc.spy'
                gg = cfg_of(f)
                node = [n for n in gg.nodes if n.kind not in ('entry', 'exit', 'xexit', 'def') and any(x is c for x in n.walk())]
                fac = cg.factory_of_inner(f)
                steps = [n for n in gg.nodes if fac is not None and wrap.fn_calls_in(n, fac.params[0])]
                after = bool(node) and bool(steps) and any(gg.dominates(s, node[0]) for s in steps)
                run.inst('SPY.accumulate', f, 'full log extended by the step log after the step', bool(ok) and after,
                         '' if ok and after else 'full.spy.extend is not `extend(rtc.spy)` after the wrapped step', node=c, obligation=True)
                # exactly once on the instrumented path
                from props.c18 import instrumented_guard
                inst_steps = [s for s in steps if gg.dominates(s, node[0])]
                if inst_steps:
                    cnt = queues.count(gg, node, start=inst_steps[0])
                    okx = cnt == (1, 1)
                    if not okx and cnt == (0, 1):
                        # the decision "this step is recorded" may travel in a boolean local taken before the step: path-sensitive - on every way through the
                        # wrapper the flush happens exactly when the step log was cleared for this step
                        from sa.boolflow import simulate as _sim
                        clr_ = [n_ for n_ in gg.nodes if n_.kind not in ('entry', 'exit', 'xexit', 'def') and
                                any(isinstance(x.func, ast.Attribute) and x.func.attr == 'clear' and ring_of(x.func.value, al) == 'rtc.spy' for x in n_.calls())]
                        if clr_:
                            res_ = _sim(gg, gg.entry, {gg.exit}, {}, track=set(clr_) | set(node), watch=set(), fnode=f.node, params=f.params)
                            okx = bool(res_) and all((any(c_ in vis_ for c_ in clr_)) == (node[0] in vis_) for _s, _e, vis_ in res_)
                    run.inst('SPY.accumulate', f, 'exactly one extend after the step', okx, 'extends after the step: %s' % (cnt,), node=c, obligation=True)
                # whenever the chart is instrumented, *every* normal path through this wrapper runs the step and then copies the step log: nothing but the
                # instrumented flag may route a step around the accumulation (a stuck re-entrancy flag, a cached mode, ...)
                from sa.boolflow import simulate
                recv_ = f.params[0]
                if node and steps:
                    res_ = simulate(gg, gg.entry, {gg.exit}, {'=' + recv_ + '.instrumented': True}, track=set(node) | set(steps), watch={recv_ + '.instrumented'},
                                    fnode=f.node, params=f.params)
                    missing = [vis for stop, env_, vis in res_ if env_.get('=' + recv_ + '.instrumented') is True and not (node[0] in vis and any(s_ in vis for s_ in steps))]
                    okp = bool(res_) and not missing
                    run.inst('SPY.accumulate', f, 'instrumented: every path runs the step and then extends the full log', okp,
                             '' if okp else ('with the chart instrumented there is a path through %s that returns without copying the step log into the full log (it is steered by '
                                             'something other than the instrumented flag): the spy() output is then no longer the concatenation of the step logs - for example a '
                                             'mode flag that stays set after a step ended with an exception' % f.qualname), node=c, obligation=True)
    run.floor('full.spy.extend sites', n_ext, 1)
    # ---- ring construction
    n_ring = 0
    for f in model.all_funcs():
        for st in walk_shallow(f.node):
            if isinstance(st, ast.Assign) and any(ring_of(t) for t in st.targets):
                n_ring += 1
                v = st.value
                ml = next((kw.value for kw in v.keywords if kw.arg == 'maxlen'), None) if isinstance(v, ast.Call) and norm(v.func) == 'deque' else None
                ok = ml is not None and isinstance(ml, ast.Attribute) and ml.attr.endswith('RING_BUFFER_SIZE')
                run.inst('RING.right-end', f, 'ring %s is a bounded deque' % [ring_of(t) for t in st.targets if ring_of(t)][0], ok,
                         '' if ok else 'ring buffer created as %s' % norm(v), node=st, obligation=True)
    run.floor('ring buffer constructions', n_ring, 4)
    # a ring reference held across the wrapped step is only sound if that ring is never replaced after construction
    rebinds = {}
    for f in model.all_funcs():
        if f.name in ('__init__', 'init_rtc'):
            continue
        for st in walk_shallow(f.node):
            if isinstance(st, ast.Assign):
                for t in st.targets:
                    r_ = ring_of(t)
                    if r_:
                        rebinds.setdefault(r_, []).append((f, st))
    for f, ring, c in held_across:
        rb = rebinds.get(ring, [])
        run.inst('SPY.accumulate', f, 'reference to %s held across the wrapped step' % ring, not rb,
                 '' if not rb else ('%s takes a reference to %s before the wrapped step and writes through it afterwards, while %s replaces that ring with a new object: '
                                    'if the replacement happens during the step (a handler or another thread calls it) the step\'s lines go to the discarded ring and never '
                                    'reach the log' % (f.qualname, ring, ', '.join(x.qualname for x, _s in rb))), node=c, obligation=True)
    run.assume('all handler calls of the processor go through the handler object given to start_at/trans (decorated by spy_on when instrumented)')
