"""Which properties are claimed, at what level, by which technique.  tools/gen_manifest.py turns this into MANIFEST.json."""

SA = 'static analysis of /repo/miros (python ast; nothing imported or run): '

CLAIMED = {
    'C08': {
        'level': 'Decides, for every publish sequence and every delivery lag, the necessary and sufficient structural condition of the ordering '
                 'claim: the objects kept in the fabric\'s binary heaps are ordered by a strict total order (priority, construction sequence). '
                 'Static analysis is the right level because the property quantifies over all sequences, while the order relation is a fixed '
                 'piece of code.',
        'note': 'Trusted: queue.PriorityQueue pops the `<`-smallest item; itertools.count is strictly increasing and atomic under the GIL. '
                'Order among concurrent publishers is undefined by the property and not decided.',
        'technique': SA + 'finite-domain abstract evaluation of __lt__ over all order types + dataflow of the sequence field + field-type census of the queues',
    },
    'C25': {
        'level': 'Decides the registry discipline that makes name<->number a stable bijection for all name sequences and interleavings: append-only '
                 '(who-may-write census over the whole package), numbering by size under a presence test, literal table of built-ins, reader '
                 'functions consistent with it, and the two check-then-act sites inside one critical section.',
        'note': 'Trusted: OrderedDict insertion order; C-level snapshots (list(d.keys()), `in d.values()`) are atomic under the GIL. The linearised '
                'behaviour of concurrent registrations is argued from the lock rule, not explored.',
        'technique': SA + 'who-may-write census, dominance on CFGs, literal tables, lockset rule for check-then-act and iterate-while-growing sites',
    },
    'C26': {
        'level': 'Decides the structural half of the round trip for every name and payload: the key table written by dumps equals the one read by '
                 'loads, each key is fed from the right attribute, the signal number is never serialised, loads rebuilds from the name. Payload '
                 'equality after json is a property of runtime values and is not decided.',
        'note': 'Trusted: json.dumps/json.loads are inverse on JSON-representable values. Event(name) registration is covered by C25.',
        'technique': SA + 'writer/reader table agreement by local def-use dataflow',
    },
    'C27': {
        'level': 'Decides lockset facts of the get/set hand-over protocol that hold for every interleaving: which accesses are inside the critical '
                 'section, the acquire/release balance of every path, and that the decision to acquire is not taken from a shared flag read '
                 'outside the lock. The open finding (flag read before acquire) is listed in known_findings.json.',
        'note': 'Trusted: RLock semantics; `obj.x += v` is __get__ then __set__ on one thread. Serialisability of the final value is argued from the '
                'lockset, not explored.',
        'technique': SA + 'lockset dataflow (set of lock depths per CFG node), dominance / post-dominance of acquire and release',
    },
    'C28': {
        'level': 'Decides, over the complete finite universe of Python operator tokens, which statement forms the source-line classifier treats as '
                 '"augmented assignment follows" (the lock is kept) and checks the keep/release branch structure of __get__. The per-line (not '
                 'per-statement) scope of the classifier is a design limitation recorded as an open finding.',
        'note': 'Trusted: inspect.getframeinfo gives the physical source line; token.EXACT_TOKEN_TYPES of the interpreter is the operator universe. '
                'The regex literal is evaluated by the stdlib engine on the finite token universe (constant evaluation, not execution of miros).',
        'technique': SA + 'constant evaluation of the classifier regex over token.EXACT_TOKEN_TYPES + path counting of release() per branch',
    },
    'C29': {
        'level': 'Decides for every program whether values can leak between instances: the descriptor object is per class, so the storage its '
                 '__get__/__set__ touch must be selected by their instance parameter. A dataflow fact about two small methods.',
        'note': 'Trusted: Python descriptor protocol. The default value path (0 until assigned) is checked at the metaclass call site.',
        'technique': SA + 'def-use dataflow from the instance/value parameters to the store target and to every returned value',
    },
    'C30': {
        'level': 'Decides the creation race for every schedule: test-empty and assign of the lazily created instance are in one critical section '
                 'whose lock pre-exists; no raw construction or outside assignment of the slot anywhere in the package.',
        'note': 'Trusted: `with lock` is a critical section. Singleton lifetime (process) is not modelled.',
        'technique': SA + 'lockset rule on SingletonDecorator.__call__ + who-may-construct / who-may-assign census over the package',
    },
    'C31': {
        'level': 'Decides for every interleaving that a rejected timed source never runs: no CFG path through thread.start() reaches the rejection, the '
                 'admission test dominates the start, tracked sources are untouched on the rejecting path, and a started source is always tracked.',
        'note': 'Trusted: a Thread does nothing before start(). Capacity race between two concurrent timed posts at 499/500 is not armed (see DESIGN).',
        'technique': SA + 'reachability / dominance / path counting on the CFG of the timed-post routine',
    },
    'C32': {
        'level': 'Decides writer/reader agreement between the trace formatter and stripped(): the full alphabet of timestamps the writer can emit is '
                 'removed exactly by the reader regex and nothing else is, and both branches of stripped() normalise identically. The "exactly '
                 'when" over arbitrary perturbed inputs is not decided.',
        'note': 'Trusted: strftime digit directives emit ASCII digits. Regex/format literals are evaluated by the stdlib on a finite alphabet-covering set.',
        'technique': SA + 'constant evaluation of writer format and reader regex literals over the timestamp alphabet + CFG sibling comparison of the two branches',
    },
}

NOT_APPLICABLE = {}

_P = 'check not built yet in this session (rules are specified in DESIGN.md section 4); not claimed until it runs'
PENDING = {('C%02d' % i): _P for i in range(1, 33)}
