"""Which properties are claimed, at what level, by which technique.  tools/gen_manifest.py turns this into MANIFEST.json."""

SA = 'static analysis of /repo/miros (python ast; nothing imported or run): '

CLAIMED = {
    'C08': {
        'level': 'Decides, for every publish sequence and every delivery lag, the necessary and sufficient structural condition of the ordering '
                 'claim: the objects kept in the fabric\'s binary heaps are ordered by a strict total order (priority, construction sequence). '
                 'Static analysis is the right level because the property quantifies over all sequences, while the order relation is a fixed '
                 'piece of code.',
        'note': 'Trusted: queue.PriorityQueue pops the `<`-smallest item; itertools.count is strictly increasing and atomic under the GIL. '
                'Order among concurrent publishers is undefined by the property and not decided.',
        'technique': SA + 'finite-domain abstract evaluation of __lt__ over all order types + dataflow of the sequence field + field-type census of the queues; evaluation over int objects that are equal but not identical; shared mechanism rules: QUEUE.internals (queue bookkeeping left to the queue); round 7: ORDER.start-path (fabric/writer start only on the start path, fabric first)',
    },
    'C25': {
        'level': 'Decides the registry discipline that makes name<->number a stable bijection for all name sequences and interleavings: append-only '
                 '(who-may-write census over the whole package), numbering by size under a presence test, literal table of built-ins, reader '
                 'functions consistent with it, and the two check-then-act sites inside one critical section.',
        'note': 'Trusted: OrderedDict insertion order; C-level snapshots (list(d.keys()), `in d.values()`) are atomic under the GIL. The linearised '
                'behaviour of concurrent registrations is argued from the lock rule, not explored.',
        'technique': SA + 'who-may-write census, dominance on CFGs, literal tables, lockset rule for check-then-act and iterate-while-growing sites, '
                     'publication-order rule (derived state before the binding unless readers hold the lock), finite evaluation of the constructor, append and '
                     'the two reader functions over small registries (names include the empty string, a digit string, padded and two-word names; numbers are int objects of their own); shared mechanism rules: SINGLETON.module-binding',
    },
    'C26': {
        'level': 'Decides the structural half of the round trip for every name and payload: the key table written by dumps equals the one read by '
                 'loads, each key is fed from the right attribute, the signal number is never serialised, loads rebuilds from the name; and the composition '
                 'loads(dumps(e)) is evaluated in the finite evaluator on eleven payload shapes (None, falsy scalars and containers, nested) with the '
                 'stdlib codec. Payload equality for arbitrary runtime values beyond that domain rests on json being an inverse pair.',
        'note': 'Trusted: json.dumps/json.loads are inverse on JSON-representable values. Event(name) registration is covered by C25.',
        'technique': SA + 'writer/reader table agreement by local def-use dataflow; finite-domain evaluation of dumps then loads over 11 payloads and 9 signal names (padded, tab, newline, empty, quotes, non-ASCII); shared mechanism rules: SINGLETON.module-binding; round 7: borrowed: ATOMIC.registry of C25',
    },
    'C27': {
        'level': 'Decides lockset facts of the get/set hand-over protocol that hold for every interleaving: which accesses are inside the critical '
                 'section, the acquire/release balance of every path, and that the decision to acquire is not taken from a shared flag read '
                 'outside the lock. The open finding (flag read before acquire) is listed in known_findings.json.',
        'note': 'Trusted: RLock semantics; `obj.x += v` is __get__ then __set__ on one thread. Serialisability of the final value is argued from the '
                'lockset, not explored.',
        'technique': SA + 'lockset dataflow (set of lock depths per CFG node), dominance / post-dominance of acquire and release; blocking-acquire rule; '
                     'finite evaluation of the line classifier on the 13 augmented-assignment operators; linecache readers must be given the module globals (text available for loader-only modules); no text rewriting between the frame info and the classifier; round 7: PROTO.caller-frame',
    },
    'C28': {
        'level': 'Decides, over the complete finite universe of Python operator tokens, which statement forms the source-line classifier treats as '
                 '"augmented assignment follows" (the lock is kept) and checks the keep/release branch structure of __get__. The per-line (not '
                 'per-statement) scope of the classifier is a design limitation recorded as an open finding.',
        'note': 'Trusted: inspect.getframeinfo gives the physical source line; token.EXACT_TOKEN_TYPES of the interpreter is the operator universe. '
                'The regex literal is evaluated by the stdlib engine on the finite token universe (constant evaluation, not execution of miros).',
        'technique': SA + 'constant evaluation of the classifier regex and of the classifier functions as a whole over token.EXACT_TOKEN_TYPES + path counting of '
                     'release() per branch; no getattr/setattr/hasattr/delattr with a computed key on the instance inside the descriptor (user hooks must not run with the lock held); no text rewriting between the frame info and the classifier; hand-over flag kept per descriptor; line list subscripted only when present; round 7: PROTO.caller-frame',
    },
    'C29': {
        'level': 'Decides for every program whether values can leak between instances: the descriptor object is per class, so the storage its '
                 '__get__/__set__ touch must be selected by their instance parameter. A dataflow fact about two small methods.',
        'note': 'Trusted: Python descriptor protocol. The default value path (0 until assigned) is checked at the metaclass call site.',
        'technique': SA + 'def-use dataflow from the instance/value parameters to the store target and to every returned value; the stored value is reached through the instance\'s own namespace, never through getattr (DESC.own-namespace); round 7: DESC.no-capture'
                     + '; every reaching definition of the store\'s container is the instance\'s own',
    },
    'C30': {
        'level': 'Decides the creation race for every schedule: test-empty and assign of the lazily created instance are in one critical section '
                 'whose lock pre-exists; no raw construction or outside assignment of the slot anywhere in the package.',
        'note': 'Trusted: `with lock` is a critical section. Singleton lifetime (process) is not modelled.',
        'technique': SA + 'lockset rule on SingletonDecorator.__call__ + who-may-construct / who-may-assign census over the package; publication rule: the slot receives finished objects only and is not emptied after a completed store; shared mechanism rules: SINGLETON.module-binding; ATOMIC.decorator-once; round 7: ATOMIC.no-memo',
    },
    'C31': {
        'level': 'Decides for every interleaving that a rejected timed source never runs: no CFG path through thread.start() reaches the rejection, the '
                 'admission test dominates the start, tracked sources are untouched on the rejecting path, and a started source is always tracked.',
        'note': 'Trusted: a Thread does nothing before start(). Capacity race between two concurrent timed posts at 499/500 is not armed (see DESIGN).',
        'technique': SA + 'reachability / dominance / path counting on the CFG of the timed-post routine; the limit is read through the object, not from a named base class (ADMIT.own-limit); shared mechanism rules: TRACK.owner (tracking deque created once), SCAN.pop-on-match; round 7: RING.owners'
                     + '; reaching definitions of the flag cleared on the rejection path; admission limit == maxlen',
    },
    'C32': {
        'level': 'Decides writer/reader agreement between the trace formatter and stripped(): the full alphabet of timestamps the writer can emit is '
                 'removed exactly by the reader regex and nothing else is, and both branches of stripped() normalise identically. The "exactly '
                 'when" over arbitrary perturbed inputs is not decided.',
        'note': 'Trusted: strftime digit directives emit ASCII digits. Regex/format literals are evaluated by the stdlib on a finite alphabet-covering set.',
        'technique': SA + 'constant evaluation of writer format and reader regex literals over the timestamp alphabet + CFG sibling comparison of the two branches; finite evaluation of stripped() on traces built from the writer\'s layout (equal timestamps, repeated records, blank/padded lines); WRITER.line-per-record; round 7: borrowed: LIVE.newness of C21'
                     + '; helpers followed through decorators; no memoised helper returns a mutable container',
    },
    'C04': {
        'level': 'Decides the structural necessary conditions of exactly-once, in-order dispatch with no lost wake-up and no overlapping steps: the '
                 'queue end every operation touches on every path, one wake-up token per wait and at most one step per token, a token or a '
                 '`tokens < items` re-test after every add, and (thread-root reachability over the resolved call graph) that only the object\'s '
                 'own thread reaches the step function. The linearised claim over all interleavings is NOT decided.',
        'note': 'Not decided: the history-level claim (exactly once / queue order / quiescence under every interleaving); it is argued from the '
                'token potential in DESIGN.md. Trusted: deque and Queue semantics; external callers do not drive next_rtc of a started object.',
        'technique': SA + 'end-label and path-count rules on CFGs, guard analysis of the token protocol, thread-root reachability on the call graph; who-operates census on the pending-event queue (LAYER.queue-writers) and class of the queue objects (ENDS.queue-class); shared mechanism rules: LIVE.snapshot, RING.owners (step buffers written/cleared only on the chart thread); round 7: STEP.guard-reset (guard flags cleared in a finally), borrowed: WRAP.no-block of C18',
    },
    'C05': {
        'level': 'Decides necessary conditions of "every post returns": each blocking token put has room by construction (guard + equal '
                 'capacities), the repair loops are monotone in what their guard compares, and no other loop or blocking call is reachable from an '
                 'untimed post. Fair termination itself is a liveness property of schedules and is NOT decided.',
        'note': 'Not decided: termination under fair schedules. Trusted: Queue.put blocks only when full; qsize/len are atomic reads.',
        'technique': SA + 'loop/guard operator analysis (one-sided comparison rule), call-graph closure of the post path, constructor capacity agreement; shared mechanism rules: LIVE.snapshot, RING.owners (step buffers written/cleared only on the chart thread); round 7: WRAP.no-lock (no lock held across the wrapped step), borrowed: WRAP.no-block of C18',
    },
    'C07': {
        'level': 'Decides that every configuration of subscribe/publish - instrumented or not, thread running or not, other subscribers present or '
                 'not - is a branch that reaches fabric.subscribe(own queue, ...) / fabric.publish(...): exactly-once path counts through the spy '
                 'wrappers, both branches of the thread-running selector, payload-tuple writer/reader agreement with the meta arms of top(), and '
                 'an identity-keyed "already subscribed" guard.',
        'note': 'Not decided: arrival at the chart under all delivery schedules (fabric side: C06, placement: C09).',
        'technique': SA + 'path counting through decorator wrappers, branch analysis, interprocedural key-dependence slice of the guard, namedtuple field agreement; grow-only rule for subscriber lists outside clear() (LAYER.registry-grows); shared mechanism rules: LIVE.snapshot, RING.owners (step buffers written/cleared only on the chart thread), STOP.liveness (finite evaluation of the thread-running predicate); round 7: QUEUE.internals'
                     + '; hand-over atoms of the run-time subscription (nothing but the keyed already-subscribed test may skip it)',
    },
    'C14': {
        'level': 'Decides that a queued chart is a deque driven by the same operations: ends of post_fifo/post_lifo relative to the consumer end read '
                 'from next_rtc, one pop <-> one dispatch of the popped value per step, complete_circuit loops exactly while non-empty, and '
                 'dispatch unreachable from the post methods in the call graph.',
        'note': 'Trusted: collections.deque semantics. Handlers re-entering dispatch directly (H4) are outside the quantifier.',
        'technique': SA + 'end labels, path counting, loop-shape rule, call-graph reachability; who-operates census on the pending-event queue (LAYER.queue-writers) and class of the queue objects (ENDS.queue-class); shared mechanism rules: BOUND.buffers; round 7: STEP.guard-reset (guard flags cleared in a finally)',
    },
    'C15': {
        'level': 'Decides the deferral discipline for every interleaving of defer/recall/posts/steps: single writer end, single reader end (oldest), '
                 're-post of exactly the removed element with post_fifo, None on empty, nobody else touches the buffer.',
        'note': 'Trusted: deque semantics; post_fifo places at the back (C14).',
        'technique': SA + 'end labels, path counting per branch, who-may-touch census, wrapper discipline; shared mechanism rules: BOUND.buffers, ENDS.recall-guard; round 7: STEP.guard-reset (guard flags cleared in a finally), borrowed: CONSUMER.next_rtc / CONSUMER.circuit of C14',
    },
    'C16': {
        'level': 'Decides capacity and non-blocking per path of the code, so for empty, partly filled and full queues alike: every deque has a named '
                 'bound, LockingDeque adds the item at the right end on the overflow path too, every blocking token put has room, clear() pairs '
                 'task_done with successful gets.',
        'note': 'Trusted: bounded deque evicts at the opposite end; Queue.task_done raises when called more often than get succeeded.',
        'technique': SA + 'constructor census, per-path end labels, guard analysis, exception-edge pairing of get/task_done; capacity agreement of every deque handed to the LockingDeque with its token queue; shared mechanism rules: TOKEN.pairing',
    },
    'C18': {
        'level': 'Decides for every chart and event sequence that instrumentation is behaviour-neutral in structure: each of the 17 decorator wrappers '
                 'and each host override runs the wrapped/base function exactly once with unchanged arguments and returns its result, the wrappers\' '
                 'own effects stay inside the instrumentation namespace (effect analysis), and REFLECTION is only sent to handlers known to be '
                 'spy-wrapped.',
        'note': 'Assumes H4 (handlers cannot reach wrapper locals). Behavioural equality of runs is not executed; it follows from the wrappers being '
                'transparent.',
        'technique': SA + 'exactly-once path counting on wrapper CFGs, argument/result forwarding dataflow, attribute-path effect sets, dominance of the instrumented test; exception transparency of the wrappers (no return in finally, no catch-all without re-raise); shared mechanism rules: RING.owners (step buffers written/cleared only on the chart thread), BOOK.outputs-only (state_name/state_fn read by nothing); round 7: WRAP.no-lock (no lock held across the wrapped step)'
                     + '; spy-decoration detection rests on evidence specific to the spy_on wrapper',
    },
    'C06': {
        'level': 'Decides the registry and delivery discipline for all subscribe/publish sequences, including distinct queues with equal contents: '
                 'membership by identity only (operator census), at most one registry modification per subscribe and none when already present, '
                 'kind -> registry -> thread -> fabric-queue wiring by dataflow, delivery loop over exactly registry[signal of the item], one put per '
                 'kind per publication, and no rebinding of objects the threads hold.',
        'note': 'Not decided: exactly-once across delivery-thread interleavings (a history property). Trusted: list iteration, atomic deque adds.',
        'technique': SA + 'identity/content operator census, per-path modification counts, dataflow wiring through start()/subscribe(), loop-shape rules, alias rule; grow-only rule for subscriber lists outside clear() (LAYER.registry-grows); shared mechanism rules: QUEUE.internals (queue bookkeeping left to the queue); round 7: ORDER.start-path (fabric/writer start only on the start path, fabric first)',
    },
    'C09': {
        'level': 'Decides which end of a subscriber queue each delivery thread adds to, with "front" read from the consumer (the pop in next_rtc) and the '
                 'kind of each thread resolved by dataflow. The lifo thread appending at the back is an open finding (a test pins it).',
        'note': 'Known finding F-C09 is reported as KNOWN-FINDING; any other end mismatch is a violation.',
        'technique': SA + 'end-label agreement between producer threads and the consumer, kind resolution by dataflow; who-operates census on the pending-event queue (LAYER.queue-writers) and class of the queue objects (ENDS.queue-class); shared mechanism rules: LIVE.snapshot, RING.owners (step buffers written/cleared only on the chart thread); BOUND.tokens; round 7: borrowed: ALIAS.queue of C04, QUEUE.internals',
    },
    'C10': {
        'level': 'Decides the count ("exactly n times, forever for 0") by an induction established from the CFG of the timer thread: one post and one '
                 'increment per passing iteration, counter from the literal 0, self-clear under total != 0 and counter >= total after the increment, '
                 'guard re-reads the flag; plus per-iteration order sleep < re-test < post and the def-use wiring of period/times/deferred/tag. '
                 'The firing instants are NOT decided.',
        'note': 'Not decided: wall-clock instants, sleep overshoot, drift. Assumes nobody else clears the run flag (cancellation is C11/C12).',
        'technique': SA + 'per-iteration path counting, comparison-operator table of the termination test, def-use wiring from API parameters to thread reads; round 7: RING.owners'
                     + '; finite evaluation of post_fifo/post_lifo over period x times x deferred with recording stubs',
    },
    'C11': {
        'level': 'Decides that cancellation matches by equality for every way of obtaining the id/name, that the rotate/pop scan inspects every tracked '
                 'source exactly once (one of pop()/rotate(1) per iteration, len iterations, inspected element [-1]), and that only matched sources '
                 'are stopped. The test-then-post window of the timer thread is an open finding.',
        'note': 'Known finding F-C11b (one stray post after cancel returns) is reported as KNOWN-FINDING.',
        'technique': SA + 'identity-vs-equality operator census, exactly-one-of path rule per loop iteration, guard analysis, lockset look at the timer; shared mechanism rules: TRACK.owner (tracking deque created once); round 7: RING.owners'
                     + '; admission limit == maxlen of the tracking deque; post-sleep re-test as a cut of the timer loop',
    },
    'C12': {
        'level': 'Decides the orderings that make stop() terminate and complete for every interleaving: flag cleared before the wake-up, wake-up before '
                 'the join, only RuntimeError skips the join, every path reaches cancel-all over a snapshot, the consumer re-reads the flag and does not '
                 'dispatch the stop item; and by effect analysis that stop() touches only this object. "No post after stop() returns" is limited by the '
                 'open finding F-C11b.',
        'note': 'Trusted: Thread.join semantics; the wake-up token protocol (C04).',
        'technique': SA + 'dominance / post-dominance on the CFG of stop(), snapshot-vs-live alias rule, attribute-path write set of stop(); shared mechanism rules: LIVE.snapshot, RING.owners (step buffers written/cleared only on the chart thread), TRACK.owner (tracking deque created once), STOP.liveness (finite evaluation of the thread-running predicate); round 7: ORDER.start-path (fabric/writer start only on the start path, fabric first)'
                     + '; run flag re-read between two consumer steps; admission limit == maxlen; timer re-test',
    },
    'C13': {
        'level': 'Decides "at most one delivery thread per kind for every sequence of start/stop/clear calls" through its per-path conditions: the helper '
                 'returns the handle on every path, a thread is created only when the stored handle is None or dead and is stored back, stop clears '
                 'the shared event before waking and wakes before joining with the same (handle, queue) pairs, is_alive is the conjunction (evaluated '
                 'on all 9 handle states), fabric and active objects share one run event, and nothing rebinds what the threads hold.',
        'note': 'Trusted: Thread.is_alive/join semantics. Delivery after restart relies on C06.',
        'technique': SA + 'return-path completeness, dominance, finite evaluation of is_alive over handle states, singleton/alias census; shared mechanism rules: BOUND.buffers, QUEUE.internals (queue bookkeeping left to the queue); round 7: ORDER.start-path (fabric/writer start only on the start path, fabric first)'
                     + '; stop analysis with or without the nested helper; wake-up item of the class publish() queues',
    },
    'C01': {
        'level': 'Decides, for every nesting depth and every depth of initial transition (loops are solved by widening, not unrolled), the buffer and '
                 'ordering side of the transition machinery: every store/append/load on the entry-path buffer is at the index the code believes '
                 '(zone-domain abstract interpretation of dispatch with trans_ inlined), entry loops enter slots j..0 once each and end exactly '
                 'after the target, a found common ancestor is not re-entered, trans_ sends only SUPER/EXIT, and dispatch leaves cursor == state. With ghost '
                 'depths on both chains (ancestors of the target, ancestors of the current state) it also decides: slot k holds the k-th ancestor of the '
                 'target whenever it is entered; every EXIT goes to the next state of the active chain (none skipped/repeated/foreign); where trans_ '
                 'returns, exits stopped and entries start at one and the same tested common state (parents for a self transition); no raise statement '
                 'is reachable by a protocol-following chart; the tested common state is the innermost one (at every passing common-ancestor test the states '
                 'one level below on both sides were compared and differ, which in a tree excludes any lower common ancestor); a state given up as a '
                 'candidate was compared with every ancestor of the target up to the outermost state. Termination of the search is argued from these, not decided.',
        'note': 'Trusted base: handler protocol H1-H4 (evidence lists it); the thorough tier\'s census checks the repository\'s own handlers against it. '
                'The obligations are safety facts of the code for every chart that follows H1-H4; liveness (the climb terminates) is argued from them for finite charts.',
        'technique': SA + 'relational abstract interpretation (difference-bound matrices, flag-partitioned, delayed widening) with ghost variables for buffer content, chain depths, exit count and common-ancestor witness + CFG path/guard rules over the 19 handler-call sites; shared mechanism rules: HSM-CURSOR.I1 for generators; round 7: STEP.guard-reset (guard flags cleared in a finally), HOLDER.per-chart (event/state/temp holders stay per-chart Attribute objects), borrowed: HSM-CURSOR.I1 of C22',
    },
    'C02': {
        'level': 'Decides for every chart that the processor itself bubbles an event outward one level at a time (one offer per level to the cursor '
                 'state, EMPTY re-ask exactly on UNHANDLED with its answer steering, exit exactly on not-SUPER) and runs no action and changes no '
                 'state unless a handler answered TRAN; top is effect-free and constant; every cursor-moving method restores cursor == state; and (ghost depth '
                 'on the active chain, any nesting depth) the n-th offer goes to the ancestor of the current state at depth n, the guard fallback to the state that declined.',
        'note': 'What a user handler returns is runtime and not decided. H1-H4 assumed.',
        'technique': SA + 'loop-shape and guard-polarity analysis on the CFG of dispatch, reaching definitions of the offered-to state, effect set of top, post-dominance (I1), zone-domain ghost depth of the offered-to state; answer codes pairwise distinct (STATUS.distinct); spy-decoration detection (shared with C18/C23); shared mechanism rules: HSM-CURSOR.I1 for generators, BOOK.outputs-only (state_name/state_fn read by nothing); round 7: STEP.guard-reset (guard flags cleared in a finally), HOLDER.per-chart (event/state/temp holders stay per-chart Attribute objects), borrowed: HSM-CURSOR.I1 of C22',
    },
    'C03': {
        'level': 'Decides for every depth that init() keeps its path buffer consistent (zone-domain proof of all index obligations), enters slots '
                 'index-1..0 once each ending at the target, sends only SUPER/ENTRY/INIT (nothing is exited), that start_at wires state/top/cursor '
                 'before init() and leaves cursor == state == last init target; slot k holds the k-th ancestor of the init target when entered, and no raise '
                 'statement of init() is reachable by a protocol-following chart (start state below top, init targets inside the state that takes them).',
        'note': 'As C01: LCA-style functional correctness is not decided; H1-H4 assumed.',
        'technique': SA + 'zone-domain abstract interpretation of init + entry-loop, signal-set and must-precede rules; shared mechanism rules: HSM-CURSOR.I1 for generators, FACTORY.identity (finite evaluation of Factory.start_at); round 7: STEP.guard-reset (guard flags cleared in a finally), HOLDER.per-chart (event/state/temp holders stay per-chart Attribute objects), borrowed: HSM-CURSOR.I1 of C22, borrowed: WRAP.no-block of C18',
    },
    'C19': {
        'level': 'Decides structurally that the spy log records every invocation: all handler calls go through the decorated handler object, and '
                 'inside spy_on the offer line dominates the wrapped call, the HOOK line is control-dependent on HANDLED and non-inner signal, '
                 'markers are written with the right text/event/order and only when instrumented, the step log is cleared only before a step and '
                 'the full log only grows by extend(step log) after it, rings are bounded and right-extended. The exact line sequence for a '
                 'given chart is NOT decided.',
        'note': 'Trusted: handlers reach the processor only as the decorated object given to start_at/trans.',
        'technique': SA + 'dominance / control-dependence on wrapper CFGs, who-writes census over the four ring buffers; finite evaluation of scribble() over texts with format metacharacters (SPY.scribble); shared mechanism rules: RING.owners (step buffers written/cleared only on the chart thread), ENDS.recall-guard; round 7: SPY.accessor-fresh (accessors evaluated on a full ring)',
    },
    'C20': {
        'level': 'Decides that each trace wrapper appends at most one record per call, only under "not hooked and not ignored", with start state '
                 'reflected before and end state after the step and only this step\'s tuples inspected; and outcome completeness: IGNORED always '
                 'sets event.ignored, and every package handler that is not spy-wrapped and can answer HANDLED records a hook tuple.',
        'note': 'Assumes user handlers are spy-wrapped when the chart is instrumented (spy_on_start switches instrumentation off otherwise).',
        'technique': SA + 'path counting, guard analysis, outcome-completeness rule over dispatch and every top() override; the start state of a record is reflected from state.fun (the cursor is stale after a step that raised); shared mechanism rules: RING.owners (step buffers written/cleared only on the chart thread), BOOK.outputs-only (state_name/state_fn read by nothing); round 7: HOLDER.per-chart (event/state/temp holders stay per-chart Attribute objects)'
                     + '; trace() is a pure rendering of the live trace deque (effects + iteration source)'
                     + '; round 8: TUPLES.offer-flag (finite evaluation of the spy wrapper per handler answer, its tuples handed to the trace\'s own hook-scan helper: hooked iff HANDLED)',
    },
    'C21': {
        'level': 'Decides clock-independence: no comparison of clock-derived values controls a live callback (field-based taint), newness of a trace '
                 'record is decided by identity with the remembered record and the memory is updated on every path, live spy loops iterate a '
                 'snapshot with one callback per line after the step, and active-object output funnels through one FIFO queue and one writer thread.',
        'note': 'Two writer threads from concurrently starting objects are outside this property\'s quantifier. User callbacks not analysed.',
        'technique': SA + 'field-based taint from datetime.now() to branch conditions, identity/update-on-every-path rule, loop-shape rules; finite evaluation of the writer\'s enqueue step with truthy/falsy callback objects and empty lines (LIVE.writer-item); shared mechanism rules: RING.owners (step buffers written/cleared only on the chart thread); round 7: ORDER.start-path (fabric/writer start only on the start path, fabric first)'
                     + '; writer thread: take/callback pairing over simple paths, wake-up flag cleared before the queue is examined',
    },
    'C22': {
        'level': 'Decides for every chart and argument that is_in/child_state can only send SUPER, write only the cursor, restore it on every exit, '
                 'walk outward from the cursor until top answers IGNORED or the argument matches (== comparison), set their answer only on a match, '
                 'and that child is the cursor before the outward step.',
        'note': 'Relies on I1 (cursor == state between steps), which is checked for init/dispatch in the same run. child_state fails through assert.',
        'technique': SA + 'signal-set, write-set, post-dominance and control-dependence rules; a counted walk loop is a third way out of the walk (finding unless the iterable is endless); shared mechanism rules: HSM-CURSOR.I1 for generators, BOOK.outputs-only (state_name/state_fn read by nothing); round 7: HOLDER.per-chart (event/state/temp holders stay per-chart Attribute objects)',
    },
    'C23': {
        'level': 'Decides that after start_at and after every step the last writer of state_name/state_fn on every path names the value stored in '
                 'state.fun: the bookkeeping post-dominates every handler call of dispatch/start_at, wrappers call handlers afterwards only '
                 'through state.fun/temp.fun, and spy_on writes the wrapped function\'s own name before calling it.',
        'note': 'H4 assumed.',
        'technique': SA + 'post-dominance over handler-call sites, value-identity of the bookkeeping operands, census of post-step handler calls in wrappers; spy-decoration detection (shared with C02/C18); shared mechanism rules: BOOK.outputs-only (state_name/state_fn read by nothing)',
    },
    'C24': {
        'level': 'Decides that every loop of init/dispatch/trans_ has a termination argument (decreasing index / answer-steered / I1-bounded / '
                 'repeat-parent-guarded cursor walk), that every walk-steering handler answer is tested for None before it is compared, that both '
                 'initial-transition walks carry the guard, and (zone domain) that init never reads a negative index. A hang or silently wrong walk '
                 'on a malformed chart is a missing guard, visible for every chart shape.',
        'note': 'H1 for top (answers IGNORED, does not move the cursor). Malformed charts other than the two kinds the property names are not covered.',
        'technique': SA + 'loop inventory with termination arguments, None-discipline dataflow over handler-call sites, sibling comparison, zone-domain index proofs; the arguments of every raised HsmTopologyException read only attributes the raising class or its bases define (EXC.constructible); clean-up before a re-raise cannot fail on an unstarted object (nullable attribute dereference); round 7: STEP.guard-reset (guard flags cleared in a finally), borrowed: CONSUMER.next_rtc / CONSUMER.circuit of C14'
                     + '; exception transparency of every layer between the public calls and the processor (no return in finally, no catch-all without re-raise)',
    },
    'C17': {
        'level': 'Decides the structural necessary conditions of "template, Factory and to_code builds behave like the hand-written chart": the '
                 'generated handler obeys the protocol H1-H3 the processor assumes, writers/runtime readers/to_code agree on the two registries '
                 'and their key structure, every fragment to_code can emit - enumerated completely and assembled with placeholders - parses into a '
                 'protocol-conforming handler, and Factory resolves names through a subscriptable table. Equality of the action logs of the three '
                 'builds over all event sequences is translation validation by execution and is NOT decided.',
        'note': 'Not decided: behavioural equality over event sequences. The fragment enumeration is complete for the literals present in to_code.',
        'technique': SA + 'protocol-shape matching on ASTs, registry key-structure agreement, exhaustive assembly and parsing of emitted code fragments, field-type discipline; shared mechanism rules: BOOK.outputs-only (state_name/state_fn read by nothing), FACTORY.identity (finite evaluation of Factory.start_at); REG.per-chart (no class-level container filled through an instance)'
                     + '; finite evaluation of to_code over registry contents and comparison of the parsed text with the registries; no unlocked copy/modify/store-back of a registry entry',
    },
}

NOT_APPLICABLE = {}

_P = 'check not built yet in this session (rules are specified in DESIGN.md section 4); not claimed until it runs'
PENDING = {('C%02d' % i): _P for i in range(1, 33)}
