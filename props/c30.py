"""C30 Singletons stay single even when first requested concurrently.

ATOMIC.singleton-create : in SingletonDecorator.__call__ every assignment of the instance slot is
                          inside a `with <lock>` whose lock is created once per decorator (in
                          __init__ or at class/module level), and inside that critical section it is
                          control-dependent on a re-test that the slot is still empty.
LAYER.singleton-raw     : the raw singleton classes are instantiated nowhere except through their
                          decorator; nothing outside SingletonDecorator assigns `.instance`.
RETURNS.singleton       : __call__ returns the slot on every path.
"""
import ast

from sa.model import AnalysisError, walk_shallow, dotted, norm
from sa.util import cfg_of, parents, compare_parts, is_none, strip_not

LOCK_CTORS = {'Lock', 'RLock'}


def lock_attrs(model, cls):
    """attributes of the decorator object that hold a lock, with where they are created"""
    out = {}
    for name, f in cls.methods.items():
        for n in walk_shallow(f.node):
            if isinstance(n, ast.Assign) and isinstance(n.value, ast.Call):
                cn = n.value.func
                cname = cn.id if isinstance(cn, ast.Name) else (cn.attr if isinstance(cn, ast.Attribute) else None)
                if cname in LOCK_CTORS:
                    for t in n.targets:
                        d = dotted(t)
                        if d and d.startswith('self.'):
                            out.setdefault(d.split('.', 1)[1], []).append(name)
    for k, v in cls.consts.items():
        if isinstance(v, ast.Call):
            cn = v.func
            cname = cn.id if isinstance(cn, ast.Name) else (cn.attr if isinstance(cn, ast.Attribute) else None)
            if cname in LOCK_CTORS:
                out.setdefault(k, []).append('<class body>')
    return out


def check(run, model, tier):
    run.explanation = ('Lockset / who-may-call analysis of miros/singleton.py and of every use of the five singleton '
                       'factories: the lazily created instance is tested and assigned inside one critical section whose '
                       'lock exists before any call, and no code path constructs a raw singleton class or assigns the '
                       'slot from outside. Decides the creation race for every schedule because the rule is about the '
                       'shape of the code, not about a sampled interleaving.')
    run.rule('ATOMIC.singleton-create', 'test-empty and assign of the instance slot are in one `with lock`; the lock is created once per decorator')
    run.rule('LAYER.singleton-raw', 'raw singleton classes are never instantiated except via SingletonDecorator; `.instance` assigned only inside SingletonDecorator')
    run.rule('RETURNS.singleton', '__call__ returns the slot on every normal path')
    cls = model.cls('SingletonDecorator')
    call = cls.methods.get('__call__')
    init = cls.methods.get('__init__')
    if call is None or init is None:
        raise AnalysisError('SingletonDecorator.__call__/__init__ not found')
    selfn = call.params[0]
    # the slot: attribute of self that __call__ returns
    # the slot: the attribute of self that receives the constructed object (the call of the decorated class kept in __init__)
    klass_attrs = set()
    for n in walk_shallow(init.node):
        if isinstance(n, ast.Assign) and isinstance(n.value, ast.Name) and n.value.id in init.params[1:]:
            for t in n.targets:
                d = dotted(t)
                if d and d.startswith(init.params[0] + '.'):
                    klass_attrs.add(d.split('.', 1)[1])
    slots = set()
    ctor_locals = set()
    for n in walk_shallow(call.node):
        if isinstance(n, ast.Assign) and isinstance(n.value, ast.Call) and dotted(n.value.func) in {selfn + '.' + k for k in klass_attrs}:
            for t in n.targets:
                d = dotted(t)
                if d and d.startswith(selfn + '.'):
                    slots.add(d.split('.', 1)[1])
                elif isinstance(t, ast.Name):
                    ctor_locals.add(t.id)       # construct-then-assign through a local
    for n in walk_shallow(call.node):
        if isinstance(n, ast.Assign) and isinstance(n.value, ast.Name) and n.value.id in ctor_locals:
            for t in n.targets:
                d = dotted(t)
                if d and d.startswith(selfn + '.'):
                    slots.add(d.split('.', 1)[1])
    # allocation without construction (klass.__new__(klass) / object.__new__(klass)) assigned to an attribute of the decorator
    alloc_only = []
    for n in walk_shallow(call.node):
        if isinstance(n, ast.Assign) and isinstance(n.value, ast.Call) and isinstance(n.value.func, ast.Attribute) and n.value.func.attr == '__new__' \
                and any(dotted(a_) in {selfn + '.' + k for k in klass_attrs} for a_ in [n.value.func.value] + list(n.value.args)):
            for t in n.targets:
                d = dotted(t)
                if d and d.startswith(selfn + '.'):
                    slots.add(d.split('.', 1)[1])
                    alloc_only.append(n)
    if len(slots) != 1:
        raise AnalysisError('cannot identify the instance slot of SingletonDecorator.__call__ (the attribute that receives the constructed object): %s' % sorted(slots))
    slot = slots.pop()
    # the slot is read without the lock on the fast path: what it holds must be a finished object from the moment it is not None, and must stay
    run.rule('ATOMIC.singleton-publish', 'the slot receives the object only when its construction is complete, and is never emptied again in __call__')
    for n in alloc_only:
        run.inst('ATOMIC.singleton-publish', call, 'the slot receives a constructed object: ' + norm(n)[:60], False,
                 '__call__ stores the bare allocation %s in the slot and runs __init__ afterwards: the unlocked fast path (`%s.%s is None`) of another thread hands out the object while its '
                 'constructor is still running' % (norm(n.value), selfn, slot), node=n, obligation=True)
    resets = [n for n in walk_shallow(call.node) if isinstance(n, ast.Assign) and isinstance(n.value, ast.Constant) and n.value.value is None
              and any(dotted(t) == '%s.%s' % (selfn, slot) for t in n.targets)]
    gp_ = cfg_of(call)

    def after_store(reset):
        """can the reset run after some store of an object into the slot has completed (a path from a normal successor of that store)?"""
        rn = [m for m in gp_.nodes if m.kind == 'stmt' and m.ast is reset]
        for a_ in walk_shallow(call.node):
            if isinstance(a_, ast.Assign) and a_ is not reset and any(dotted(t) == '%s.%s' % (selfn, slot) for t in a_.targets) \
                    and not (isinstance(a_.value, ast.Constant) and a_.value.value is None):
                an_ = [m for m in gp_.nodes if m.kind == 'stmt' and m.ast is a_]
                for m in an_:
                    for nx, lab in gp_.succ[m]:
                        if lab != 'exc' and rn and (nx is rn[0] or gp_.exists_path(nx, rn[0])):
                            return True
        return False
    resets = [n for n in resets if after_store(n)]
    for n in resets:
        run.inst('ATOMIC.singleton-publish', call, 'the slot is not emptied again: ' + norm(n), False,
                 '__call__ sets the slot back to None (%s): an object that was already visible in the slot - and may have been handed to another thread by the unlocked fast path - is '
                 'abandoned and the next request builds a second instance; two "singletons" are in circulation' % norm(n), node=n, obligation=True)
    if not alloc_only and not resets:
        run.inst('ATOMIC.singleton-publish', call, 'slot written only with finished objects, never emptied', True, obligation=True)
    locks = lock_attrs(model, cls)
    par = parents(call.node)
    assigns = [n for n in walk_shallow(call.node) if isinstance(n, ast.Assign)
               and any(dotted(t) == '%s.%s' % (selfn, slot) for t in n.targets)]
    run.floor('assignments of the singleton slot in __call__', len(assigns), 1)
    from props.c27 import held_states
    from sa.boolflow import _atoms
    from sa.util import guarded_by_edge as _gbe, cfg_of as _cfg, local_defs as _ld
    gc = _cfg(call)
    slot_path = '%s.%s' % (selfn, slot)
    # lock regions: `with <lock>` blocks (by containment) and explicit acquire()/release() pairs (by lock-depth dataflow)
    def lock_of(expr):
        d = dotted(expr)
        if d and d.startswith(selfn + '.') and d.split('.', 1)[1] in locks:
            return d
        if d and (call.module.name, d) in model.module_bindings:
            v = model.module_bindings[(call.module.name, d)]
            if isinstance(v, ast.Call) and norm(v.func).split('.')[-1] in LOCK_CTORS:
                return d
        return None
    withs = [w_ for w_ in walk_shallow(call.node) if isinstance(w_, ast.With) and any(lock_of(it.context_expr) for it in w_.items)]
    acq = {n for n in gc.nodes if n.kind not in ('entry', 'exit', 'xexit', 'def') and
           any(isinstance(c.func, ast.Attribute) and c.func.attr == 'acquire' and lock_of(c.func.value) for c in n.calls())}
    rel = {n for n in gc.nodes if n.kind not in ('entry', 'exit', 'xexit', 'def') and
           any(isinstance(c.func, ast.Attribute) and c.func.attr == 'release' and lock_of(c.func.value) for c in n.calls())}
    depth = held_states(gc, acq, rel, 0)
    per_call_lock = [d_ for d_, where in locks.items() if '__call__' in where]

    def held(n):
        if any(any(x is n.ast for x in ast.walk(w_)) for w_ in withs if n.kind != 'with' or n.ast is not w_):
            return True
        return bool(depth[n]) and min(depth[n]) >= 1 and n not in acq
    if acq:
        # an explicit acquire must be given back on every way out, also when the constructor raises (try/finally)
        leaks = [p_ for p_, lab_ in gc.pred[gc.exit] + gc.pred[gc.xexit] if depth[p_] and max((d_ - (1 if p_ in rel else 0)) for d_ in depth[p_]) >= 1]
        fin = [t_ for t_ in walk_shallow(call.node) if isinstance(t_, ast.Try) and t_.finalbody and any(isinstance(x, ast.Call) and isinstance(x.func, ast.Attribute) and x.func.attr == 'release'
                                                                                                       for b_ in t_.finalbody for x in ast.walk(b_))]
        ok_ = not leaks and bool(fin)
        run.inst('ATOMIC.singleton-create', call, 'an explicitly acquired lock is released on every way out (try/finally)', ok_,
                 '' if ok_ else ('__call__ acquires the singleton lock explicitly and can leave without releasing it (a constructor that raises, or a return inside the section): every later '
                                 'first request of this singleton blocks for ever'), obligation=True)
    for a in assigns:
        an = [n for n in gc.nodes if n.kind == 'stmt' and n.ast is a]
        if not an:
            raise AnalysisError('assignment of the singleton slot not found in the CFG')
        an = an[0]
        lock_ok = held(an) and not per_call_lock
        why = ('the lock is created inside __call__ (one lock per call protects nothing)' if per_call_lock else
               'assignment of the instance slot is not inside a critical section of the singleton lock: two threads can both see the slot empty and both construct')
        retest = False
        if lock_ok:
            for t in gc.nodes:
                if t.kind != 'test' or not held(t):
                    continue
                for lab in ('true', 'false'):
                    if not _gbe(gc, an, t, lab):
                        continue
                    texpr = t.ast
                    # a local computed *inside* the critical section from the shared slot stands for that read (`still_empty = self.instance is None`)
                    for _ in range(3):
                        i0, p0 = strip_not(texpr)
                        if isinstance(i0, ast.Name):
                            dn = [m_ for m_ in gc.nodes if m_.kind == 'stmt' and isinstance(m_.ast, ast.Assign) and any(isinstance(tt, ast.Name) and tt.id == i0.id for tt in m_.ast.targets)]
                            if len(dn) == 1 and held(dn[0]) and gc.dominates(dn[0], t):
                                texpr = dn[0].ast.value if p0 else ast.UnaryOp(op=ast.Not(), operand=dn[0].ast.value)
                                continue
                        break
                    atoms = set()
                    _atoms(texpr, lab == 'true', atoms)
                    if any(l == slot_path and ((op in ('Is', 'Eq') and r == 'None') or op == 'Falsy') for (l, op, r) in atoms):
                        retest = True
            if not retest:
                why = 'inside the critical section the slot is assigned without re-testing (there, on the shared slot itself) that it is still empty'
        run.inst('ATOMIC.singleton-create', call, 'assign ' + slot, lock_ok and retest, why if not (lock_ok and retest) else '',
                 node=a, obligation=True)
    # lock creation sites
    for name, where in locks.items():
        run.inst('ATOMIC.singleton-create', init, 'lock ' + name + ' created in ' + ','.join(where),
                 '__call__' not in where, 'lock created per call', nontrivial=False)
    # returns
    g = cfg_of(call)
    rets = [n for n in g.nodes if n.kind == 'stmt' and isinstance(n.ast, ast.Return)]
    falls = [p for p, lab in g.pred[g.exit] if lab != 'return']
    def returns_slot(v):
        if v is None:
            return False
        if dotted(v) == '%s.%s' % (selfn, slot):
            return True
        if isinstance(v, ast.Name):
            defs_ = [n for n in walk_shallow(call.node) if isinstance(n, ast.Assign) and any(isinstance(t, ast.Name) and t.id == v.id for t in n.targets)]
            return bool(defs_) and all(dotted(n.value) == '%s.%s' % (selfn, slot) or any(dotted(t) == '%s.%s' % (selfn, slot) for t in n.targets) for n in defs_)
        return False
    ok = all(returns_slot(r.ast.value) for r in rets) and not falls
    run.inst('RETURNS.singleton', call, 'returns ' + slot, ok, 'some path of __call__ does not return the shared slot')
    # the slot is initialised empty in __init__
    init_ok = any(isinstance(n, ast.Assign) and any(dotted(t) == 'self.' + slot for t in n.targets) and is_none(n.value)
                  for n in walk_shallow(init.node))
    run.inst('ATOMIC.singleton-create', init, 'slot starts empty', init_ok, '__init__ does not initialise the slot to None', nontrivial=False)

    # ---- LAYER
    singles = model.singleton_factories()
    run.floor('singleton factories declared', len(singles), 5)
    raw = set(singles.values())
    n_sites = 0
    for f in model.all_funcs():
        for n in walk_shallow(f.node):
            if isinstance(n, ast.Call):
                nm = n.func.id if isinstance(n.func, ast.Name) else (n.func.attr if isinstance(n.func, ast.Attribute) else None)
                if nm in singles:
                    n_sites += 1
                    run.inst('LAYER.singleton-raw', f, 'factory call ' + norm(n), True, nontrivial=False, node=n)
                if nm in raw:
                    run.inst('LAYER.singleton-raw', f, 'raw construction ' + norm(n), False,
                             'raw singleton class %s is instantiated directly: a second instance exists' % nm, node=n)
            if isinstance(n, (ast.Assign, ast.AugAssign)) and f.owner_class is not cls:
                tg = n.targets if isinstance(n, ast.Assign) else [n.target]
                for t in tg:
                    if isinstance(t, ast.Attribute) and t.attr == slot and isinstance(t.value, ast.Name) and t.value.id in singles:
                        run.inst('LAYER.singleton-raw', f, 'external slot write ' + norm(n), False,
                                 'the singleton slot is assigned outside SingletonDecorator', node=n)
    # module level: raw construction / slot writes
    for m in model.modules.values():
        for st in m.tree.body:
            for n in ([st] if not isinstance(st, (ast.FunctionDef, ast.ClassDef)) else []):
                for x in ast.walk(n):
                    if isinstance(x, ast.Call):
                        nm = x.func.id if isinstance(x.func, ast.Name) else None
                        if nm in raw:
                            run.inst('LAYER.singleton-raw', m.name + '.<module>', 'raw construction ' + norm(x), False,
                                     'raw singleton class %s is instantiated at module level' % nm)
                        if nm in singles:
                            n_sites += 1
                            run.inst('LAYER.singleton-raw', m.name + '.<module>', 'factory call ' + norm(x), True, nontrivial=False)
    run.floor('singleton factory call sites', n_sites, 9)
    for name, k in sorted(singles.items()):
        run.inst('LAYER.singleton-raw', 'declaration', '%s = SingletonDecorator(%s)' % (name, k), k in model.classes,
                 'decorated class not found in package', nontrivial=False)
    run.assume('CPython semantics: a `with lock` body is a critical section; attribute assignment is atomic')
