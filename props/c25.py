"""C25 Signal names and numbers form a stable one-to-one registry, even under threads.

LAYER.registry-writers  : only SignalSource.__init__ and SignalSource.append store into the registry; nothing in the
                          package deletes, pops, clears, updates or re-orders it (append-only => numbers never change,
                          position == number - 1).
REG.numbering           : the built-ins are the consecutive literals 1..N written first, `highest_inner_signal = len(self)`
                          directly after them; `append` stores `len(self) + 1` only on the branch where the name is
                          absent (the presence test dominates the store: no renumbering).
REG.inverse             : name_for_signal inverts by position over keys()/values(); is_inner_signal slices exactly the
                          built-in prefix; __getattr__ falls back to append; Event.__init__ derives name from number and
                          number from name through the registry.
ATOMIC.registry         : test-and-store in append is one critical section; Python-level iteration over the live
                          registry (a `for` over signals.items()) happens under the same lock or over a snapshot.
"""
import ast

from sa.model import AnalysisError, walk_shallow, dotted, norm
from sa.util import cfg_of, shallow_calls, const_str, parents, guarded_by_edge, local_defs

DESTRUCTIVE = {'pop', 'popitem', 'clear', 'update', 'move_to_end', 'setdefault', '__delitem__', '__setitem__'}
LOCK_CTORS = {'Lock', 'RLock'}


def with_lock_of(node, par, stop, lock_names):
    p = par.get(node)
    while p is not None and p is not stop:
        if isinstance(p, ast.With):
            for it in p.items:
                d = dotted(it.context_expr)
                if d and d.split('.')[-1] in lock_names:
                    return p
        p = par.get(p)
    return None


def check(run, model, tier):
    run.explanation = ('Who-may-write census over the whole package for the signal registry, literal-table and dominance checks of the '
                       'numbering scheme, and a lockset rule for the two check-then-act / iterate-while-growing sites. Append-only plus '
                       '"number = size + 1 under a lock" gives a stable bijection for every sequence of names and every interleaving.')
    run.rule('LAYER.registry-writers', 'only SignalSource.__init__/append store into the registry; no delete/pop/clear/update anywhere')
    run.rule('REG.numbering', 'built-ins are literals 1..N; highest_inner_signal=len(self) right after; append stores len(self)+1 only if absent')
    run.rule('REG.inverse', 'name_for_signal / is_inner_signal / __getattr__ / Event.__init__ read the registry consistently')
    run.rule('ATOMIC.registry', 'test-and-store in append in one critical section; Python-level scans under the lock or over a snapshot')
    src = model.cls('SignalSource')
    init, append = src.methods.get('__init__'), src.methods.get('append')
    if init is None or append is None:
        raise AnalysisError('SignalSource.__init__/append not found')
    for f in src.methods.values():
        run.touch(f)
    # ---- REG.numbering: the built-in table (decided on the evaluated constructor further down; the literal-table form is the fall-back)
    stores = []
    for st in init.node.body:
        if isinstance(st, ast.Assign) and len(st.targets) == 1 and isinstance(st.targets[0], ast.Subscript) \
                and isinstance(st.targets[0].value, ast.Name) and st.targets[0].value.id == init.params[0]:
            stores.append(st)
    names = [const_str(s.targets[0].slice) for s in stores]
    nums = [s.value.value if isinstance(s.value, ast.Constant) else None for s in stores]
    required = {'ENTRY_SIGNAL', 'EXIT_SIGNAL', 'INIT_SIGNAL', 'REFLECTION_SIGNAL', 'EMPTY_SIGNAL', 'SEARCH_FOR_SUPER_SIGNAL',
                'STOP_FABRIC_SIGNAL', 'STOP_ACTIVE_OBJECT_SIGNAL', 'SUBSCRIBE_META_SIGNAL', 'PUBLISH_META_SIGNAL'}

    def literal_table_rules():
        run.floor('built-in signal literals', len(stores), 10)
        ok = nums == list(range(1, len(nums) + 1)) and None not in names and len(set(names)) == len(names)
        run.inst('REG.numbering', init, 'built-ins numbered 1..%d' % len(nums), ok,
                 '' if ok else 'built-in signals are not the distinct names numbered consecutively from 1: %s' % list(zip(names, nums)), obligation=True)
        run.inst('REG.numbering', init, 'the ten built-in names', set(names) == required,
                 'built-in set differs from the documented ten inner signals: %s' % sorted(set(names) ^ required), obligation=True)
        # highest_inner_signal = len(self) after the last literal and before anything else stores
        his = [st for st in init.node.body if isinstance(st, ast.Assign) and any(dotted(t) == init.params[0] + '.highest_inner_signal' for t in st.targets)]
        ok = False
        if len(his) == 1 and stores:
            h = his[0]
            is_len = isinstance(h.value, ast.Call) and isinstance(h.value.func, ast.Name) and h.value.func.id == 'len' \
                and h.value.args and isinstance(h.value.args[0], ast.Name) and h.value.args[0].id == init.params[0]
            is_const = isinstance(h.value, ast.Constant) and h.value.value == len(stores)
            after_all = h.lineno > max(s.lineno for s in stores)
            ok = (is_len or is_const) and after_all
        run.inst('REG.numbering', init, 'highest_inner_signal = len(self) after the built-ins', ok,
                 '' if ok else 'highest_inner_signal is not the number of built-ins taken directly after they are stored: '
                 'user signals would be classified as inner signals or built-ins as user signals', obligation=True)
    # ---- append: presence test dominates the store, store value len(self)+1
    g = cfg_of(append)
    selfn, namep = append.params[0], append.params[1]
    snodes = [n for n in g.nodes if n.kind == 'stmt' and isinstance(n.ast, ast.Assign) and
              any(isinstance(t, ast.Subscript) and isinstance(t.value, ast.Name) and t.value.id == selfn for t in n.ast.targets)]
    call_stores = [n for n in g.nodes if n.kind not in ('entry', 'exit', 'xexit', 'def') and any(isinstance(c.func, ast.Attribute) and c.func.attr in ('setdefault', 'update', '__setitem__')
                                                                                                  and isinstance(c.func.value, ast.Name) and c.func.value.id == selfn for c in n.calls())]
    run.floor('registry stores in append', len(snodes) + len(call_stores), 1)
    tests = [t for t in g.nodes if t.kind == 'test' and isinstance(t.ast, ast.Compare) and isinstance(t.ast.ops[0], (ast.In, ast.NotIn))
             and isinstance(t.ast.comparators[0], ast.Name) and t.ast.comparators[0].id == selfn]
    numbering_shape = []
    for s in snodes:
        guarded = False
        for t in tests:
            absent_label = 'false' if isinstance(t.ast.ops[0], ast.In) else 'true'
            if guarded_by_edge(g, s, t, absent_label):
                guarded = True
        run.inst('REG.numbering', append, 'store only when the name is absent', guarded,
                 '' if guarded else 'append stores a number for a name without first establishing that the name is absent: '
                 'an existing name is renumbered', node=s.ast, obligation=True)
        v = resolve_all(s.ast.value, local_defs(append.node))
        want = isinstance(v, ast.BinOp) and isinstance(v.op, ast.Add) and \
            ((isinstance(v.left, ast.Call) and norm(v.left) == 'len(%s)' % selfn and isinstance(v.right, ast.Constant) and v.right.value == 1) or
             (isinstance(v.right, ast.Call) and norm(v.right) == 'len(%s)' % selfn and isinstance(v.left, ast.Constant) and v.left.value == 1))
        numbering_shape.append((s, want, v))
        key = s.ast.targets[0].slice
        run.inst('REG.numbering', append, 'stored under the requested name', isinstance(key, ast.Name) and key.id == namep,
                 'the store key is not the requested name', node=s.ast)
    # ---- LAYER: census of writes over the package
    n_sites = 0
    for f in model.all_funcs():
        recv_names = {'signals'}
        if f.owner_class is src and f.params:
            recv_names.add(f.params[0])
        for n in walk_shallow(f.node):
            tgt = None
            if isinstance(n, (ast.Assign, ast.AugAssign)):
                tg = n.targets if isinstance(n, ast.Assign) else [n.target]
                for t in tg:
                    if isinstance(t, ast.Subscript) and isinstance(t.value, ast.Name) and t.value.id in recv_names:
                        n_sites += 1
                        ok = f in (init, append)
                        run.inst('LAYER.registry-writers', f, 'store ' + norm(t), ok,
                                 '' if ok else 'the signal registry is written outside SignalSource.__init__/append', node=n, nontrivial=not ok)
            if isinstance(n, ast.Delete):
                for t in n.targets:
                    if isinstance(t, ast.Subscript) and isinstance(t.value, ast.Name) and t.value.id in recv_names:
                        run.inst('LAYER.registry-writers', f, 'del ' + norm(t), False, 'a signal is deleted: later names reuse its number', node=n)
            if isinstance(n, ast.Call) and isinstance(n.func, ast.Attribute) and n.func.attr in DESTRUCTIVE \
                    and isinstance(n.func.value, ast.Name) and n.func.value.id in recv_names:
                if n.func.attr in ('update', 'setdefault', '__setitem__') and f in (init, append):
                    continue
                run.inst('LAYER.registry-writers', f, norm(n.func), False,
                         'the signal registry is mutated through %s: numbering is no longer append-only' % n.func.attr, node=n)
    run.floor('registry store sites found in the package', n_sites, 2)
    # base class must not override item assignment in a way we cannot see
    for k in model.mro(src)[1:]:
        for nm in ('__setitem__', '__delitem__', '__len__', 'keys', 'values', 'items'):
            if nm in k.methods:
                raise AnalysisError('registry base class %s overrides %s: numbering model no longer applies' % (k.name, nm))
    for nm in ('__setitem__', '__delitem__', '__len__', 'keys', 'values', 'items', '__contains__'):
        if nm in src.methods:
            raise AnalysisError('SignalSource overrides %s: numbering model no longer applies' % nm)
    # ---- REG.inverse
    nfs = src.methods.get('name_for_signal')
    if nfs is None:
        raise AnalysisError('SignalSource.name_for_signal not found')
    iis = src.methods.get('is_inner_signal')
    if iis is None:
        raise AnalysisError('SignalSource.is_inner_signal not found')
    # ---- the two readers are pure functions of the registry: evaluate them on small registries.  Two families of worlds:
    #   (a) built by the code itself: __init__'s statements and then append() are evaluated (stores allowed into the scratch world), so any derived
    #       state the class keeps (a reverse index, a counter) is whatever the class's own writers produce
    #   (b) hand-built registries with 1 or 3 built-in names (only usable when the readers need nothing but the mapping and highest_inner_signal)
    run.rule('REG.readers-eval', 'is_inner_signal / name_for_signal evaluated over small registries: inner == among the first highest_inner_signal entries; name_for_signal inverts the binding')
    run.rule('REG.numbering-eval', '__init__ then append() evaluated on a scratch registry: numbers are 1..n in registration order, an existing name keeps its number')
    from sa import pureeval
    import collections as _c

    class _Reg(_c.OrderedDict):
        pass
    methods = {k: f.node for k, f in src.methods.items() if k not in ('__init__', '__getattr__')}
    lock_attrs = set()

    def built_world(user_names):
        reg = _Reg()
        env = dict(pureeval.module_constants(model, src.module))
        env.update({init.params[0]: reg, '__mutable__': True, '__methods__': methods})
        for st in init.node.body:
            if isinstance(st, ast.Expr) and isinstance(st.value, ast.Constant):
                continue
            if isinstance(st, ast.Expr) and isinstance(st.value, ast.Call) and norm(st.value.func).startswith('super('):
                continue
            if isinstance(st, ast.Assign) and isinstance(st.value, ast.Call) and norm(st.value.func).split('.')[-1] in LOCK_CTORS:
                for t in st.targets:
                    d = dotted(t)
                    if d and d.startswith(init.params[0] + '.'):
                        setattr(reg, d.split('.', 1)[1], pureeval.Obj())
                        lock_attrs.add(d.split('.', 1)[1])
                continue
            pureeval.run_body([st], env)
        for k, v in src.consts.items():
            if isinstance(v, ast.Call) and norm(v.func).split('.')[-1] in LOCK_CTORS:
                setattr(reg, k, pureeval.Obj())
        for nm in user_names:
            pureeval.call(append.node, [reg, nm], mutable=True, methods=methods, globals_=pureeval.module_constants(model, src.module))
        return reg
    eval_numbering = None
    worlds = []
    try:
        base = built_world([])
        bnames = list(base.keys())
        okb = list(base.values()) == list(range(1, len(base) + 1))
        run.inst('REG.numbering-eval', init, 'the constructed registry numbers its %d built-ins 1..%d in order' % (len(base), len(base)), okb,
                 '' if okb else 'built-in signals are not numbered consecutively from 1: %s' % list(base.items()), obligation=True)
        run.inst('REG.numbering-eval', init, 'the ten built-in names', set(bnames) == required,
                 'built-in set differs from the documented ten inner signals: %s' % sorted(set(bnames) ^ required), obligation=True)
        names = bnames
        for users in ([], ['USER_0', 'USER_1'], ['USER_0', 'USER_1', 'USER_0', 'ENTRY_SIGNAL', 'USER_2'], ['USER_0', '', ' padded ', '0', 'USER_0', 'two words']):
            reg = built_world(users)
            want_names = list(names)
            for u in users:
                if u not in want_names:
                    want_names.append(u)
            got = list(reg.items())
            okw = got == [(nm, i + 1) for i, nm in enumerate(want_names)]
            if not okw and eval_numbering is None:
                eval_numbering = 'after registering %s the registry reads %s' % (users, got[len(names) - 1:] if len(got) >= len(names) else got)
            his_v = vars(reg).get('highest_inner_signal')
            if his_v != len(names) and eval_numbering is None:
                eval_numbering = 'highest_inner_signal is %r after construction and %d registrations, expected the number of built-ins %d' % (his_v, len(users), len(names))
            worlds.append((reg, len(names)))
        run.inst('REG.numbering-eval', append, 'numbers are position+1 and stable over 4 registration sequences (incl. repeated, built-in, empty and padded names)', eval_numbering is None,
                 '' if eval_numbering is None else 'the numbering is not "each new name gets size+1, an existing name keeps its number": ' + eval_numbering, obligation=True)
    except AnalysisError as ex_:
        run.note('SignalSource.__init__/append are outside the evaluator\'s fragment (%s): numbering decided by the structural rules only' % ex_)
        worlds = []
    except pureeval.Raised as ex_:
        run.inst('REG.numbering-eval', append, 'constructor and append complete on a scratch registry', False,
                 'evaluating SignalSource.__init__ and append() raises %s' % ex_.what, obligation=True)
        worlds = []
    built = bool(worlds)
    if not built:
        literal_table_rules()
    for s_, want_, v_ in numbering_shape:
        if built:
            continue        # decided by REG.numbering-eval on the class's own code
        run.inst('REG.numbering', append, 'new number = len(self) + 1', want_,
                 '' if want_ else 'the number given to a new name is %s, not len(self)+1: numbers stop being position+1 / may collide' % norm(v_),
                 node=s_.ast, obligation=True)
    for n_inner in (1, 3):
        for n_user in (0, 2):
            reg = _Reg()
            for i in range(n_inner):
                reg['INNER_%d' % i] = i + 1
            for i in range(n_user):
                reg['USER_%d' % i] = n_inner + i + 1
            if n_user and n_inner == 3:
                # any string is a signal name: the empty one, one that reads like a number, one with blanks around it
                for i, odd in enumerate(('', '0', ' padded ')):
                    reg[odd] = n_inner + n_user + i + 1
            reg.highest_inner_signal = n_inner
            for la in lock_attrs:
                setattr(reg, la, pureeval.Obj())
            worlds.append((reg, n_inner))
    # one large hand-built registry whose numbers are int objects of their own (CPython shares only small ints): a reader that compares numbers by identity
    # works for the first 256 signals and fails beyond
    big = _Reg()
    for i in range(2):
        big['INNER_%d' % i] = int(str(i + 1))
    for i in range(300):
        big['USER_%d' % i] = int(str(2 + i + 1))
    big.highest_inner_signal = 2
    for la in lock_attrs:
        setattr(big, la, pureeval.Obj())
    worlds.append((big, 2))
    bad_i, bad_n, n_eval, n_worlds, skipped = None, None, 0, 0, None
    decided_i = decided_n = False
    for wi, (reg, n_inner) in enumerate(worlds):
        hand = not built or wi >= len(worlds) - 5
        total = len(reg)
        items_ = list(reg.items()) if len(reg) < 50 else list(reg.items())[:3] + list(reg.items())[-3:]
        probes = [(k, v <= n_inner) for k, v in items_] + [(int(str(v)), v <= n_inner) for k, v in items_] + [('NEVER_SEEN', False), (total + 5, False), (0, False), (None, False)]
        try:
            for arg, want in probes:
                try:
                    got = pureeval.call(iis.node, [reg, arg], strict_locals=True, methods=methods, globals_=pureeval.module_constants(model, src.module))
                except pureeval.Raised as ex:
                    got = 'raises ' + ex.what
                n_eval += 1
                if got is not want and bad_i is None:
                    bad_i = (dict(reg), n_inner, arg, want, got)
            decided_i = True
        except AnalysisError as ex_:
            if not hand or not built:
                skipped = str(ex_)
        try:
            for k, v in (list(reg.items()) if len(reg) < 50 else list(reg.items())[:3] + list(reg.items())[-3:]):
                v = int(str(v))
                try:
                    got = pureeval.call(nfs.node, [reg, v], strict_locals=True, methods=methods, globals_=pureeval.module_constants(model, src.module))
                except pureeval.Raised as ex:
                    got = 'raises ' + ex.what
                n_eval += 1
                if got != k and bad_n is None:
                    bad_n = (dict(reg), v, k, got)
            decided_n = True
        except AnalysisError as ex_:
            if not hand or not built:
                skipped = str(ex_)
        n_worlds += 1
    if decided_i:
        run.inst('REG.readers-eval', iis, 'is_inner_signal(x) is True exactly for the built-in names and numbers', bad_i is None,
                 '' if bad_i is None else ('with the registry %s (%d built-in) is_inner_signal(%r) answers %r, expected %r: a user signal is treated as an inner signal (no spy hook line, no trace '
                                           'record) or a built-in one as a user signal' % (bad_i[0], bad_i[1], bad_i[2], bad_i[4], bad_i[3])), obligation=True)
    if decided_n:
        run.inst('REG.readers-eval', nfs, 'name_for_signal(number) is the name registered under that number', bad_n is None,
                 '' if bad_n is None else 'with the registry %s name_for_signal(%r) answers %r, expected %r' % (bad_n[0], bad_n[1], bad_n[3], bad_n[2]), obligation=True)
    run.note('registry readers evaluated %d times over %d registries (%s)' % (n_eval, n_worlds, 'built by the evaluated constructor/append and hand-built' if built else 'hand-built only'))
    run.floor('reader evaluations', n_eval, 40 if (decided_i and decided_n) else 0)
    # structural fall-back for a reader the evaluator cannot follow: the accepted idioms, anything else is an unknown idiom (refusal, not a finding)
    if not decided_n:
        rets = [n for n in walk_shallow(nfs.node) if isinstance(n, ast.Return) and n.value is not None]
        defs = local_defs(nfs.node)
        txt = ' '.join(norm(resolve_all(r.value, defs), 400) for r in rets)
        s0, p0 = nfs.params[0], nfs.params[1]
        ok = ('list(%s.keys())[list(%s.values()).index(%s)]' % (s0, s0, p0)) in txt
        if not ok:
            ok = any(isinstance(n, ast.For) and norm(n.iter) in ('%s.items()' % s0, 'list(%s.items())' % s0) for n in walk_shallow(nfs.node)) and \
                any(isinstance(n, ast.Compare) and p0 in norm(n) and isinstance(n.ops[0], ast.Eq) for n in walk_shallow(nfs.node))
        if not ok:
            raise AnalysisError('name_for_signal is neither evaluable (%s) nor one of the known inversion idioms' % skipped)
        run.inst('REG.inverse', nfs, 'name_for_signal inverts by position/equality (structural; evaluator refused: %s)' % skipped, True, '', obligation=True)
    if not decided_i:
        slices = [n for f in [iis] + list(iis.nested.values()) for n in walk_shallow(f.node) if isinstance(n, ast.Subscript) and isinstance(n.slice, ast.Slice)]
        ok = len(slices) >= 1 and all(
            (sl.slice.lower is None or (isinstance(sl.slice.lower, ast.Constant) and sl.slice.lower.value == 0)) and
            sl.slice.upper is not None and dotted(sl.slice.upper) == iis.params[0] + '.highest_inner_signal' and
            norm(sl.value) == 'list(%s.values())' % iis.params[0] for sl in slices)
        if not ok:
            raise AnalysisError('is_inner_signal is neither evaluable (%s) nor the known prefix-membership idiom' % skipped)
        run.inst('REG.inverse', iis, 'inner signals = values()[0:highest_inner_signal] (structural; evaluator refused: %s)' % skipped, True, '', obligation=True)
    ga = src.methods.get('__getattr__')
    if ga is not None:
        ok = any(isinstance(c.func, ast.Attribute) and c.func.attr == 'append' and dotted(c.func.value) == ga.params[0] for c in shallow_calls(ga.node))
        run.inst('REG.inverse', ga, 'attribute access registers through append', ok, '__getattr__ no longer registers unseen names via append', obligation=True)
    ev = model.cls('Event')
    ei = ev.methods.get('__init__')
    g2 = cfg_of(ei)
    run.touch(ei, g2)
    sigp = ei.params[1]
    # number branch: `signal in signals.values()` -> self.signal = signal ; name from the matching key
    tnum = [t for t in g2.nodes if t.kind == 'test' and isinstance(t.ast, ast.Compare) and isinstance(t.ast.ops[0], ast.In)
            and norm(t.ast.comparators[0]) in ('signals.values()', 'list(signals.values())')]
    from sa.util import strip_not as _sn
    tstr = [t for t in g2.nodes if t.kind == 'test' and isinstance(_sn(t.ast)[0], ast.Call) and norm(_sn(t.ast)[0].func) == 'isinstance' and 'str' in norm(t.ast)]
    run.inst('REG.inverse', ei, 'Event(number) branch tests membership in signals.values()', len(tnum) == 1, 'number branch not found', obligation=True)
    run.inst('REG.inverse', ei, 'Event(name) branch tests isinstance(signal, str)', len(tstr) == 1, 'name branch not found', obligation=True)
    if len(tnum) == 1 and len(tstr) == 1:
        sets_sig = [n for n in g2.nodes if n.kind == 'stmt' and isinstance(n.ast, ast.Assign) and any(dotted(t) == ei.params[0] + '.signal' for t in n.ast.targets)]
        sets_name = [n for n in g2.nodes if n.kind == 'stmt' and isinstance(n.ast, ast.Assign) and any(dotted(t) == ei.params[0] + '.signal_name' for t in n.ast.targets)]
        for n in sets_sig:
            if guarded_by_edge(g2, n, tnum[0], 'true'):
                ok = isinstance(n.ast.value, ast.Name) and n.ast.value.id == sigp
                run.inst('REG.inverse', ei, 'number branch: signal = given number', ok, 'the event does not keep the number it was given', node=n.ast, obligation=True)
            else:
                ok = norm(n.ast.value) == 'signals[%s]' % sigp
                run.inst('REG.inverse', ei, 'name branch: signal = signals[name]', ok,
                         'the event\'s number is not looked up in the registry under its name', node=n.ast, obligation=True)
                regs = [m for m in g2.nodes if m.kind == 'stmt' and any(isinstance(c.func, ast.Attribute) and c.func.attr == 'append' and dotted(c.func.value) == 'signals'
                                                                         and c.args and isinstance(c.args[0], ast.Name) and c.args[0].id == sigp for c in m.calls())]
                run.inst('REG.inverse', ei, 'name branch: append(name) dominates the lookup', any(g2.dominates(r, n) for r in regs),
                         'the name is looked up without being registered first', node=n.ast, obligation=True)
        for n in sets_name:
            if guarded_by_edge(g2, n, tnum[0], 'true'):
                # inside `for key, value in signals.items(): if value == signal:`
                loops = [h for h in g2.loop_heads() if h.kind == 'for' and any(x is n.ast for x in ast.walk(h.stmt))]
                ok = bool(loops) and any('signals.items()' in norm(h.stmt.iter) for h in loops)
                eqs = []
                for t in g2.nodes:
                    if t.kind != 'test':
                        continue
                    ti_, tp_ = _sn(t.ast)
                    if isinstance(ti_, ast.Compare) and len(ti_.ops) == 1 and isinstance(ti_.ops[0], (ast.Eq, ast.NotEq)) and sigp in norm(ti_):
                        lab_ = 'true' if (tp_ == isinstance(ti_.ops[0], ast.Eq)) else 'false'
                        if guarded_by_edge(g2, n, t, lab_):
                            eqs.append(t)
                via_reader = isinstance(n.ast.value, ast.Call) and norm(n.ast.value.func) == 'signals.name_for_signal' and len(n.ast.value.args) == 1 \
                    and isinstance(n.ast.value.args[0], ast.Name) and n.ast.value.args[0].id == sigp
                run.inst('REG.inverse', ei, 'number branch: name = key whose value equals the number', (ok and bool(eqs)) or via_reader,
                         'the event name is not the registry key stored with that number', node=n.ast, obligation=True)
            else:
                ok = isinstance(n.ast.value, ast.Name) and n.ast.value.id == sigp
                run.inst('REG.inverse', ei, 'name branch: signal_name = given name', ok, 'the event does not keep the name it was given', node=n.ast, obligation=True)
        run.floor('Event.__init__ signal/name assignments', len(sets_sig) + len(sets_name), 4)
    # ---- ATOMIC
    locks = set()
    for f in src.methods.values():
        for n in walk_shallow(f.node):
            if isinstance(n, ast.Assign) and isinstance(n.value, ast.Call) and norm(n.value.func).split('.')[-1] in LOCK_CTORS:
                for t in n.targets:
                    d = dotted(t)
                    if d and d.startswith('self.') and f.name == '__init__':
                        locks.add(d.split('.', 1)[1])
    for k, v in src.consts.items():
        if isinstance(v, ast.Call) and norm(v.func).split('.')[-1] in LOCK_CTORS:
            locks.add(k)
    par = parents(append.node)
    for s in snodes:
        w = with_lock_of(s.ast, par, append.node, locks)
        tin = False
        if w is not None:
            tin = any(any(x is t.ast for x in ast.walk(w)) for t in tests)
        ok = w is not None and tin
        run.inst('ATOMIC.registry', append, 'presence test and store in one critical section', ok,
                 '' if ok else ('SignalSource.append tests `name in self` and stores `len(self)+1` without a lock around both: two threads registering '
                                'different names can read the same size and give both names the same number (name_for_signal then inverts only one)'),
                 node=s.ast, obligation=True)
    # ---- publication order: readers take no lock, so the store into the mapping itself is the moment a new number becomes visible; any other state
    # of the registry that append maintains (a reverse index, a counter) and that a reader consults without the lock must be complete before it
    run.rule('REG.publication', 'append writes every derived piece of registry state before it publishes the name->number binding (or every reader of that state holds the lock)')
    MUT = {'append', 'extend', 'insert', 'update', 'setdefault', '__setitem__', 'add', 'pop', 'remove', 'clear'}
    secondary = {}
    for n in g.nodes:
        if n.kind != 'stmt':
            continue
        attrs = set()
        if isinstance(n.ast, (ast.Assign, ast.AugAssign)):
            for t in (n.ast.targets if isinstance(n.ast, ast.Assign) else [n.ast.target]):
                base = t.value if isinstance(t, ast.Subscript) else t
                d = dotted(base)
                if d and d.startswith(selfn + '.') and d.count('.') == 1:
                    attrs.add(d.split('.')[1])
        for c in n.calls():
            if isinstance(c.func, ast.Attribute) and c.func.attr in MUT:
                d = dotted(c.func.value)
                if d and d.startswith(selfn + '.') and d.count('.') == 1:
                    attrs.add(d.split('.')[1])
        for a in attrs - locks:
            secondary.setdefault(a, []).append(n)
    prim = list(snodes) + [n for n in g.nodes if n.kind == 'stmt' and any(isinstance(c.func, ast.Attribute) and c.func.attr in ('update', 'setdefault', '__setitem__')
                                                                          and dotted(c.func.value) == selfn for c in n.calls())]
    n_pub = 0
    for a, nodes_ in sorted(secondary.items()):
        late = [n for n in nodes_ if any(p_ is not n and g.exists_path(p_, n) for p_ in prim)]
        if not late:
            n_pub += 1
            run.inst('REG.publication', append, 'derived state %s is written before the binding is published' % a, True, '', node=nodes_[0].ast, obligation=True)
            continue
        readers = []
        for f in model.all_funcs():
            if f in (init, append):
                continue
            bases = {'signals'} | ({f.params[0]} if f.owner_class is src and f.params else set())
            pf = None
            for x in walk_shallow(f.node):
                if isinstance(x, ast.Attribute) and x.attr == a and isinstance(x.value, ast.Name) and x.value.id in bases:
                    pf = pf or parents(f.node)
                    if with_lock_of(x, pf, f.node, locks) is None:
                        readers.append((f, x))
        n_pub += 1
        if not readers:
            run.inst('REG.publication', append, 'derived state %s is written after the binding, but every reader of it holds the registry lock' % a, True, '', node=late[0].ast, obligation=True)
        for f, x in readers:
            run.inst('REG.publication', f, 'reads %s without the registry lock' % a, False,
                     ('append publishes the name->number binding (%s) and only afterwards writes %s (%s); %s reads %s without the registry lock, so a thread that '
                      'has just obtained the new number (signals.NAME / signals[name]) finds %s incomplete: the lookup raises or answers for the wrong signal'
                      % (prim[0].text() if prim else '?', a, late[0].text(), f.qualname, a, a)), node=x, obligation=True)
    run.note('derived registry state maintained by append: %s' % (sorted(secondary) or 'none'))
    # Python-level iteration over the live registry
    n_scans = 0
    for f in model.all_funcs():
        pf = None
        if f is init:
            continue        # the registry under construction is not yet visible to another thread
        for n in walk_shallow(f.node):
            iters = []
            if isinstance(n, (ast.For, ast.comprehension)):
                iters.append(n.iter)
            for it in iters:
                t = norm(it)
                live = any(t == '%s.%s()' % (r, m) for r in ('signals', 'self') for m in ('items', 'keys', 'values')) or t in ('signals', )
                if t.startswith('self.') and f.owner_class is not src:
                    live = False
                if not live:
                    continue
                n_scans += 1
                if pf is None:
                    pf = parents(f.node)
                w = with_lock_of(n, pf, f.node, locks) if isinstance(n, ast.For) else None
                ok = w is not None
                run.inst('ATOMIC.registry', f, 'scan ' + t, ok,
                         '' if ok else ('a Python-level loop iterates the live registry (%s) without the registry lock or a snapshot: a concurrent '
                                        'registration makes it raise "OrderedDict mutated during iteration"' % t), node=n if isinstance(n, ast.For) else None,
                         obligation=True)
    run.note('python-level scans of the live registry found: %d' % n_scans)
    run.assume('C-level snapshots list(d.keys()), list(d.values()), `x in d.values()` are atomic under the GIL; the registry is append-only so positions are stable')
    run.assume('OrderedDict preserves insertion order')


def resolve_all(expr, defs, depth=4):
    """substitute single-definition locals inside an expression (copy)"""
    import copy
    e = copy.deepcopy(expr)

    class R(ast.NodeTransformer):
        def visit_Name(self, n):
            v = defs.get(n.id, [])
            if len(v) == 1 and not isinstance(v[0], tuple) and isinstance(n.ctx, ast.Load):
                return copy.deepcopy(v[0])
            return n
    for _ in range(depth):
        e = R().visit(e)
    return e
