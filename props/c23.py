"""C23 state_name and state_fn always describe the current state.

BOOK.after-last-call : at every normal exit of HsmEventProcessor.dispatch and start_at the assignments of state_name / state_fn
                       post-dominate every state-handler call of that method (handlers rewrite both fields when spy-wrapped), and
                       they name the very value that was stored in state.fun (the current state).
BOOK.wrappers        : after the wrapped step returns, instrumentation wrappers call handlers only through state.fun / temp.fun
                       (whose spy wrapper rewrites the same name), never through another handler value.
BOOK.spy             : spy_on writes state_name = <wrapped function>.__name__ and state_fn = <wrapped function> before calling it.
BOOK.current-state   : current_state() asks state.fun (REFLECTION) under `instrumented`.
"""
import ast

from sa.model import AnalysisError, walk_shallow, dotted, norm
from sa.util import expand_locals, cfg_of, shallow_calls, local_defs, signal_const
from sa.context import callgraph
from sa import wrap
from sa.hsmsites import handler_call_nodes, handler_calls


def _reads_state(g, f, n, name, selfn, stores, nm):
    """the only definition of local `name` reaching n is `name = self.state.fun`, made after the last store to state.fun"""
    from sa.hsmsites import reaching_defs
    rd, valmap = reaching_defs(g, f.params)
    ds = rd[n].get(name, set())
    if len(ds) != 1:
        return False
    d = next(iter(ds))
    if d[0] == 'param' or dotted(valmap.get(d)) != selfn + '.state.fun':
        return False
    dn = [x for x in g.nodes if x.id == d[0]]
    if not dn:
        return False
    dn = dn[0]
    if not (any(g.dominates(s_, dn) for s_ in stores) or nm == 'start_at'):
        return False
    return not any(g.exists_path(dn, s_) and g.exists_path(s_, n) for s_ in stores)


def check(run, model, tier):
    run.explanation = ('Post-dominance and value-identity analysis of the bookkeeping assignments in dispatch and start_at relative to every handler '
                       'call (handler-call sites are located by the shared site classifier), and a census of handler calls made by instrumentation '
                       'wrappers after the step. If the last writer of state_name/state_fn on every path names the value stored in state.fun, the '
                       'fields describe the current state after every step of every chart.')
    for r, t in (('BOOK.after-last-call', 'state_name/state_fn assigned after the last handler call, from the value stored in state.fun'),
                 ('BOOK.wrappers', 'post-step handler calls in wrappers go through state.fun/temp.fun only'),
                 ('BOOK.spy', 'spy_on sets state_name/state_fn from the wrapped function before calling it'),
                 ('BOOK.current-state', 'current_state reflects state.fun under instrumented')):
        run.rule(r, t)
    hep = model.cls('HsmEventProcessor')
    cg = callgraph(model)
    for nm in ('dispatch', 'start_at'):
        f = hep.methods.get(nm)
        if f is None:
            raise AnalysisError('HsmEventProcessor.%s not found' % nm)
        g = cfg_of(f)
        run.touch(f, g)
        selfn = f.params[0]
        names = [n for n in g.nodes if n.kind == 'stmt' and isinstance(n.ast, ast.Assign) and any(dotted(t) == selfn + '.state_name' for t in n.ast.targets)]
        fns = [n for n in g.nodes if n.kind == 'stmt' and isinstance(n.ast, ast.Assign) and any(dotted(t) == selfn + '.state_fn' for t in n.ast.targets)]
        stores = [n for n in g.nodes if n.kind == 'stmt' and isinstance(n.ast, ast.Assign) and any(dotted(t) == selfn + '.state.fun' for t in n.ast.targets)]
        run.floor('%s: state_name assignments' % nm, len(names), 1)
        run.floor('%s: state_fn assignments' % nm, len(fns), 1)
        hcalls = handler_call_nodes(g, f)
        if nm == 'start_at':
            # handlers run inside init()
            hcalls = hcalls + [n for n in g.nodes if n.kind not in ('entry', 'exit', 'xexit', 'def') and
                               any(isinstance(c.func, ast.Attribute) and c.func.attr == 'init' and dotted(c.func.value) == selfn for c in n.calls())]
        run.floor('%s: handler-call (or init) sites' % nm, len(hcalls), 1)
        for kind, lst in (('state_name', names), ('state_fn', fns)):
            last = [n for n in lst if g.postdominates(n, g.entry)]
            ok = bool(last)
            run.inst('BOOK.after-last-call', f, '%s assigned on every normal path' % kind, ok, '%s is not assigned on some path through %s' % (kind, nm), obligation=True)
            for n in last:
                late = [h for h in hcalls if g.exists_path(n, h)]
                ok = not late
                run.inst('BOOK.after-last-call', f, '%s is assigned after the last handler call' % kind, ok,
                         '' if ok else ('a state handler can still run after %s was assigned (%s): a spy-wrapped handler rewrites the field with its own '
                                        'name, so the field describes the last state *called*, not the current state' % (kind, late[0].text())), node=n.ast, obligation=True)
                # the value names what was stored in state.fun
                v = expand_locals(n.ast.value, f.node, params=f.params)
                base = v.value if (kind == 'state_name' and isinstance(v, ast.Attribute) and v.attr == '__name__') else v
                if kind == 'state_name' and not (isinstance(v, ast.Attribute) and v.attr == '__name__'):
                    run.inst('BOOK.after-last-call', f, 'state_name is <current state>.__name__', False, 'state_name is assigned %s' % norm(v), node=n.ast, obligation=True)
                    continue
                bd = dotted(base)
                ok = False
                if bd == selfn + '.state.fun':
                    # read back from state.fun: a store to state.fun must dominate
                    ok = any(g.dominates(s, n) for s in stores) or nm == 'start_at'
                elif isinstance(base, ast.Name) and _reads_state(g, f, n, base.id, selfn, stores, nm):
                    # a local that was read back from state.fun after the last store (an extracted "describe" step)
                    ok = True
                elif isinstance(base, ast.Name):
                    # the same local was the last value stored in state.fun
                    dom_stores = [s for s in stores if g.dominates(s, n)]
                    ok = bool(dom_stores) and all(isinstance(s.ast.value, ast.Name) and s.ast.value.id == base.id for s in dom_stores)
                    if ok:
                        # ... and the local is not reassigned between the store and the bookkeeping
                        for s in dom_stores:
                            for m in g.nodes:
                                if m.kind == 'stmt' and isinstance(m.ast, ast.Assign) and any(isinstance(t, ast.Name) and t.id == base.id for t in ast.walk(m.ast) if isinstance(t, ast.Name) and isinstance(t.ctx, ast.Store)):
                                    if g.exists_path(s, m) and g.exists_path(m, n):
                                        ok = False
                run.inst('BOOK.after-last-call', f, '%s names the value stored in state.fun' % kind, ok,
                         '' if ok else '%s is assigned from %s, which is not (provably) the state stored in state.fun' % (kind, norm(v)), node=n.ast, obligation=True)
    # ---- wrappers: handler calls after the wrapped step
    n_w = 0
    for fac, inner in cg.factories.items():
        g = cfg_of(inner)
        fcs = [n for n in g.nodes if wrap.fn_calls_in(n, fac.params[0])]
        recv = inner.params[0] if inner.params else None
        for n, c in handler_calls(g, inner):
            if isinstance(c.func, ast.Name) and c.func.id == fac.params[0]:
                continue
            d = dotted(c.func)
            n_w += 1
            ok = d in (recv + '.state.fun', recv + '.temp.fun')
            run.inst('BOOK.wrappers', inner, 'handler call ' + norm(c.func), ok,
                     '' if ok else 'an instrumentation wrapper calls a handler through %s: its spy wrapper overwrites state_name/state_fn with a state that need not be current' % norm(c.func),
                     node=c, obligation=True)
    run.floor('handler calls made by instrumentation wrappers', n_w, 3)
    # ---- spy_on
    so = model.func('hsm.spy_on')
    inner = cg.factories.get(so)
    g = cfg_of(inner)
    chart = inner.params[0]
    fnp = so.params[0]
    defs = local_defs(inner.node)
    def assigned_value(n, path):
        """the value a CFG node assigns to `path` (also as one element of a tuple assignment), or None"""
        if n.kind != 'stmt' or not isinstance(n.ast, ast.Assign):
            return None
        for t in n.ast.targets:
            if dotted(t) == path:
                return n.ast.value
            if isinstance(t, ast.Tuple) and isinstance(n.ast.value, ast.Tuple) and len(t.elts) == len(n.ast.value.elts):
                for a_, b_ in zip(t.elts, n.ast.value.elts):
                    if dotted(a_) == path:
                        return b_
        return None
    sn = [n for n in g.nodes if assigned_value(n, chart + '.state_name') is not None]
    sf = [n for n in g.nodes if assigned_value(n, chart + '.state_fn') is not None]
    fcs = [n for n in g.nodes if wrap.fn_calls_in(n, fnp)]
    ok = len(sn) == 1 and all(g.dominates(sn[0], fc) for fc in fcs)
    if ok:
        v = assigned_value(sn[0], chart + '.state_name')
        ok = norm(v) == fnp + '.__name__' or (isinstance(v, ast.Name) and all(norm(d) == fnp + '.__name__' for d in defs.get(v.id, []) if not isinstance(d, tuple)))
    run.inst('BOOK.spy', inner, 'state_name = wrapped.__name__ before the call', ok, 'spy_on does not set state_name from the wrapped function before calling it', obligation=True)
    vf_ = assigned_value(sf[0], chart + '.state_fn') if len(sf) == 1 else None
    ok = len(sf) == 1 and all(g.dominates(sf[0], fc) for fc in fcs) and isinstance(vf_, ast.Name) and vf_.id == fnp
    run.inst('BOOK.spy', inner, 'state_fn = wrapped function before the call', ok, 'spy_on does not set state_fn to the wrapped function before calling it', obligation=True)
    # ---- current_state
    hq = model.cls('HsmWithQueues')
    cs = hq.methods.get('current_state')
    if cs is None:
        raise AnalysisError('HsmWithQueues.current_state not found')
    rets = [n for n in walk_shallow(cs.node) if isinstance(n, ast.Return) and n.value is not None and not (isinstance(n.value, ast.Constant) and n.value.value is None)]
    cdefs = local_defs(cs.node)
    ok = bool(rets)
    for r in rets:
        v = r.value
        if isinstance(v, ast.Name):
            ds = [d for d in cdefs.get(v.id, []) if not isinstance(d, tuple)]
            v = ds[0] if len(ds) == 1 else None
        callee = expand_locals(v.func, cs.node, params=cs.params) if isinstance(v, ast.Call) else None
        ok = ok and isinstance(v, ast.Call) and dotted(callee) == cs.params[0] + '.state.fun' and any(signal_const(x) == 'REFLECTION_SIGNAL' for x in ast.walk(v))
    run.inst('BOOK.current-state', cs, 'current_state reflects state.fun', ok, 'current_state does not return the reflection of state.fun', obligation=True)
    # current_state() is a name only if the handler it asks understands REFLECTION: the chart may stay instrumented only on evidence of the spy_on wrapper
    from props.c18 import detect_spy_decoration
    detect_spy_decoration(run, model)
    run.assume('a spy-wrapped handler rewrites state_name/state_fn on every invocation (BOOK.spy), so the last call decides unless the bookkeeping follows it')
