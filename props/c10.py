"""C10 Timed posts fire the requested number of times at the requested period.

COUNT.timer-loop  : in the timer thread, per iteration that passes the run-flag re-test: exactly one post (fifo xor lifo, by
                    the spec's tag), exactly one `counter += 1`; the counter starts at the literal 0; the self-clear of the run
                    flag is guarded by `total != 0` and `counter >= total` (or `==`), evaluated after the increment; the loop
                    guard re-reads the run flag.  By induction the source posts exactly `total` times (never ends for 0).
ORDER.timer-iter  : sleep precedes the re-test, the re-test precedes the post; the first iteration skips the sleep exactly
                    when not deferred (the non-deferred branch only flips the local flag).
WIRING.timer      : period/times/deferred/tag flow from post_fifo/post_lifo to the spec fields the thread reads: period is
                    the only sleep argument, times is the total, the tag selects post_fifo vs post_lifo, defaults are
                    times=None -> 0 (forever) and deferred=None -> True; post_fifo passes 'fifo', post_lifo 'lifo'.
Not decided: the instants (wall-clock time, sleep overshoot and drift).
"""
import ast

from sa.model import AnalysisError, walk_shallow, dotted, norm
from sa.boolflow import simulate, must_atoms
from sa.util import expand_locals, namedtuple_fields, ctor_fields
from sa.util import cfg_of, guarded_by_edge, shallow_calls, local_defs, resolve_name, const_str, strip_not, compare_parts
from sa import queues
from sa.context import callgraph
from props.c11 import timer_runner


def public_wiring_eval(run, model, ao, pe):
    from sa import pureeval
    from sa.util import module_level_names
    run.rule('WIRING.public-eval', 'post_fifo/post_lifo evaluated over period in {None, 0, 0.0, 0.5}, times in {None, 0, 1, 3}, deferred in {None, True, False}: a plain post exactly when '
                                   'period is None, otherwise one timed source with (times or 0, period, deferred or True, own queue kind) whose id is returned')
    methods = {k: f.node for k, f in ao.methods.items()}
    pparams = pe.params[1:]
    modnames = module_level_names(ao.module)
    decided = True
    for nm, tagv in (('post_fifo', 'fifo'), ('post_lifo', 'lifo')):
        f = ao.methods.get(nm)
        bad, n_ev = None, 0
        try:
            for period in (None, 0, 0.0, 0.5):
                for times in (None, 0, 1, 3):
                    for deferred in (None, True, False):
                        log = []

                        def timed(*a, **k):
                            b = dict(zip(pparams, a))
                            b.update(k)
                            log.append(('timed', b))
                            return 'SOURCE-ID'
                        sup = pureeval.Obj(post_fifo=lambda e_: log.append(('plain', 'fifo', e_)), post_lifo=lambda e_: log.append(('plain', 'lifo', e_)))
                        me = pureeval.Obj(__world__=True)
                        me.__dict__[pe.name] = timed
                        ev_ = pureeval.Obj(signal_name='E', signal=41, payload=None)
                        try:
                            got = pureeval.call(f.node, [me, ev_, period, times, deferred], globals_=dict(pureeval.module_constants(model, ao.module), super=(lambda: sup)),
                                                methods={k: v for k, v in methods.items() if k != pe.name}, strict_locals=True, module_names=modnames, mutable=True)
                        except pureeval.Raised as ex_:
                            got = 'raises ' + ex_.what
                        n_ev += 1
                        if period is None:
                            want_log, want_ret = [('plain', tagv, ev_)], None
                        else:
                            want_log = [('timed', {pparams[0]: ev_, 'times': 0 if times is None else times, 'period': period,
                                                   'deferred': True if deferred is None else deferred, 'queue_type': tagv})]
                            want_ret = 'SOURCE-ID'
                        okl = log == want_log and (got is want_ret or got == want_ret) and not (isinstance(got, str) and got.startswith('raises'))
                        if okl and period is not None:
                            # types matter: 0 must stay an int zero, True a bool
                            b = log[0][1]
                            okl = type(b['deferred']) is bool and b['period'] is period
                        if not okl and bad is None:
                            bad = ((period, times, deferred), log, got, want_log, want_ret)
            def show(l):
                return [(x[0], {k: (v if not isinstance(v, pureeval.Obj) else 'e') for k, v in x[1].items()}) if x[0] == 'timed' else (x[0], x[1]) for x in l]
            run.inst('WIRING.public-eval', f, '%s over %d argument combinations' % (nm, n_ev), bad is None,
                     '' if bad is None else ('%s(e, period=%r, times=%r, deferred=%r) does %s and returns %r; expected %s and %r' %
                                             (nm, bad[0][0], bad[0][1], bad[0][2], show(bad[1]), bad[2], show(bad[3]), bad[4])), obligation=True)
        except AnalysisError as ex_:
            run.note('%s is outside the evaluator\'s fragment (%s): its wiring is decided structurally' % (nm, ex_))
            decided = False
    return decided



def public_wiring_structural(run, model, ao, pe):
    for nm, tagv in (('post_fifo', 'fifo'), ('post_lifo', 'lifo')):
        f = ao.methods.get(nm)
        fd = local_defs(f.node)
        calls = [c for c in shallow_calls(f.node) if isinstance(c.func, ast.Attribute) and 'post_event' in c.func.attr]
        if len(calls) != 1:
            raise AnalysisError('%s: timed branch call not found' % nm)
        c = calls[0]
        amap = {}
        pparams = pe.params[1:]
        for i, a in enumerate(c.args):
            amap[pparams[i]] = a
        for kw in c.keywords:
            amap[kw.arg] = kw.value
        ok = all(isinstance(amap.get(k), ast.Name) and amap[k].id == k for k in ('times', 'period', 'deferred')) and \
            isinstance(amap.get(pe.params[1]), ast.Name) and amap[pe.params[1]].id == f.params[1]
        run.inst('WIRING.timer', f, '%s forwards (e, times, period, deferred)' % nm, ok, '' if ok else 'forwards %s' % {k: norm(v) for k, v in amap.items()}, node=c, obligation=True)
        ok = const_str(amap.get('queue_type')) == tagv
        run.inst('WIRING.timer', f, '%s passes tag %r' % (nm, tagv), ok, '' if ok else '%s passes tag %s' % (nm, norm(amap.get('queue_type')) if amap.get('queue_type') is not None else None), node=c, obligation=True)
        # defaults
        dflt = {}
        for st in f.node.body:
            if isinstance(st, ast.If):
                cp = compare_parts(st.test)
                if cp and isinstance(cp[0], ast.Name) and cp[1] is ast.Is and isinstance(cp[2], ast.Constant) and cp[2].value is None and len(st.body) == 1 \
                        and isinstance(st.body[0], ast.Assign) and isinstance(st.body[0].targets[0], ast.Name) and st.body[0].targets[0].id == cp[0].id:
                    dflt[cp[0].id] = st.body[0].value
        ok = isinstance(dflt.get('times'), ast.Constant) and dflt['times'].value == 0 and isinstance(dflt.get('deferred'), ast.Constant) and dflt['deferred'].value is True
        run.inst('WIRING.timer', f, '%s defaults: times None -> 0, deferred None -> True' % nm, ok,
                 '' if ok else 'defaults are %s' % {k: norm(v) for k, v in dflt.items()}, obligation=True)
        # returned id is what __post_event returned
        # path rule: every return reachable from the __post_event call hands back that call's result (other paths made no timed source)
        gf = cfg_of(f)
        ncall = [n for n in gf.nodes if n.kind not in ('entry', 'exit', 'xexit', 'def') and any(x is c for x in n.calls())]
        rnodes = [n for n in gf.nodes if n.kind == 'stmt' and isinstance(n.ast, ast.Return)]
        ok = bool(ncall)
        n_after = 0
        for r in rnodes:
            if not ncall or not (r is ncall[0] or gf.exists_path(ncall[0], r)):
                continue
            n_after += 1
            v = r.ast.value
            if v is c:
                continue
            if isinstance(v, ast.Name) and isinstance(ncall[0].ast, ast.Assign) and ncall[0].ast.value is c and \
                    any(isinstance(t, ast.Name) and t.id == v.id for t in ncall[0].ast.targets):
                redefs = [o for o in gf.nodes if o is not ncall[0] and o.kind in ('stmt', 'for') and
                          any(isinstance(t, ast.Name) and isinstance(t.ctx, ast.Store) and t.id == v.id for t in ast.walk(o.ast if o.kind == 'stmt' else o.stmt.target))]
                if not any(gf.exists_path(ncall[0], o) and gf.exists_path(o, r) for o in redefs):
                    continue
            ok = False
        falls = [p_ for p_, lab in gf.pred[gf.exit] if lab != 'return' and ncall and (p_ is ncall[0] or gf.exists_path(ncall[0], p_))]
        ok = ok and n_after >= 1 and not falls
        run.inst('WIRING.timer', f, '%s returns the source id' % nm, ok, 'the id of the timed source is not returned', obligation=True)


def check(run, model, tier):
    run.explanation = ('Counting argument for the timer thread established from its CFG: path counts per loop iteration (one post, one increment), '
                       'the comparison operator and operands of the self-termination test, the literal initial value of the counter, and def-use '
                       'wiring of period/times/deferred/tag from the public post methods to the fields the thread reads. Valid for every n, period '
                       'and flag combination; the firing instants are wall-clock quantities and are not decided.')
    run.rule('COUNT.timer-loop', 'one post and one increment per passing iteration; counter from 0; clear iff total != 0 and counter >= total; guard re-reads flag')
    run.rule('ORDER.timer-iter', 'sleep < re-test < post; no sleep on the first iteration iff not deferred')
    run.rule('WIRING.timer', 'period -> sleep, times -> total, deferred, tag -> post method; defaults times 0 / deferred True')
    from props.c11 import cancel_callers
    cancel_callers(run, model)
    t, pe, spawn = timer_runner(model)
    g = cfg_of(t)
    run.touch(t, g)
    run.touch(pe)
    ao = model.cls('ActiveObject')
    if len(t.params) < 3:
        raise AnalysisError('timer thread function %s does not take (spec, deferred flag, activation counter): the counting rules do not apply to this shape' % t.qualname)
    specp, defp, cntp = t.params[0], t.params[1], t.params[2]
    heads = [h for h in g.loop_heads() if h.kind == 'test']
    if len(heads) != 1:
        raise AnalysisError('timer thread: expected one while loop')
    h = heads[0]
    inner, pol = strip_not(h.ast)
    ok = isinstance(inner, ast.Call) and isinstance(inner.func, ast.Attribute) and inner.func.attr == 'is_set' and 'task_run_event' in norm(inner.func.value) and pol
    run.inst('COUNT.timer-loop', t, 'loop guard re-reads the run flag', ok, '' if ok else 'loop guard is %s' % norm(h.ast), node=h.ast, obligation=True)
    start = [m for m, l in g.succ[h] if l == 'true'][0]
    posts = [n for n in g.nodes if n.kind not in ('entry', 'exit', 'xexit', 'def') and
             any(isinstance(c.func, ast.Attribute) and c.func.attr in ('post_fifo', 'post_lifo') for c in n.calls())]
    incs = [n for n in g.nodes if n.kind == 'stmt' and isinstance(n.ast, ast.AugAssign) and isinstance(n.ast.target, ast.Name) and n.ast.target.id == cntp]
    sleeps = [n for n in g.nodes if n.kind not in ('entry', 'exit', 'xexit', 'def') and any(norm(c.func) in ('time.sleep', 'sleep') for c in n.calls())]
    run.floor('timer post sites', len(posts), 2)
    run.floor('timer counter increments', len(incs), 1)
    run.floor('timer sleep sites', len(sleeps), 1)
    # iterations that come back to the head (no break)
    pc = queues.count(g, posts, start=start, end=h)
    ic = queues.count(g, incs, start=start, end=h)
    run.inst('COUNT.timer-loop', t, 'exactly one post per completed iteration', pc == (1, 1),
             '' if pc == (1, 1) else 'a completed iteration of the timer loop posts %s times' % (pc,), obligation=True)
    run.inst('COUNT.timer-loop', t, 'exactly one counter increment per completed iteration', ic == (1, 1),
             '' if ic == (1, 1) else 'a completed iteration increments the activation counter %s times' % (ic,), obligation=True)
    for n in incs:
        ok = isinstance(n.ast.op, ast.Add) and isinstance(n.ast.value, ast.Constant) and n.ast.value.value == 1
        run.inst('COUNT.timer-loop', t, 'counter step is +1', ok, 'counter changes by %s' % norm(n.ast), node=n.ast, obligation=True)
    # paths that leave through a break post nothing after the re-test failed
    brks = [n for n in g.nodes if n.kind == 'stmt' and isinstance(n.ast, ast.Break)]
    for b in brks:
        bc = g.count_on_paths(lambda n: 1 if n in posts else 0, start=start, end=b, edge_ok=lambda a_, b_, l_: b_ is not h)
        run.inst('COUNT.timer-loop', t, 'no post on the cancelled-while-sleeping exit', bc == (0, 0), 'a post precedes the break: %s' % (bc,), node=b.ast, obligation=True)
    # counter initial value: third element of the Thread args
    sargs = next((kw.value for kw in spawn.keywords if kw.arg == 'args'), None)
    if not isinstance(sargs, ast.Tuple) or len(sargs.elts) != len(t.params):
        raise AnalysisError('timer spawn arguments not recognised')
    init = sargs.elts[t.params.index(cntp)]
    ok = isinstance(init, ast.Constant) and init.value == 0 and type(init.value) is int
    run.inst('COUNT.timer-loop', pe, 'activation counter starts at 0', ok, '' if ok else 'the counter starts at %s' % norm(init), node=spawn, obligation=True)
    # the self-clear
    clears = [n for n in g.nodes if n.kind not in ('entry', 'exit', 'xexit', 'def') and
              any(isinstance(c.func, ast.Attribute) and c.func.attr == 'clear' and 'task_run_event' in norm(c.func.value) for c in n.calls())]
    run.floor('timer self-clear sites', len(clears), 1)
    for cl in clears:
        # the elementary conditions that hold whenever the self-clear executes (and/or/not flattened, single-definition locals expanded)
        atoms = must_atoms(g, cl, t.node, params=t.params)
        tot = specp + '.total_times'
        rel = [op for (l, op, r) in atoms if l == cntp and r == tot]
        ok = any(op in ('GtE', 'Eq') for op in rel) and not any(op in ('Gt', 'Lt', 'LtE', 'NotEq') for op in rel)
        run.inst('COUNT.timer-loop', t, 'self-clear when counter >= total', ok,
                 '' if ok else ('the timer clears its own run flag under `counter %s total`: with counting from 0 in steps of 1 that is not the n-th activation, '
                                'the source fires a different number of times than requested' % ('/'.join(sorted(rel)) if rel else '<no test>')),
                 node=cl.ast, obligation=True)
        nz = any(l == tot and ((op == 'NotEq' and r == '0') or (op == 'Gt' and r == '0') or (op == 'GtE' and r == '1')) for (l, op, r) in atoms) \
            or any(l == tot and op == 'Truthy' for (l, op, r) in atoms)
        run.inst('COUNT.timer-loop', t, 'never self-clears when total == 0 (forever)', nz,
                 '' if nz else 'the self-clear is not guarded by total != 0: times=0 no longer means "forever"', node=cl.ast, obligation=True)
        ok = all(g.dominates(i, cl) for i in incs) and all(any(g.dominates(p, cl) for p in posts) or True for _ in [0])
        run.inst('COUNT.timer-loop', t, 'the increment precedes the termination test', ok, 'termination is tested before the activation is counted', node=cl.ast, obligation=True)
    # ---- what the thread's decisions depend on: its own spec and its own locals, nothing else
    n_tests = 0
    steering = set(posts) | set(incs) | set(sleeps) | set(clears) | set(brks) | {n for n in g.nodes if n.kind == 'stmt' and isinstance(n.ast, (ast.Return, ast.Raise))}
    for x in g.nodes:
        if x.kind != 'test':
            continue
        if x is not h and not any(guarded_by_edge(g, r_, x, lab_) for r_ in steering for lab_ in ('true', 'false')):
            continue        # a test that steers nothing the property is about (a diagnostic branch)
        n_tests += 1
        e = expand_locals(x.ast, t.node, params=t.params, observers=True)
        foreign = []
        for nm in ast.walk(e):
            if isinstance(nm, ast.Name) and isinstance(nm.ctx, ast.Load) and nm.id not in t.params and nm.id not in local_defs(t.node) \
                    and nm.id not in ('True', 'False', 'None') and not nm.id.isupper() and nm.id not in ('len', 'int', 'bool', 'isinstance', 'float'):
                foreign.append(nm.id)
        ok = not foreign
        run.inst('COUNT.timer-loop', t, 'decision %s depends only on the source\'s own spec and counters' % norm(x.ast), ok,
                 '' if ok else ('the timer thread decides %s from %s, which is not part of this timed source (its spec, its activation counter, its deferred flag): the source then '
                                'ends, skips or repeats activations for reasons other than its own count, cancel_event/cancel_events or stop() - for example it dies when the '
                                'active object has not been started yet, although "absent cancellation or stop" it must post exactly the requested number of times'
                                % (norm(x.ast), ', '.join(sorted(set(foreign))))), node=x.ast, obligation=True)
    run.floor('decisions in the timer thread', n_tests, 4)
    # ---- ORDER per iteration
    retests = [x for x in g.nodes if x.kind == 'test' and x is not h and 'is_set' in norm(x.ast)]
    run.floor('timer run-flag re-tests', len(retests), 1)
    for p in posts:
        ok = any(g.dominates(x, p) for x in retests)
        run.inst('ORDER.timer-iter', t, 're-test dominates the post', ok, 'a post is reachable without the run flag having been re-tested after the sleep', node=p.ast, obligation=True)
    for s in sleeps:
        ok = all(g.exists_path(s, x) for x in retests) and not any(g.exists_path(p, s, avoiding=[h]) for p in posts)
        run.inst('ORDER.timer-iter', t, 'sleep before re-test and post within an iteration', ok,
                 '' if ok else 'within one iteration the sleep follows the post: the first event fires immediately even when deferred', node=s.ast, obligation=True)
        # sleep argument is the period
        for c in s.calls():
            if norm(c.func) in ('time.sleep', 'sleep'):
                ok = len(c.args) == 1 and dotted(c.args[0]) == specp + '.period'
                run.inst('WIRING.timer', t, 'sleeps for spec.period', ok, 'sleep argument is %s' % norm(c), node=c, obligation=True)
    # first pass / later passes: constant propagation of the boolean locals for deferred = True and deferred = False
    for dval in (True, False):
        first = simulate(g, g.entry, {h}, {defp: dval})
        if not first:
            raise AnalysisError('timer thread: the loop head is not reachable')
        for it_no in (1, 2):
            nxt = []
            verdicts = set()
            for _n, env, _v in (first if it_no == 1 else second):
                res = simulate(g, start, set(posts) | {h, g.exit}, env, track=sleeps)
                for stop, env2, vis in res:
                    if stop in posts:
                        verdicts.add(bool(vis))
                        # continue this iteration to the head for the next pass
                        for stop2, env3, _v2 in simulate(g, stop, {h, g.exit}, env2):
                            if stop2 is h:
                                nxt.append((stop2, env3, None))
            want = dval if it_no == 1 else True
            ok = verdicts == {want}
            what = ('pass %d of a %s source %s' % (it_no, 'deferred' if dval else 'non-deferred', 'sleeps one period before posting' if want else 'posts without sleeping'))
            run.inst('ORDER.timer-iter', t, what, ok,
                     '' if ok else ('on %s the timer thread %s (decided by propagating the boolean locals along every path to the post): %s'
                                    % ('the first pass' if it_no == 1 else 'later passes', 'may post without having slept' if want else 'sleeps before its first post',
                                       'a deferred source fires immediately' if (want and it_no == 1) else ('the source posts in a tight loop' if want else 'a non-deferred source is delayed by one period'))),
                     node=sleeps[0].ast if sleeps else None, obligation=True)
            second = nxt
    for s_ in sleeps:
        sc = queues.count(g, [s_], start=start, end=h)
        run.inst('ORDER.timer-iter', t, 'at most one sleep per iteration', sc is not None and sc[1] <= 1, 'sleeps per iteration %s' % (sc,), obligation=True)
    # tag -> post method, event argument
    xp = lambda e_: expand_locals(e_, t.node, params=t.params)
    tagt = []
    for x in g.nodes:
        if x.kind == 'test':
            xa = xp(x.ast)
            if isinstance(xa, ast.Compare) and dotted(xa.left) == specp + '.queue_type' and isinstance(xa.ops[0], (ast.Eq, ast.NotEq)) \
                    and const_str(xa.comparators[0]) in ('fifo', 'lifo'):
                tagt.append((x, xa))
    if len(tagt) != 1:
        raise AnalysisError('timer: tag test not found')
    tag = const_str(tagt[0][1].comparators[0])
    eq_label = 'true' if isinstance(tagt[0][1].ops[0], ast.Eq) else 'false'
    for p in posts:
        for c in p.calls():
            if isinstance(c.func, ast.Attribute) and c.func.attr in ('post_fifo', 'post_lifo'):
                on_true = guarded_by_edge(g, p, tagt[0][0], eq_label)
                want = ('post_' + tag) if on_true else ('post_' + ('lifo' if tag == 'fifo' else 'fifo'))
                ok = c.func.attr == want and len(c.args) == 1 and dotted(xp(c.args[0])) == specp + '.event' and not c.keywords
                run.inst('WIRING.timer', t, 'tag %s -> %s(spec.event)' % (tag if on_true else 'other', want), ok,
                         '' if ok else 'under tag %s the timer calls %s' % (tag if on_true else 'other', norm(c)), node=c, obligation=True)
    # ---- wiring in __post_event: the spec fields
    pdefs = local_defs(pe.node)
    spec_ctor = None
    for c in shallow_calls(pe.node):
        if isinstance(c.func, ast.Attribute) and c.func.attr == 'PostedEventThreadSpec':
            spec_ctor = c
    if spec_ctor is None:
        raise AnalysisError('__post_event: spec construction not found')
    given = {kw.arg: kw.value for kw in spec_ctor.keywords}
    want = {'event': pe.params[1], 'queue_type': 'queue_type', 'deferred': 'deferred', 'period': 'period', 'total_times': 'times'}
    for fld, src in want.items():
        v = given.get(fld)
        ok = isinstance(v, ast.Name) and v.id == src
        run.inst('WIRING.timer', pe, 'spec.%s <- %s' % (fld, src), ok, '' if ok else 'spec.%s is fed from %s' % (fld, norm(v) if v is not None else None), node=spec_ctor, obligation=True)
    # the requested count and period reach the spec as requested: no arithmetic on the parameter on the way (a count shifted by one meets the sentinel 0 = "forever":
    # times=1 decremented posts without end); default normalisations (`x or 0`, `0 if x is None else x`) are not arithmetic and are left to the evaluation below
    for src in ('times', 'period'):
        if src not in pe.params:
            continue
        for st_ in walk_shallow(pe.node):
            arith = None
            if isinstance(st_, ast.AugAssign) and isinstance(st_.target, ast.Name) and st_.target.id == src:
                arith = st_
            elif isinstance(st_, ast.Assign) and any(isinstance(t_, ast.Name) and t_.id == src for t_ in st_.targets) and \
                    any(isinstance(x_, ast.BinOp) and any(isinstance(y_, ast.Name) and y_.id == src for y_ in ast.walk(x_)) for x_ in ast.walk(st_.value)):
                arith = st_
            if arith is not None:
                run.inst('WIRING.timer', pe, 'spec.%s is the requested %s' % ('total_times' if src == 'times' else src, src), False,
                         '__post_event computes `%s` before handing it to the timer thread: the source no longer fires the requested number of times at the requested period for every '
                         'request (a count moved onto 0 becomes the "forever" sentinel)' % norm(arith), node=arith, obligation=True)
    # thread args: (spec, spec.deferred, 0)
    a0, a1 = sargs.elts[0], sargs.elts[1]
    ok = isinstance(a0, ast.Name) and any(x is spec_ctor for x in pdefs.get(a0.id, [])) and dotted(a1) == a0.id + '.deferred'
    run.inst('WIRING.timer', pe, 'thread receives (spec, spec.deferred, 0)', ok, 'thread args are %s' % norm(sargs), node=spawn, obligation=True)
    # ---- public methods: what post_fifo/post_lifo do with (period, times, deferred) is decided by evaluating them (finite evaluator; the timed-post function and
    # the plain post of the base class are recording stubs) over None / zero / ordinary values of each argument; the structural reading is the fall-back
    if not public_wiring_eval(run, model, ao, pe):
        public_wiring_structural(run, model, ao, pe)
    # __post_event returns thread.name which is what is tracked
    rets = [n for n in walk_shallow(pe.node) if isinstance(n, ast.Return)]
    tracked = [c for c in shallow_calls(pe.node) if isinstance(c.func, ast.Attribute) and c.func.attr == 'PostedEvent']
    pfields = namedtuple_fields(model, 'PostedEvent') or []
    idarg = None
    if tracked and len(pfields) >= 3:
        idarg = ctor_fields(tracked[0], pfields).get(pfields[2])
    ok = bool(rets) and idarg is not None and all(norm(r.value) == norm(idarg) for r in rets if r.value is not None)
    if not ok and rets and idarg is not None:
        # the id may travel in a local that starts as None for a post without a timer: what matters is what that local holds on the ways that pass the tracking record
        from sa.hsmsites import reaching_defs
        gpe = cfg_of(pe)
        IN_, valmap_ = reaching_defs(gpe, pe.params)
        tn = [n for n in gpe.nodes if n.kind not in ('entry', 'exit', 'xexit', 'def') and any(x is tracked[0] for x in n.walk())]
        ok = bool(tn)
        for r in rets:
            if r.value is None or norm(r.value) == norm(idarg) or not ok:
                continue
            rn = [n for n in gpe.nodes if n.kind == 'stmt' and n.ast is r]
            if not (isinstance(r.value, ast.Name) and rn and gpe.exists_path(tn[0], rn[0])):
                ok = not (rn and gpe.exists_path(tn[0], rn[0])) and isinstance(r.value, ast.Constant) and r.value.value is None
                continue
            at_ret = IN_[rn[0]].get(r.value.id, set())
            at_track = IN_[tn[0]].get(r.value.id, set())
            later = {k for k in at_ret if k[0] != 'param' and any(m.id == k[0] and gpe.exists_path(tn[0], m) for m in gpe.nodes)}
            cands = (at_track & at_ret) | later
            vals = [valmap_.get(k) for k in cands]
            ok = bool(cands) and all(v is not None and norm(v) == norm(idarg) for v in vals)
    run.inst('WIRING.timer', pe, 'the returned id is the id recorded for cancel', ok, 'returned id and tracked id differ', obligation=True)
    run.assume('time.sleep(p) returns after at least p seconds; absent cancellation nobody else clears the source\'s run flag')
