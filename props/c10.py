"""C10 Timed posts fire the requested number of times at the requested period.

COUNT.timer-loop  : in the timer thread, per iteration that passes the run-flag re-test: exactly one post (fifo xor lifo, by
                    the spec's tag), exactly one `counter += 1`; the counter starts at the literal 0; the self-clear of the run
                    flag is guarded by `total != 0` and `counter >= total` (or `==`), evaluated after the increment; the loop
                    guard re-reads the run flag.  By induction the source posts exactly `total` times (never ends for 0).
ORDER.timer-iter  : sleep precedes the re-test, the re-test precedes the post; the first iteration skips the sleep exactly
                    when not deferred (the non-deferred branch only flips the local flag).
WIRING.timer      : period/times/deferred/tag flow from post_fifo/post_lifo to the spec fields the thread reads: period is
                    the only sleep argument, times is the total, the tag selects post_fifo vs post_lifo, defaults are
                    times=None -> 0 (forever) and deferred=None -> True; post_fifo passes 'fifo', post_lifo 'lifo'.
Not decided: the instants (wall-clock time, sleep overshoot and drift).
"""
import ast

from sa.model import AnalysisError, walk_shallow, dotted, norm
from sa.util import cfg_of, guarded_by_edge, shallow_calls, local_defs, resolve_name, const_str, strip_not, compare_parts
from sa import queues
from sa.context import callgraph
from props.c11 import timer_runner


def check(run, model, tier):
    run.explanation = ('Counting argument for the timer thread established from its CFG: path counts per loop iteration (one post, one increment), '
                       'the comparison operator and operands of the self-termination test, the literal initial value of the counter, and def-use '
                       'wiring of period/times/deferred/tag from the public post methods to the fields the thread reads. Valid for every n, period '
                       'and flag combination; the firing instants are wall-clock quantities and are not decided.')
    run.rule('COUNT.timer-loop', 'one post and one increment per passing iteration; counter from 0; clear iff total != 0 and counter >= total; guard re-reads flag')
    run.rule('ORDER.timer-iter', 'sleep < re-test < post; no sleep on the first iteration iff not deferred')
    run.rule('WIRING.timer', 'period -> sleep, times -> total, deferred, tag -> post method; defaults times 0 / deferred True')
    t, pe, spawn = timer_runner(model)
    g = cfg_of(t)
    run.touch(t, g)
    run.touch(pe)
    ao = model.cls('ActiveObject')
    specp, defp, cntp = t.params[0], t.params[1], t.params[2]
    heads = [h for h in g.loop_heads() if h.kind == 'test']
    if len(heads) != 1:
        raise AnalysisError('timer thread: expected one while loop')
    h = heads[0]
    inner, pol = strip_not(h.ast)
    ok = isinstance(inner, ast.Call) and isinstance(inner.func, ast.Attribute) and inner.func.attr == 'is_set' and 'task_run_event' in norm(inner.func.value) and pol
    run.inst('COUNT.timer-loop', t, 'loop guard re-reads the run flag', ok, '' if ok else 'loop guard is %s' % norm(h.ast), node=h.ast, obligation=True)
    start = [m for m, l in g.succ[h] if l == 'true'][0]
    posts = [n for n in g.nodes if n.kind not in ('entry', 'exit', 'xexit', 'def') and
             any(isinstance(c.func, ast.Attribute) and c.func.attr in ('post_fifo', 'post_lifo') for c in n.calls())]
    incs = [n for n in g.nodes if n.kind == 'stmt' and isinstance(n.ast, ast.AugAssign) and isinstance(n.ast.target, ast.Name) and n.ast.target.id == cntp]
    sleeps = [n for n in g.nodes if n.kind not in ('entry', 'exit', 'xexit', 'def') and any(norm(c.func) in ('time.sleep', 'sleep') for c in n.calls())]
    run.floor('timer post sites', len(posts), 2)
    run.floor('timer counter increments', len(incs), 1)
    run.floor('timer sleep sites', len(sleeps), 1)
    # iterations that come back to the head (no break)
    pc = queues.count(g, posts, start=start, end=h)
    ic = queues.count(g, incs, start=start, end=h)
    run.inst('COUNT.timer-loop', t, 'exactly one post per completed iteration', pc == (1, 1),
             '' if pc == (1, 1) else 'a completed iteration of the timer loop posts %s times' % (pc,), obligation=True)
    run.inst('COUNT.timer-loop', t, 'exactly one counter increment per completed iteration', ic == (1, 1),
             '' if ic == (1, 1) else 'a completed iteration increments the activation counter %s times' % (ic,), obligation=True)
    for n in incs:
        ok = isinstance(n.ast.op, ast.Add) and isinstance(n.ast.value, ast.Constant) and n.ast.value.value == 1
        run.inst('COUNT.timer-loop', t, 'counter step is +1', ok, 'counter changes by %s' % norm(n.ast), node=n.ast, obligation=True)
    # paths that leave through a break post nothing after the re-test failed
    brks = [n for n in g.nodes if n.kind == 'stmt' and isinstance(n.ast, ast.Break)]
    for b in brks:
        bc = g.count_on_paths(lambda n: 1 if n in posts else 0, start=start, end=b, edge_ok=lambda a_, b_, l_: b_ is not h)
        run.inst('COUNT.timer-loop', t, 'no post on the cancelled-while-sleeping exit', bc == (0, 0), 'a post precedes the break: %s' % (bc,), node=b.ast, obligation=True)
    # counter initial value: third element of the Thread args
    sargs = next((kw.value for kw in spawn.keywords if kw.arg == 'args'), None)
    if not isinstance(sargs, ast.Tuple) or len(sargs.elts) != len(t.params):
        raise AnalysisError('timer spawn arguments not recognised')
    init = sargs.elts[t.params.index(cntp)]
    ok = isinstance(init, ast.Constant) and init.value == 0 and type(init.value) is int
    run.inst('COUNT.timer-loop', pe, 'activation counter starts at 0', ok, '' if ok else 'the counter starts at %s' % norm(init), node=spawn, obligation=True)
    # the self-clear
    clears = [n for n in g.nodes if n.kind not in ('entry', 'exit', 'xexit', 'def') and
              any(isinstance(c.func, ast.Attribute) and c.func.attr == 'clear' and 'task_run_event' in norm(c.func.value) for c in n.calls())]
    run.floor('timer self-clear sites', len(clears), 1)
    for cl in clears:
        tests = [x for x in g.nodes if x.kind == 'test' and x is not h]
        ge = None
        nz = None
        for x in tests:
            cp = compare_parts(x.ast)
            if not cp:
                continue
            l, op, r = cp
            if isinstance(l, ast.Name) and l.id == cntp and dotted(r) == specp + '.total_times':
                if guarded_by_edge(g, cl, x, 'true'):
                    ge = (x, op)
            elif isinstance(r, ast.Name) and r.id == cntp and dotted(l) == specp + '.total_times':
                if guarded_by_edge(g, cl, x, 'true'):
                    ge = (x, {ast.LtE: ast.GtE, ast.Lt: ast.Gt, ast.Eq: ast.Eq, ast.GtE: ast.LtE, ast.Gt: ast.Lt}.get(op, op))
            if dotted(l) == specp + '.total_times' and isinstance(r, ast.Constant) and r.value == 0:
                if (op is ast.NotEq and guarded_by_edge(g, cl, x, 'true')) or (op is ast.Eq and guarded_by_edge(g, cl, x, 'false')) \
                        or (op is ast.Gt and guarded_by_edge(g, cl, x, 'true')):
                    nz = x
        ok = ge is not None and ge[1] in (ast.GtE, ast.Eq)
        run.inst('COUNT.timer-loop', t, 'self-clear when counter >= total', ok,
                 '' if ok else ('the timer clears its own run flag under `counter %s total`: with counting from 0 in steps of 1 that is not the n-th activation, '
                                'the source fires a different number of times than requested' % ({ast.Gt: '>', ast.Lt: '<', ast.LtE: '<=', ast.NotEq: '!='}.get(ge[1], '?') if ge else '<no test>')),
                 node=cl.ast, obligation=True)
        run.inst('COUNT.timer-loop', t, 'never self-clears when total == 0 (forever)', nz is not None,
                 '' if nz is not None else 'the self-clear is not guarded by total != 0: times=0 no longer means "forever"', node=cl.ast, obligation=True)
        ok = all(g.dominates(i, cl) for i in incs) and all(any(g.dominates(p, cl) for p in posts) or True for _ in [0])
        run.inst('COUNT.timer-loop', t, 'the increment precedes the termination test', ok, 'termination is tested before the activation is counted', node=cl.ast, obligation=True)
    # ---- ORDER per iteration
    retests = [x for x in g.nodes if x.kind == 'test' and x is not h and 'is_set' in norm(x.ast)]
    run.floor('timer run-flag re-tests', len(retests), 1)
    for p in posts:
        ok = any(g.dominates(x, p) for x in retests)
        run.inst('ORDER.timer-iter', t, 're-test dominates the post', ok, 'a post is reachable without the run flag having been re-tested after the sleep', node=p.ast, obligation=True)
    for s in sleeps:
        ok = all(g.exists_path(s, x) for x in retests) and not any(g.exists_path(p, s, avoiding=[h]) for p in posts)
        run.inst('ORDER.timer-iter', t, 'sleep before re-test and post within an iteration', ok,
                 '' if ok else 'within one iteration the sleep follows the post: the first event fires immediately even when deferred', node=s.ast, obligation=True)
        # guarded by the deferred local
        dt = [x for x in g.nodes if x.kind == 'test' and isinstance(x.ast, ast.Name) and x.ast.id == defp]
        ok = len(dt) == 1 and guarded_by_edge(g, s, dt[0], 'true')
        run.inst('ORDER.timer-iter', t, 'sleep only when (locally) deferred', ok, 'the sleep is not controlled by the deferred flag', node=s.ast, obligation=True)
        if len(dt) == 1:
            # the other branch only sets the local flag
            succ = [m for m, l in g.succ[dt[0]] if l == 'false']
            ok = bool(succ) and succ[0].kind == 'stmt' and isinstance(succ[0].ast, ast.Assign) and isinstance(succ[0].ast.targets[0], ast.Name) \
                and succ[0].ast.targets[0].id == defp and isinstance(succ[0].ast.value, ast.Constant) and succ[0].ast.value.value is True
            run.inst('ORDER.timer-iter', t, 'non-deferred first pass flips the flag so later passes sleep', ok,
                     '' if ok else 'after a non-deferred first activation the thread does not start sleeping: it posts in a tight loop', obligation=True)
            sc = queues.count(g, sleeps, start=[m for m, l in g.succ[dt[0]] if l == 'true'][0], end=h)
            run.inst('ORDER.timer-iter', t, 'one sleep per deferred iteration', sc == (1, 1) or (sc and sc[1] == 1), 'sleeps per iteration %s' % (sc,), obligation=True)
        # sleep argument is the period
        for c in s.calls():
            if norm(c.func) in ('time.sleep', 'sleep'):
                ok = len(c.args) == 1 and dotted(c.args[0]) == specp + '.period'
                run.inst('WIRING.timer', t, 'sleeps for spec.period', ok, 'sleep argument is %s' % norm(c), node=c, obligation=True)
    # tag -> post method, event argument
    tagt = [x for x in g.nodes if x.kind == 'test' and isinstance(x.ast, ast.Compare) and dotted(x.ast.left) == specp + '.queue_type'
            and isinstance(x.ast.ops[0], ast.Eq) and const_str(x.ast.comparators[0]) in ('fifo', 'lifo')]
    if len(tagt) != 1:
        raise AnalysisError('timer: tag test not found')
    tag = const_str(tagt[0].ast.comparators[0])
    for p in posts:
        for c in p.calls():
            if isinstance(c.func, ast.Attribute) and c.func.attr in ('post_fifo', 'post_lifo'):
                on_true = guarded_by_edge(g, p, tagt[0], 'true')
                want = ('post_' + tag) if on_true else ('post_' + ('lifo' if tag == 'fifo' else 'fifo'))
                ok = c.func.attr == want and len(c.args) == 1 and dotted(c.args[0]) == specp + '.event' and not c.keywords
                run.inst('WIRING.timer', t, 'tag %s -> %s(spec.event)' % (tag if on_true else 'other', want), ok,
                         '' if ok else 'under tag %s the timer calls %s' % (tag if on_true else 'other', norm(c)), node=c, obligation=True)
    # ---- wiring in __post_event: the spec fields
    pdefs = local_defs(pe.node)
    spec_ctor = None
    for c in shallow_calls(pe.node):
        if isinstance(c.func, ast.Attribute) and c.func.attr == 'PostedEventThreadSpec':
            spec_ctor = c
    if spec_ctor is None:
        raise AnalysisError('__post_event: spec construction not found')
    given = {kw.arg: kw.value for kw in spec_ctor.keywords}
    want = {'event': pe.params[1], 'queue_type': 'queue_type', 'deferred': 'deferred', 'period': 'period', 'total_times': 'times'}
    for fld, src in want.items():
        v = given.get(fld)
        ok = isinstance(v, ast.Name) and v.id == src
        run.inst('WIRING.timer', pe, 'spec.%s <- %s' % (fld, src), ok, '' if ok else 'spec.%s is fed from %s' % (fld, norm(v) if v is not None else None), node=spec_ctor, obligation=True)
    # thread args: (spec, spec.deferred, 0)
    a0, a1 = sargs.elts[0], sargs.elts[1]
    ok = isinstance(a0, ast.Name) and any(x is spec_ctor for x in pdefs.get(a0.id, [])) and dotted(a1) == a0.id + '.deferred'
    run.inst('WIRING.timer', pe, 'thread receives (spec, spec.deferred, 0)', ok, 'thread args are %s' % norm(sargs), node=spawn, obligation=True)
    # ---- public methods
    for nm, tagv in (('post_fifo', 'fifo'), ('post_lifo', 'lifo')):
        f = ao.methods.get(nm)
        fd = local_defs(f.node)
        calls = [c for c in shallow_calls(f.node) if isinstance(c.func, ast.Attribute) and 'post_event' in c.func.attr]
        if len(calls) != 1:
            raise AnalysisError('%s: timed branch call not found' % nm)
        c = calls[0]
        amap = {}
        pparams = pe.params[1:]
        for i, a in enumerate(c.args):
            amap[pparams[i]] = a
        for kw in c.keywords:
            amap[kw.arg] = kw.value
        ok = all(isinstance(amap.get(k), ast.Name) and amap[k].id == k for k in ('times', 'period', 'deferred')) and \
            isinstance(amap.get(pe.params[1]), ast.Name) and amap[pe.params[1]].id == f.params[1]
        run.inst('WIRING.timer', f, '%s forwards (e, times, period, deferred)' % nm, ok, '' if ok else 'forwards %s' % {k: norm(v) for k, v in amap.items()}, node=c, obligation=True)
        ok = const_str(amap.get('queue_type')) == tagv
        run.inst('WIRING.timer', f, '%s passes tag %r' % (nm, tagv), ok, '' if ok else '%s passes tag %s' % (nm, norm(amap.get('queue_type')) if amap.get('queue_type') is not None else None), node=c, obligation=True)
        # defaults
        dflt = {}
        for st in f.node.body:
            if isinstance(st, ast.If):
                cp = compare_parts(st.test)
                if cp and isinstance(cp[0], ast.Name) and cp[1] is ast.Is and isinstance(cp[2], ast.Constant) and cp[2].value is None and len(st.body) == 1 \
                        and isinstance(st.body[0], ast.Assign) and isinstance(st.body[0].targets[0], ast.Name) and st.body[0].targets[0].id == cp[0].id:
                    dflt[cp[0].id] = st.body[0].value
        ok = isinstance(dflt.get('times'), ast.Constant) and dflt['times'].value == 0 and isinstance(dflt.get('deferred'), ast.Constant) and dflt['deferred'].value is True
        run.inst('WIRING.timer', f, '%s defaults: times None -> 0, deferred None -> True' % nm, ok,
                 '' if ok else 'defaults are %s' % {k: norm(v) for k, v in dflt.items()}, obligation=True)
        # returned id is what __post_event returned
        rets = [n for n in walk_shallow(f.node) if isinstance(n, ast.Return)]
        ok = bool(rets) and all(isinstance(r.value, ast.Name) and any(x is c for x in fd.get(r.value.id, [])) for r in rets)
        run.inst('WIRING.timer', f, '%s returns the source id' % nm, ok, 'the id of the timed source is not returned', obligation=True)
    # __post_event returns thread.name which is what is tracked
    rets = [n for n in walk_shallow(pe.node) if isinstance(n, ast.Return)]
    tracked = [c for c in shallow_calls(pe.node) if isinstance(c.func, ast.Attribute) and c.func.attr == 'PostedEvent']
    ok = bool(rets) and bool(tracked) and all(norm(r.value) == norm(tracked[0].args[2] if len(tracked[0].args) > 2 else None) for r in rets if r.value is not None)
    run.inst('WIRING.timer', pe, 'the returned id is the id recorded for cancel', ok, 'returned id and tracked id differ', obligation=True)
    run.assume('time.sleep(p) returns after at least p seconds; absent cancellation nobody else clears the source\'s run flag')
