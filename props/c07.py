"""C07 Active-object publish/subscribe works in every configuration.

WRAP.once          : the spy wrappers around _subscribe/_publish run the wrapped method on every path (also when the chart
                     is not instrumented).
DELEGATE.pubsub    : both configurations of subscribe()/publish() reach the fabric: thread running -> _subscribe/_publish
                     directly; not running -> a meta event posted to the object's own queue whose payload carries the
                     arguments, and the matching arm of top() passes exactly those payload fields on (writer/reader
                     agreement of the payload tuples).  _subscribe hands the object's *own queue* to the fabric.
KEYDEP.subscribed  : a guard that may skip the run-time subscription must depend on this object's queue, by identity
                     (a guard on the signal name alone skips every object after the first subscriber).
ATOMIC.subscribe   : the fabric's registry check-then-update is one critical section (active objects subscribe from their own
                     threads, so "regardless of which other objects already subscribed" includes objects subscribing right now).
SIGSET.reflection  : starting an un-instrumented object sends no REFLECTION query (shared with C18).
Not decided: arrival at the chart under all schedules.
"""
import ast

from sa.model import AnalysisError, walk_shallow, dotted, norm
from sa.util import is_param_or_defaulted, cfg_of, shallow_calls, signal_const, local_defs, resolve_name, guarded_by_edge, strip_not, compare_parts, expand_locals
from sa.context import callgraph
from sa import wrap
from sa.cfg import INF
from props.c18 import instrumented_guard


def namedtuple_fields(model, name):
    for (mod, n), v in model.module_bindings.items():
        if n == name and isinstance(v, ast.Call) and norm(v.func) == 'namedtuple' and len(v.args) == 2 and isinstance(v.args[1], ast.List):
            return [e.value for e in v.args[1].elts if isinstance(e, ast.Constant)]
    return None


def check(run, model, tier):
    run.explanation = ('Path and dataflow analysis of ActiveObject.subscribe/publish, their spy wrappers, the meta-signal arms of '
                       'ActiveObject.top and ActiveFabricSource.subscribed: every configuration (instrumented or not, thread running or '
                       'not, other subscribers present or not) must reach fabric.subscribe(own queue, ...) / fabric.publish(...). Each '
                       'configuration is a branch in the code, so the verdict covers all of them without running any.')
    run.rule('WRAP.once', 'spy wrappers of _subscribe/_publish call the wrapped method exactly once on every path')
    run.rule('DELEGATE.pubsub', 'running branch calls _subscribe/_publish; deferred branch posts the meta event; top() arms forward the payload fields')
    run.rule('KEYDEP.subscribed', 'the run-time "already subscribed" guard depends on this object\'s queue by identity')
    run.rule('SIGSET.reflection', 'ActiveObject.start_at sends REFLECTION only under an instrumented test')
    run.rule('TRUTH.queue', 'a queue handed to the fabric is never tested for truth (an empty queue is falsy: the answer would depend on pending events)')
    from sa import ident
    ident.check_queue_truth(run, model, 'TRUTH.queue', classes=('ActiveFabricSource', 'ActiveObject'), floor=2)
    run.rule('KEYDEP.subscribed-eval', 'finite-domain evaluation of the fabric\'s subscribed() query: identity membership of this queue in the registry of its kind and signal')
    from sa import fabric as _fabric
    if not _fabric.eval_subscribed(run, model, 'KEYDEP.subscribed-eval'):
        run.note('ActiveFabricSource.subscribed is outside the pure fragment of the evaluator: KEYDEP.subscribed decides by def-use only')
    cg = callgraph(model)
    ao = model.cls('ActiveObject')
    fab = model.cls('ActiveFabricSource')
    need = {}
    for nm in ('subscribe', 'subscribed', '_subscribe', 'publish', '_publish', 'top', 'start_at'):
        f = ao.methods.get(nm)
        if f is None:
            raise AnalysisError('ActiveObject.%s not found' % nm)
        need[nm] = f
        run.touch(f)
    # ---- WRAP.once on the wrappers applied to _subscribe / _publish
    n_wr = 0
    for nm in ('_subscribe', '_publish'):
        raw = need[nm]
        for fac, d in getattr(raw, 'decorator_chain', []):
            if fac == 'unknown':
                raise AnalysisError('unknown decorator on ActiveObject.%s' % nm)
            info = wrap.analyse_wrapper(model, cg, fac)
            n_wr += 1
            ok = info.count == (1, 1)
            run.inst('WRAP.once', info.inner, 'calls the wrapped %s exactly once' % nm, ok,
                     '' if ok else 'the wrapper runs %s %s times on some path (%s): in that configuration the object never reaches the fabric'
                     % (nm, info.count, info.witness), obligation=True)
            for c, ok2, why in info.forward:
                run.inst('WRAP.once', info.inner, 'forwards ' + norm(c), ok2, why, node=c, obligation=True)
    run.floor('spy wrappers on _subscribe/_publish', n_wr, 2)
    # ---- raw bodies hand over to the fabric
    for nm, meth, first in (('_subscribe', 'subscribe', 'queue'), ('_publish', 'publish', None)):
        f = need[nm]
        g = cfg_of(f)
        calls = [(n, c) for n in g.nodes if n.kind not in ('entry', 'exit', 'xexit', 'def') for c in n.calls()
                 if isinstance(c.func, ast.Attribute) and c.func.attr == meth and dotted(c.func.value) == f.params[0] + '.fabric']
        cnt = g.count_on_paths(lambda n: sum(1 for m, c in calls if m is n))
        ok = cnt == (1, 1)
        run.inst('DELEGATE.pubsub', f, 'calls fabric.%s exactly once' % meth, ok,
                 '' if ok else 'fabric.%s is called %s times on some path of %s' % (meth, cnt, nm), obligation=True)
        for n, c in calls:
            args = [norm(a) for a in c.args]
            fdefs_ = local_defs(f.node)
            if first:
                ok = bool(c.args) and dotted(c.args[0]) == f.params[0] + '.queue' and len(c.args) - 1 == len(f.params[1:]) and \
                    all(is_param_or_defaulted(a_, p_, fdefs_) for a_, p_ in zip(c.args[1:], f.params[1:]))
                why = 'fabric.subscribe must receive this object\'s own queue and the caller\'s (event, queue_type); got (%s)' % ', '.join(args)
            else:
                ok = len(c.args) == len(f.params[1:]) and all(is_param_or_defaulted(a_, p_, fdefs_) for a_, p_ in zip(c.args, f.params[1:]))
                why = 'fabric.publish must receive the caller\'s (event, priority); got (%s)' % ', '.join(args)
            run.inst('DELEGATE.pubsub', f, 'arguments of fabric.%s' % meth, ok, '' if ok else why, node=c, obligation=True)
    # ---- subscribe()/publish(): the two configurations
    for nm, inner_nm, meta, tup in (('subscribe', '_subscribe', 'SUBSCRIBE_META_SIGNAL', 'SubscribeEvent'),
                                    ('publish', '_publish', 'PUBLISH_META_SIGNAL', 'PublishEvent')):
        f = need[nm]
        g = cfg_of(f)
        selfn = f.params[0]
        running = [t for t in g.nodes if t.kind == 'test' and any(isinstance(c.func, ast.Attribute) and 'thread_running' in c.func.attr for c in t.calls())]
        if len(running) != 1:
            raise AnalysisError('%s: the thread-running test was not found' % f.qualname)
        rt = running[0]
        inner_calls = [n for n in g.nodes if n.kind not in ('entry', 'exit', 'xexit', 'def') and
                       any(isinstance(c.func, ast.Attribute) and c.func.attr == inner_nm and dotted(c.func.value) == selfn for c in n.calls())]
        posts = [n for n in g.nodes if n.kind not in ('entry', 'exit', 'xexit', 'def') and
                 any(isinstance(c.func, ast.Attribute) and c.func.attr in ('post_lifo', 'post_fifo') and dotted(c.func.value) == selfn for c in n.calls())]
        run.floor('%s: direct calls of %s' % (nm, inner_nm), len(inner_calls), 1)
        run.floor('%s: deferred posts' % nm, len(posts), 1)
        # running branch: every path calls inner at most once, and at least once unless a KEYDEP guard skips it
        # polarity of the test: `if running:` / `if not running:` / `if running is False:`
        ri, rpol = strip_not(rt.ast)
        rcp = compare_parts(ri)
        if rcp and isinstance(rcp[2], ast.Constant) and isinstance(rcp[2].value, bool):
            same = rcp[1] in (ast.Is, ast.Eq)
            rpol = rpol if (rcp[2].value is True) == same else not rpol
        elif not isinstance(ri, ast.Call):
            raise AnalysisError('%s: the thread-running test has an unrecognised form (%s)' % (f.qualname, norm(rt.ast)))
        succ_true = [m for m, lab in g.succ[rt] if lab == ('true' if rpol else 'false')]
        succ_false = [m for m, lab in g.succ[rt] if lab == ('false' if rpol else 'true')]
        w_inner = lambda n: 1 if n in inner_calls else 0
        w_post = lambda n: 1 if n in posts else 0
        for m in succ_true:
            c1 = g.count_on_paths(w_inner, start=m)
            c2 = g.count_on_paths(w_post, start=m)
            guards = [t for t in g.nodes if t.kind == 'test' and t is not rt and any(guarded_by_edge(g, ic, t, lab) for ic in inner_calls for lab in ('true', 'false'))]
            if c1 == (1, 1):
                run.inst('DELEGATE.pubsub', f, 'running: calls %s exactly once' % inner_nm, True, obligation=True)
            elif c1 == (0, 1) and guards:
                # a guard may skip the call: it must be the keyed "already subscribed" test
                run.inst('DELEGATE.pubsub', f, 'running: calls %s once unless the keyed guard skips it' % inner_nm, True, obligation=True)
                for t in guards:
                    check_keydep(run, model, cg, f, t, need, fab)
                # ... and it must be the *only* condition: whatever else has to hold before the hand-over can fail while the fabric does not know this queue,
                # and the subscription is silently dropped
                from sa.boolflow import must_atoms as _ma
                for ic in inner_calls:
                    atoms = _ma(g, ic, f.node, params=f.params)
                    extra = []
                    for a_ in sorted(atoms):
                        txt = a_[0]
                        if 'thread_running' in txt or (a_[1] in ('Is', 'IsNot', 'Eq', 'NotEq') and 'thread_running' in a_[2]):
                            continue
                        if a_[1] == 'Falsy' and txt.startswith(selfn + '.subscribed('):
                            continue
                        if a_[1] in ('Is', 'Eq') and a_[2] == 'False' and txt.startswith(selfn + '.subscribed('):
                            continue
                        if a_[0] == 'False' and a_[1] in ('Is', 'Eq') and a_[2].startswith(selfn + '.subscribed('):
                            continue
                        extra.append(a_)
                    run.inst('DELEGATE.pubsub', f, 'running: nothing but "the fabric does not know this queue yet" decides the hand-over', not extra,
                             '' if not extra else ('with the thread running, %s hands the request to the fabric only if %s also holds: when it does not, the call returns without '
                                                   'subscribing although the fabric has no registration for this queue - later publications of the signal never arrive'
                                                   % (nm, ' and '.join('%s %s %s' % a_ for a_ in extra))), node=ic.ast, obligation=True)
            else:
                run.inst('DELEGATE.pubsub', f, 'running: calls %s' % inner_nm, False,
                         'with the thread running, %s calls %s %s times on some path' % (nm, inner_nm, c1), obligation=True)
            run.inst('DELEGATE.pubsub', f, 'running: posts no meta event', c2 == (0, 0),
                     '' if c2 == (0, 0) else 'with the thread running a meta event is posted as well (%s)' % (c2,), obligation=True)
        for m in succ_false:
            c1 = g.count_on_paths(w_inner, start=m)
            c2 = g.count_on_paths(w_post, start=m)
            ok = c2 == (1, 1) and c1 == (0, 0)
            run.inst('DELEGATE.pubsub', f, 'not running: posts exactly one meta event', ok,
                     '' if ok else 'with the thread not running %s posts %s meta events and calls %s %s times' % (nm, c2, inner_nm, c1), obligation=True)
        # the posted event: signal and payload tuple
        defs = local_defs(f.node)
        fields = namedtuple_fields(model, tup)
        if fields is None:
            raise AnalysisError('payload tuple %s not found' % tup)
        for pn in posts:
            for c in pn.calls():
                if not (isinstance(c.func, ast.Attribute) and c.func.attr in ('post_lifo', 'post_fifo')):
                    continue
                ev = resolve_name(c.args[0], defs) if c.args else None
                sig = pay = None
                if isinstance(ev, ast.Call):
                    for kw in ev.keywords:
                        if kw.arg == 'signal':
                            sig = kw.value
                        if kw.arg == 'payload':
                            pay = kw.value
                    if sig is None and ev.args:
                        sig = ev.args[0]
                    if pay is None and len(ev.args) > 1:
                        pay = ev.args[1]
                ok = sig is not None and signal_const(sig) == meta
                run.inst('DELEGATE.pubsub', f, 'deferred event carries %s' % meta, ok,
                         '' if ok else 'the deferred %s request is posted with signal %s' % (nm, norm(sig) if sig is not None else None), node=c, obligation=True)
                pv = resolve_name(pay, defs) if pay is not None else None
                good = isinstance(pv, ast.Call) and norm(pv.func) == tup
                if good:
                    given = {}
                    for i, a in enumerate(pv.args):
                        if i < len(fields):
                            given[fields[i]] = a
                    for kw in pv.keywords:
                        given[kw.arg] = kw.value
                    # every field is fed from the parameter of the same role (positionally)
                    good = set(given) == set(fields) and all(is_param_or_defaulted(given[fl], p, defs) for fl, p in zip(fields, f.params[1:]))
                run.inst('DELEGATE.pubsub', f, 'payload %s(%s) carries the caller\'s arguments' % (tup, ', '.join(fields)), good,
                         '' if good else 'the deferred request does not carry the caller\'s arguments in %s' % tup, node=c, obligation=True)
    # ---- top(): the meta arms
    top = need['top']
    g = cfg_of(top)
    for meta, inner_nm, tup in (('SUBSCRIBE_META_SIGNAL', '_subscribe', 'SubscribeEvent'), ('PUBLISH_META_SIGNAL', '_publish', 'PublishEvent')):
        fields = namedtuple_fields(model, tup)
        arms = [t for t in g.nodes if t.kind == 'test' and any(signal_const(x) == meta for x in ast.walk(t.ast))]
        if len(arms) != 1:
            run.inst('DELEGATE.pubsub', top, 'top() has an arm for %s' % meta, False,
                     'ActiveObject.top has no arm for %s: a request made before the thread runs is dropped' % meta, obligation=True)
            continue
        t = arms[0]
        cp = t.ast
        eq = isinstance(cp, ast.Compare) and isinstance(cp.ops[0], ast.Eq)
        calls = [(n, c) for n in g.nodes if n.kind not in ('entry', 'exit', 'xexit', 'def') for c in n.calls()
                 if isinstance(c.func, ast.Attribute) and c.func.attr == inner_nm and guarded_by_edge(g, n, t, 'true')]
        succ_true = [m for m, lab in g.succ[t] if lab == 'true']
        cnt = g.count_on_paths(lambda n: sum(1 for m, c in calls if m is n), start=succ_true[0]) if succ_true else None
        ok = eq and cnt == (1, 1)
        run.inst('DELEGATE.pubsub', top, 'arm %s calls %s exactly once' % (meta, inner_nm), ok,
                 '' if ok else 'the %s arm of top() calls %s %s times' % (meta, inner_nm, cnt), node=t.ast, obligation=True)
        for n, c in calls:
            got = [norm(expand_locals(a, top.node, params=top.params)) for a in c.args]
            want_suffix = ['payload.' + fl for fl in fields]
            ok = len(got) == len(fields) and all(gt.endswith(ws) for gt, ws in zip(got, want_suffix))
            run.inst('DELEGATE.pubsub', top, 'arm %s forwards payload fields (%s)' % (meta, ', '.join(fields)), ok,
                     '' if ok else 'the arm passes (%s); the payload tuple %s has fields (%s) in this order' % (', '.join(got), tup, ', '.join(fields)),
                     node=c, obligation=True)
    # ---- SIGSET.reflection in start_at
    sa_ = need['start_at']
    g = cfg_of(sa_)
    for n in g.nodes:
        if n.kind in ('entry', 'exit', 'xexit', 'def'):
            continue
        if any(signal_const(x) == 'REFLECTION_SIGNAL' for x in n.walk()):
            ok = instrumented_guard(g, n, sa_.params[0])
            run.inst('SIGSET.reflection', sa_, 'REFLECTION in start_at', ok,
                     '' if ok else 'start_at sends a REFLECTION query to the start state without knowing that it is spy-wrapped: an un-instrumented '
                     'object fails to start', node=n.ast, obligation=True)
    run.inst('SIGSET.reflection', sa_, 'start_at scanned for REFLECTION sends', True, nontrivial=False)
    # ---- concurrent subscriptions of several active objects (each subscribes from its own thread)
    from sa import fabric
    from props.c06 import atomic_subscribe
    run.rule('ATOMIC.subscribe', 'the fabric decides "already registered?" and updates the registry in one critical section')
    atomic_subscribe(run, model, fabric.wiring(model))
    # subscriber lists only ever grow: the delivery threads iterate them without the lock
    run.rule('LAYER.registry-grows', 'outside the fabric\'s clear() nothing removes from, reorders or slice-replaces a subscriber list (delivery threads iterate the lists unlocked)')
    from sa.fabric import registry_shrink_sites, wiring as _wiring
    sites_ = registry_shrink_sites(model, _wiring(model))
    for f_, n_, txt_ in sites_:
        run.inst('LAYER.registry-grows', f_, 'shrinks a subscriber list: ' + txt_[:60], False,
                 ('%s shrinks a subscriber list of the fabric in place (%s). The delivery threads iterate these lists without the subscription lock: when the list loses an element '
                  'under a running iteration the iterator steps over the next subscriber, which is registered and running but never receives that publication'
                  % (f_.qualname, txt_[:80])), node=n_, obligation=True)
    if not sites_:
        run.inst('LAYER.registry-grows', 'activeobject.<package>', 'no function removes from a subscriber list', True, obligation=True)
    run.assume('the fabric side of delivery is C06; queue placement is C09')


def check_keydep(run, model, cg, f, t, need, fab):
    """t is a test in ActiveObject.subscribe that can skip the run-time subscription"""
    selfn = f.params[0]
    # what does the guard call?
    calls = [c for c in t.calls() if isinstance(c.func, ast.Attribute) and dotted(c.func.value) == selfn]
    dep = False
    ident = True
    chain = []
    for c in calls:
        m = need.get(c.func.attr) or model.cls('ActiveObject').methods.get(c.func.attr)
        if m is None:
            continue
        chain.append(m.qualname)
        # inside m: calls on self.fabric that pass self.queue
        for c2 in shallow_calls(m.node):
            if isinstance(c2.func, ast.Attribute) and dotted(c2.func.value) == m.params[0] + '.fabric':
                passes_queue = any(dotted(a) in (m.params[0] + '.queue', m.params[0] + '.locking_deque') for a in list(c2.args) + [k.value for k in c2.keywords])
                fm = fab.methods.get(c2.func.attr)
                if fm is None:
                    continue
                chain.append(fm.qualname)
                if passes_queue:
                    # which parameter receives it, and does the result depend on it by identity
                    idx = None
                    for i, a in enumerate(c2.args):
                        if dotted(a) in (m.params[0] + '.queue', m.params[0] + '.locking_deque'):
                            idx = i + 1
                    pname = fm.params[idx] if idx is not None and idx < len(fm.params) else None
                    for k in c2.keywords:
                        if dotted(k.value) in (m.params[0] + '.queue', m.params[0] + '.locking_deque'):
                            pname = k.arg
                    if pname:
                        uses = [n for n in walk_shallow(fm.node) if isinstance(n, ast.Compare) and any(isinstance(x, ast.Name) and x.id == pname for x in ast.walk(n))]
                        id_uses = [n for n in walk_shallow(fm.node) if isinstance(n, ast.Call) and norm(n.func) == 'id' and n.args and isinstance(n.args[0], ast.Name) and n.args[0].id == pname]
                        if uses or id_uses:
                            dep = True
                        for u in uses:
                            if not all(isinstance(op, (ast.Is, ast.IsNot)) for op in u.ops) and not any(isinstance(x, ast.Call) and norm(x.func) == 'id' for x in ast.walk(u)):
                                ident = False
    ok = dep and ident
    run.inst('KEYDEP.subscribed', f, 'guard ' + norm(t.ast), ok,
             '' if ok else ('the test %s can skip this object\'s run-time subscription, but its value (via %s) %s: an object that subscribes '
                            'after start to a signal another object already has is never registered' %
                            (norm(t.ast), ' -> '.join(chain), 'does not depend on this object\'s queue' if not dep else 'compares queues by content, not identity')),
             node=t.ast, obligation=True)
