"""C08 Fabric delivers by priority, and equal priorities in publish order.

CMP.total-order   : the class of the objects put into the fabric's priority queues defines `__lt__` as the
                    lexicographic order (priority, sequence), where `sequence` is a field assigned at construction
                    from a strictly increasing source (next() of an itertools.count).  Decided by evaluating the
                    body of `__lt__` over every pair of a finite ordered domain (values are only compared, so a
                    three-point domain covers every order type).
CMP.queue-kind    : both fabric queues are PriorityQueue objects, filled by put() and drained by get() only; each
                    publication constructs its queue item from (event, priority) right before the put.
Not decided: order among concurrent publishers (undefined by the property).
"""
import ast
import itertools

from sa.model import AnalysisError, walk_shallow, dotted, norm
from sa.util import shallow_calls, local_defs, resolve_name
from sa import pureeval
from sa.context import callgraph


def monotone_source(model, cls, expr):
    """is `expr` of the form next(<name bound to itertools.count()>) ?"""
    if not (isinstance(expr, ast.Call) and isinstance(expr.func, ast.Name) and expr.func.id == 'next' and len(expr.args) == 1):
        return False
    src = expr.args[0]
    d = dotted(src)
    if d is None:
        return False
    last = d.split('.')[-1]
    cands = []
    if last in cls.consts:
        cands.append(cls.consts[last])
    if (cls.module.name, last) in model.module_bindings:
        cands.append(model.module_bindings[(cls.module.name, last)])
    for v in cands:
        if isinstance(v, ast.Call) and norm(v.func) in ('count', 'itertools.count'):
            step_ok = all(not (kw.arg == 'step') for kw in v.keywords) and len(v.args) <= 1
            return step_ok
    return False


def check(run, model, tier):
    run.explanation = ('The fabric keeps pending publications in queue.PriorityQueue, i.e. a binary heap ordered by `<` of the queued '
                       'objects; a heap is not stable, so "equal priorities in publish order" holds for every publish sequence and every '
                       'delivery lag iff `<` is a strict total order that breaks priority ties by construction order. The `__lt__` body is '
                       'evaluated abstractly over all 81 pairs of a 3x3 (priority, sequence) domain and compared with the lexicographic order.')
    run.rule('DEFAULT.priority', 'publish paths replace the priority by the default only where the caller passed None: the priority asked for is the priority queued')
    from sa.util import check_param_defaults
    n_def = 0
    for cn_, mn_ in (('ActiveFabricSource', 'publish'), ('ActiveObject', 'publish'), ('ActiveObject', '_publish')):
        f_ = model.cls(cn_).methods.get(mn_)
        if f_ is not None:
            run.touch(f_)
            n_def += check_param_defaults(run, 'DEFAULT.priority', f_, params={'priority'},
                                          why='every publication then carries the default priority, and "smaller priority number first" no longer holds')
    run.floor('priority default sites on the publish paths', n_def, 2)
    run.rule('CMP.total-order', '__lt__ == lexicographic (priority, construction sequence); sequence from next(itertools.count())')
    run.rule('CMP.queue-kind', 'fabric queues are PriorityQueue, put()/get() only; items built from (event, priority) at publish time')
    fab = model.cls('ActiveFabricSource')
    cg = callgraph(model)
    # the priority queues of the fabric
    pq_fields = sorted(a for (k, a), tys in cg.field_types.items() if k == fab.name and 'PriorityQueue' in tys)
    run.floor('fabric priority-queue fields', len(pq_fields), 2)
    for a in pq_fields:
        tys = cg.field_types[(fab.name, a)]
        ok = tys == {'PriorityQueue'}
        run.inst('CMP.queue-kind', fab.name, 'field %s is only ever a PriorityQueue' % a, ok,
                 '' if ok else 'field %s may hold %s: delivery order is then not by priority' % (a, sorted(str(t) for t in tys)))
    # items put into them
    item_classes = set()
    publish = fab.methods.get('publish')
    if publish is None:
        raise AnalysisError('ActiveFabricSource.publish not found')
    n_put = 0
    for f in fab.methods.values():
        fs = [f] + list(f.nested.values())
        for ff in fs:
            defs = local_defs(ff.node)
            for c in shallow_calls(ff.node):
                if isinstance(c.func, ast.Attribute) and c.func.attr in ('put', 'put_nowait') and c.args:
                    rd = dotted(c.func.value)
                    if not rd:
                        continue
                    is_pq = (rd.startswith('self.') and rd.split('.', 1)[1] in pq_fields)
                    if not is_pq and ff.parent is not None and isinstance(c.func.value, ast.Name) and c.func.value.id in ff.params:
                        # helper parameter bound to a priority queue field at its call sites
                        idx = ff.params.index(c.func.value.id)
                        for cc in shallow_calls(ff.parent.node):
                            if isinstance(cc.func, ast.Name) and cc.func.id == ff.name and idx < len(cc.args):
                                d2 = dotted(cc.args[idx])
                                if d2 and d2.startswith('self.') and d2.split('.', 1)[1] in pq_fields:
                                    is_pq = True
                    if not is_pq:
                        continue
                    n_put += 1
                    item = resolve_name(c.args[0], defs)
                    if isinstance(item, ast.Call) and isinstance(item.func, ast.Name) and item.func.id in model.classes:
                        item_classes.add(item.func.id)
                        if ff is publish:
                            ok = len(item.args) + len(item.keywords) == 2
                            a0 = item.args[0] if item.args else None
                            a1 = item.args[1] if len(item.args) > 1 else None
                            for kw in item.keywords:
                                if kw.arg == 'event':
                                    a0 = kw.value
                                if kw.arg == 'priority':
                                    a1 = kw.value
                            from sa.util import is_param_or_defaulted as _ipd
                            ok = isinstance(a0, ast.Name) and a0.id == publish.params[1] and a1 is not None and _ipd(a1, publish.params[2], defs)
                            run.inst('CMP.queue-kind', ff, 'put %s' % norm(item), ok,
                                     '' if ok else 'the queued item is not built from the published (event, priority)', node=c, obligation=True)
                    elif isinstance(item, ast.Constant):
                        run.inst('CMP.queue-kind', ff, 'put %s' % norm(item), False,
                                 'the constant %s is put into a fabric priority queue: it cannot be ordered against the queued publications (TypeError from the heap unless the queue is empty)' % norm(item),
                                 node=c, obligation=True)
                    else:
                        raise AnalysisError('%s: object put into a fabric priority queue is not a visible constructor call' % ff.qualname)
    run.floor('put sites on fabric priority queues', n_put, 3)
    # both queues receive exactly one item per publication
    pub_puts = [c for c in shallow_calls(publish.node) if isinstance(c.func, ast.Attribute) and c.func.attr == 'put']
    targets = sorted(dotted(c.func.value) or '?' for c in pub_puts)
    ok = targets == sorted('self.' + a for a in pq_fields)
    run.inst('CMP.queue-kind', publish, 'one put per kind per publication', ok,
             '' if ok else 'publish puts into %s, expected one put into each of %s' % (targets, pq_fields), obligation=True)
    if len(item_classes) != 1:
        raise AnalysisError('expected one class of queued items, found %s' % sorted(item_classes))
    k = model.cls(item_classes.pop())
    lt, init = k.methods.get('__lt__'), k.methods.get('__init__')
    if lt is None or init is None:
        run.inst('CMP.total-order', k.name, '__lt__ defined', False, 'the queued class defines no __lt__: PriorityQueue.put raises TypeError on ties')
        return
    run.touch(lt)
    run.touch(init)
    # fields and their provenance
    fields = {}
    for n in walk_shallow(init.node):
        if isinstance(n, ast.Assign):
            for t in n.targets:
                d = dotted(t)
                if d and d.startswith(init.params[0] + '.'):
                    fields[d.split('.', 1)[1]] = n.value
    prio = [a for a, v in fields.items() if isinstance(v, ast.Name) and v.id == 'priority']
    seqs = [a for a, v in fields.items() if monotone_source(model, k, v)]
    if len(prio) != 1:
        raise AnalysisError('cannot identify the priority field of %s' % k.name)
    prio = prio[0]
    # fields read by __lt__
    read = sorted({n.attr for n in ast.walk(lt.node) if isinstance(n, ast.Attribute) and isinstance(n.value, ast.Name) and n.value.id in lt.params})
    seq = seqs[0] if seqs else None
    dom = (1, 2, 3)
    mism = []
    n_pairs = 0
    other_fields = [a for a in fields if a not in (prio, seq)]
    for p1, s1, p2, s2 in itertools.product(dom, dom, dom, dom):
        # the numbers are objects of their own (equal values that are not the same object: what a priority computed or parsed at run time is - CPython shares
        # only small ints), so a comparison by identity where equality is meant shows
        fresh = lambda v: int(str(v * 1000 + 7))
        a = pureeval.Obj(**{prio: fresh(p1), **({seq: fresh(s1)} if seq else {}), **{o: 'x' for o in other_fields}})
        b = pureeval.Obj(**{prio: fresh(p2), **({seq: fresh(s2)} if seq else {}), **{o: 'x' for o in other_fields}})
        got = bool(pureeval.call(lt.node, [a, b]))
        want = (p1, s1) < (p2, s2)
        n_pairs += 1
        if got != want:
            mism.append(((p1, s1), (p2, s2), got, want))
    if seq is None:
        run.inst('CMP.total-order', lt, '__lt__ breaks priority ties by construction order', False,
                 'the queued class has no field assigned from a strictly increasing source and __lt__ reads only %s: two publications of '
                 'equal priority are unordered, and a binary heap returns them in an order that depends on the heap shape, not on publish order'
                 % read, obligation=True)
    else:
        ok = not mism
        run.inst('CMP.total-order', lt, '__lt__ == lexicographic (%s, %s) on %d pairs' % (prio, seq, n_pairs), ok,
                 '' if ok else '__lt__ differs from the lexicographic order (priority, then construction sequence); first mismatch '
                 '(priority,seq) %s < %s evaluates to %s, expected %s' % mism[0], obligation=True)
        run.inst('CMP.total-order', init, 'sequence from %s' % norm(fields[seq]), True, nontrivial=False)
    # ---- the monotone source is bound once; the sequence field is written only at construction
    if seq is not None:
        srcname = dotted(fields[seq].args[0]).split('.')[-1]
        n_bind = 0
        for f in model.all_funcs():
            for n in walk_shallow(f.node):
                tg = []
                if isinstance(n, ast.Assign):
                    tg = n.targets
                elif isinstance(n, (ast.AugAssign, ast.AnnAssign)):
                    tg = [n.target]
                for t in tg:
                    if isinstance(t, ast.Attribute) and t.attr == srcname:
                        n_bind += 1
                        run.inst('CMP.total-order', f, 'rebinds the sequence source: ' + norm(n), False,
                                 ('%s replaces the counter that numbers queued events (%s): events numbered before the reset carry larger numbers than events '
                                  'numbered after it, so later publications of equal priority overtake earlier ones still waiting in the heap' % (f.qualname, norm(n))),
                                 node=n, obligation=True)
                    if isinstance(t, ast.Name) and t.id == srcname and any(isinstance(g_, ast.Global) and srcname in g_.names for g_ in walk_shallow(f.node)):
                        n_bind += 1
                        run.inst('CMP.total-order', f, 'rebinds the sequence source: ' + norm(n), False, 'the module-level counter is replaced in %s' % f.qualname, node=n, obligation=True)
                    if isinstance(t, ast.Attribute) and t.attr == seq and f is not init:
                        run.inst('CMP.total-order', f, 'rewrites the sequence field: ' + norm(n), False,
                                 'the construction sequence number of a queued item is modified after construction in %s' % f.qualname, node=n, obligation=True)
        run.inst('CMP.total-order', k.name, 'sequence source %s is bound once (class/module level)' % srcname, n_bind == 0, nontrivial=True, obligation=True)
    run.note('fields read by __lt__: %s; domain %s x %s' % (read, dom, dom))
    # consumers use get()
    for nm in ('thread_runner_fifo', 'thread_runner_lifo'):
        r = fab.methods.get(nm)
        if r is None:
            raise AnalysisError('delivery thread %s not found' % nm)
        qp = r.params[2] if len(r.params) > 2 else None
        # every use of the queue in the thread (also through local aliases): get()/task_done() only - PriorityQueue.queue is a heap, not a sorted list
        aliases = {qp} | {k_ for k_, v_ in local_defs(r.node).items() if any(isinstance(x_, ast.Name) and x_.id == qp for x_ in v_ if not isinstance(x_, tuple))}
        uses = sorted({n_.attr for n_ in walk_shallow(r.node) if isinstance(n_, ast.Attribute) and isinstance(n_.value, ast.Name) and n_.value.id in aliases})
        passed = []
        for c_ in shallow_calls(r.node):
            if not any(isinstance(a_, ast.Name) and a_.id in aliases for a_ in list(c_.args) + [k_.value for k_ in c_.keywords]):
                continue
            # handed to a helper of the fabric: what the helper does with it counts as done here
            hm = fab.methods.get(c_.func.attr) if isinstance(c_.func, ast.Attribute) and isinstance(c_.func.value, ast.Name) and c_.func.value.id == r.params[0] else None
            if hm is not None:
                static_ = any(isinstance(d_, ast.Name) and d_.id == 'staticmethod' for d_ in hm.node.decorator_list)
                hp = hm.params if static_ else hm.params[1:]
                bound = [hp[i_] for i_, a_ in enumerate(c_.args) if i_ < len(hp) and isinstance(a_, ast.Name) and a_.id in aliases]
                if bound:
                    huses = sorted({n_.attr for n_ in ast.walk(hm.node) if isinstance(n_, ast.Attribute) and isinstance(n_.value, ast.Name) and n_.value.id in bound})
                    hpassed = [x_ for x_ in ast.walk(hm.node) if isinstance(x_, ast.Call) and any(isinstance(a_, ast.Name) and a_.id in bound for a_ in x_.args)]
                    if not hpassed:
                        uses = sorted(set(uses) | set(huses))
                        continue
            passed.append(norm(c_))
        ok = 'get' in uses and set(uses) <= {'get', 'task_done', 'get_nowait'} and not passed
        run.inst('CMP.queue-kind', r, 'drained by get() only', ok,
                 '' if ok else ('the delivery thread touches its priority queue through %s%s: only get() hands out items in (priority, publish order); the underlying list is a binary heap, '
                                'so reading it directly delivers a backlog out of order' % (uses, (' and passes it to ' + ', '.join(passed)) if passed else '')), obligation=True)
        # delivered in the order of get(): whatever comes out of the queue (the item, its event) may be tested, read and handed to a subscriber's queue, but it is
        # never parked in a container of the thread's own - a parked backlog is delivered in the container's order (by signal, by subscriber ...), not by priority
        CONT = {'dict', 'list', 'deque', 'defaultdict', 'OrderedDict', 'set'}
        ldefs = local_defs(r.node)
        containers = {k_ for k_, v_ in ldefs.items() if any((not isinstance(x_, tuple)) and (isinstance(x_, (ast.Dict, ast.List, ast.Set, ast.ListComp, ast.DictComp)) or
                                                             (isinstance(x_, ast.Call) and norm(x_.func).split('.')[-1] in CONT)) for x_ in v_)}
        # tuple-unpacked literals: `waiting, taken = {}, 0`
        for n_ in walk_shallow(r.node):
            if isinstance(n_, ast.Assign) and isinstance(n_.targets[0], ast.Tuple) and isinstance(n_.value, ast.Tuple) and len(n_.targets[0].elts) == len(n_.value.elts):
                for t_, v_ in zip(n_.targets[0].elts, n_.value.elts):
                    if isinstance(t_, ast.Name) and (isinstance(v_, (ast.Dict, ast.List, ast.Set)) or (isinstance(v_, ast.Call) and norm(v_.func).split('.')[-1] in CONT)):
                        containers.add(t_.id)
        tainted = set()
        for _ in range(4):
            for n_ in walk_shallow(r.node):
                if isinstance(n_, ast.Assign):
                    v_ = n_.value
                    src = (isinstance(v_, ast.Call) and isinstance(v_.func, ast.Attribute) and v_.func.attr in ('get', 'get_nowait') and isinstance(v_.func.value, ast.Name) and v_.func.value.id in aliases) \
                        or any(isinstance(x_, ast.Name) and x_.id in tainted for x_ in ast.walk(v_))
                    if src:
                        for t_ in n_.targets:
                            for x_ in ast.walk(t_):
                                if isinstance(x_, ast.Name) and x_.id not in containers:
                                    tainted.add(x_.id)

        def rooted_in_container(e_):
            while isinstance(e_, (ast.Attribute, ast.Subscript, ast.Call)):
                e_ = e_.func if isinstance(e_, ast.Call) else e_.value
            return isinstance(e_, ast.Name) and e_.id in containers
        parked = []
        for n_ in walk_shallow(r.node):
            if isinstance(n_, ast.Call) and isinstance(n_.func, ast.Attribute) and n_.func.attr in ('append', 'appendleft', 'extend', 'insert', 'add', 'setdefault', 'update', 'put') \
                    and rooted_in_container(n_.func.value) and any(isinstance(x_, ast.Name) and x_.id in tainted for a_ in list(n_.args) + [k_.value for k_ in n_.keywords] for x_ in ast.walk(a_)):
                parked.append(n_)
            if isinstance(n_, ast.Assign) and any(isinstance(t_, ast.Subscript) and rooted_in_container(t_.value) for t_ in n_.targets) \
                    and any(isinstance(x_, ast.Name) and x_.id in tainted for x_ in ast.walk(n_.value)):
                parked.append(n_)
        run.inst('CMP.queue-kind', r, 'items are delivered as they come out of get() (never parked in a container of the thread)', not parked,
                 '' if not parked else ('the delivery thread parks what it takes from the priority queue in a container of its own (%s) and delivers from there: a backlog is then delivered '
                                        'in the container\'s order (grouped by signal name, by subscriber, ...) instead of (priority, publication order)' % norm(parked[0])),
                 node=parked[0] if parked else None, obligation=True)
    run.assume('queue.PriorityQueue.get returns the smallest item by `<` (heapq); itertools.count.__next__ is atomic under the GIL')
