"""C24 Impossible initial transitions raise instead of hanging.

HSM-PROGRESS.loops   : every loop of init / dispatch / trans_ has a termination argument: index loops decrease an integer to a lower
                       bound; answer-steered loops end when top answers; the exit walk is bounded through I1; and each *cursor walk*
                       that climbs from an initial-transition target with SUPER queries carries a repeat-parent test (cursor unchanged by
                       the query => HsmTopologyException), compared with ==.
HSM-PROGRESS.none    : every handler answer that steers a walk (USER, EMPTY, EXIT, SUPER sites whose result is compared with a status) is
                       tested for None - raising HsmTopologyException - on every path before it is compared.
HSM-PROGRESS.sibling : the initial-transition walks of start_at (init) and of dispatch carry the same guard.
HSM-BUF.O3           : in init the first load of the entry loop has index >= 0: an initial transition to the state itself (zero-length
                       walk) must be rejected, otherwise tpath[-1] is read and the outer loop never ends.
"""
import ast
from sa.model import AnalysisError, walk_shallow, dotted, norm
from sa import hsmrules


def none_deref(model, cls, m, depth=2, seen=None):
    """an expression `self.X.<attr>` / `self.X(...)` in method m (or in a method of the same object it calls) where X is an attribute the constructors of the class set to
    None, reached without a test that X is there: the Attribute node, else None"""
    from sa.util import cfg_of
    from sa.boolflow import must_atoms
    seen = seen or set()
    if m is None or m.qualname in seen or not m.params:
        return None
    seen.add(m.qualname)
    nullable = set()
    for k in model.mro(cls):
        init = k.methods.get('__init__')
        if init is None or not init.params:
            continue
        for st in ast.walk(init.node):
            if isinstance(st, ast.Assign) and isinstance(st.value, ast.Constant) and st.value.value is None:
                for t in st.targets:
                    if isinstance(t, ast.Attribute) and isinstance(t.value, ast.Name) and t.value.id == init.params[0]:
                        nullable.add(t.attr)
    selfn = m.params[0]
    g = cfg_of(m)
    for node in g.nodes:
        if node.kind in ('entry', 'exit', 'xexit', 'def'):
            continue
        for x in node.walk():
            if isinstance(x, ast.Attribute) and isinstance(x.value, ast.Attribute) and isinstance(x.value.value, ast.Name) and x.value.value.id == selfn and x.value.attr in nullable:
                vtxt = '%s.%s' % (selfn, x.value.attr)
                atoms = must_atoms(g, node, m.node, params=m.params)
                guarded = any((l_ == vtxt and (op_ == 'Truthy' or (op_ in ('IsNot', 'NotEq') and r_ == 'None'))) or (r_ == vtxt and op_ in ('IsNot', 'NotEq') and l_ == 'None')
                              for (l_, op_, r_) in atoms)
                in_try = any(isinstance(t_, ast.Try) and any(y is x for b_ in t_.body for y in ast.walk(b_)) and
                             any(h_.type is None or any(norm(z).split('.')[-1] in ('Exception', 'BaseException', 'AttributeError') for z in ([h_.type] if not isinstance(h_.type, ast.Tuple) else h_.type.elts))
                                 for h_ in t_.handlers) for t_ in walk_shallow(m.node))
                if not guarded and not in_try:
                    return x
    if depth > 0:
        for c in walk_shallow(m.node):
            if isinstance(c, ast.Call) and isinstance(c.func, ast.Attribute) and isinstance(c.func.value, ast.Name) and c.func.value.id == selfn:
                m2 = next((k_.methods[c.func.attr] for k_ in model.mro(cls) if c.func.attr in k_.methods), None)
                r = none_deref(model, cls, m2, depth - 1, seen)
                if r is not None:
                    return r
    return None


def exceptions_propagate(run, model):
    """The exception is raised deep in init/dispatch/trans_; the user sees it only if every layer between the public call (start_at, dispatch, next_rtc,
    complete_circuit, post_*) and the processor lets it through: decorator wrappers and overriding methods.  Two ways to lose it, both visible in the syntax:
    a return/break/continue inside a `finally` (discards the exception in flight), and an `except` clause wide enough to catch it around the forwarding call
    that does not re-raise."""
    run.rule('EXC.transparent', 'no layer between the public entry points and the processor swallows an exception: no return/break/continue in a finally block, '
                                'no catch-all handler without re-raise around the forwarding call')
    layers = []
    for f in model.all_funcs():
        if f.module.name not in ('hsm', 'activeobject'):
            continue
        if f.parent is not None and f.parent.params and any(isinstance(c.func, ast.Name) and c.func.id in f.parent.params for c in ast.walk(f.node) if isinstance(c, ast.Call)):
            layers.append(f)          # a decorator's wrapper: calls the function its factory was given
        elif f.owner_class is not None and f.name in ('start_at', 'dispatch', 'next_rtc', 'complete_circuit', 'init', 'trans', 'trans_', 'post_fifo', 'post_lifo', 'recall', 'defer'):
            layers.append(f)
    run.floor('layers between the public calls and the processor', len(layers), 20)
    WIDE = {'Exception', 'BaseException', 'HsmTopologyException'}
    n_try = 0
    for f in layers:
        run.touch(f)
        for t in [n for n in walk_shallow(f.node) if isinstance(n, ast.Try)]:
            n_try += 1
            esc = [x for st in t.finalbody for x in ast.walk(st) if isinstance(x, (ast.Return, ast.Break, ast.Continue))
                   and not any(isinstance(p_, (ast.FunctionDef, ast.Lambda)) and any(y is x for y in ast.walk(p_)) for st2 in t.finalbody for p_ in ast.walk(st2))]
            # break/continue of a loop that lies wholly inside the finally block do not leave it
            esc = [x for x in esc if isinstance(x, ast.Return) or not any(isinstance(l_, (ast.For, ast.While)) and any(y is x for y in ast.walk(l_)) for st in t.finalbody for l_ in ast.walk(st))]
            run.inst('EXC.transparent', f, 'finally block does not leave the function: ' + norm(t)[:60], not esc,
                     '' if not esc else ('%s leaves its `finally` block with `%s`: an exception in flight - the HsmTopologyException raised by the processor for an impossible chart, or '
                                         'whatever a user action raised - is discarded there, the call returns normally and the step goes on (or ends) as if nothing had happened, which the '
                                         'same chart on the plain processor does not do' % (f.qualname, norm(esc[0]))),
                     node=esc[0] if esc else t, obligation=True)
            body_calls = [c for st in t.body for c in ast.walk(st) if isinstance(c, ast.Call)]
            forwards = [c for c in body_calls if (isinstance(c.func, ast.Name) and f.parent is not None and c.func.id in f.parent.params)
                        or (isinstance(c.func, ast.Attribute) and c.func.attr in ('start_at', 'dispatch', 'next_rtc', 'init', 'trans_', 'complete_circuit'))]
            if not forwards:
                continue
            for h in t.handlers:
                wide = h.type is None or any(norm(x).split('.')[-1] in WIDE for x in ([h.type] if not isinstance(h.type, ast.Tuple) else h.type.elts))
                if not wide:
                    continue
                reraises = any(isinstance(x, ast.Raise) for st in h.body for x in ast.walk(st))
                # work done before the re-raise must not be able to fail itself: an exception raised inside the handler replaces the one in flight
                if reraises and f.owner_class is not None:
                    masked = None
                    for st in h.body:
                        if isinstance(st, ast.Raise):
                            break
                        if any(isinstance(t2, ast.Try) for t2 in ast.walk(st)):
                            continue
                        for c2 in ast.walk(st):
                            if isinstance(c2, ast.Call) and isinstance(c2.func, ast.Attribute) and isinstance(c2.func.value, ast.Name) and f.params and c2.func.value.id == f.params[0]:
                                m2 = next((k_.methods[c2.func.attr] for k_ in model.mro(f.owner_class) if c2.func.attr in k_.methods), None)
                                d2 = none_deref(model, f.owner_class, m2) if m2 is not None else None
                                if d2 is not None:
                                    masked = (c2, m2, d2)
                    run.inst('EXC.transparent', f, 'clean-up before the re-raise cannot fail on an object that never started', masked is None,
                             '' if masked is None else ('%s calls %s before re-raising, and %s uses %s, which the constructor sets to None and only a successful start replaces: when the '
                                                        'forwarding call %s fails on an object that was never started, the clean-up raises AttributeError inside the handler and that '
                                                        'replaces the HsmTopologyException the caller is told to expect'
                                                        % (f.qualname, norm(masked[0]), masked[1].qualname, norm(masked[2]), norm(forwards[0]))), node=h, obligation=True)
                run.inst('EXC.transparent', f, 'catch-all around the forwarding call re-raises', reraises,
                         '' if reraises else ('%s wraps its forwarding call %s in `except %s:` without re-raising: the processor\'s HsmTopologyException ends there'
                                              % (f.qualname, norm(forwards[0]), norm(h.type) if h.type is not None else '')), node=h, obligation=True)
    run.note('try statements in the %d layers: %d' % (len(layers), n_try))



def class_attributes(model, cls):
    """names an instance of `cls` itself is sure to have: methods, class-level names and attributes stored through the receiver in methods of cls and of its bases"""
    out = set()
    for k in model.mro(cls):
        out |= set(k.methods) | set(k.consts)
        for st in k.node.body:
            if isinstance(st, ast.Assign):
                out |= {t.id for t in st.targets if isinstance(t, ast.Name)}
        for m in k.methods.values():
            if not m.params:
                continue
            for n in ast.walk(m.node):
                if isinstance(n, ast.Attribute) and isinstance(n.ctx, ast.Store) and isinstance(n.value, ast.Name) and n.value.id == m.params[0]:
                    out.add(n.attr)
                elif isinstance(n, ast.Call) and isinstance(n.func, ast.Name) and n.func.id == 'setattr' and len(n.args) == 3 and isinstance(n.args[1], ast.Constant):
                    out.add(n.args[1].value)
    return out


def exceptions_constructible(run, model):
    """EXC.constructible: the message of the HsmTopologyException is built before the raise; whatever it reads through the chart must exist on a chart of the class
    that raises (the plain HsmEventProcessor has no name, no queues, no spy buffers) - otherwise an AttributeError leaves the processor in its place"""
    run.rule('EXC.constructible', 'the arguments of a raised HsmTopologyException read only attributes that the raising class (or a base of it) defines')
    n = 0
    for f in model.all_funcs():
        k = f.owner_class
        if k is None or f.module.name != 'hsm' or not f.params:
            continue
        attrs = None
        for r in walk_shallow(f.node):
            if not (isinstance(r, ast.Raise) and r.exc is not None and any(isinstance(x, ast.Name) and x.id == 'HsmTopologyException' for x in ast.walk(r.exc))):
                continue
            n += 1
            if attrs is None:
                attrs = class_attributes(model, k)
            missing = sorted({x.attr for x in ast.walk(r.exc) if isinstance(x, ast.Attribute) and isinstance(x.ctx, ast.Load) and isinstance(x.value, ast.Name)
                              and x.value.id == f.params[0] and x.attr not in attrs})
            if missing:
                where = sorted(c.name for c in model.classes.values() if any(a in class_attributes(model, c) for a in missing) and k in model.mro(c))
            run.inst('EXC.constructible', f, 'exception arguments read only what a %s has: %s' % (k.name, norm(r.exc)[:70]), not missing,
                     '' if not missing else ('%s builds its HsmTopologyException from %s.%s, which %s and its bases never set (only %s do): on a chart of the plain class the '
                                             'attribute lookup fails first and an AttributeError leaves the processor instead of the HsmTopologyException the caller is told to expect'
                                             % (f.qualname, f.params[0], missing[0], k.name, ', '.join(where) or 'no class of the package')), node=r, obligation=True)
    run.floor('raise HsmTopologyException sites', n, 8)


def check(run, model, tier):
    run.explanation = ('Loop inventory with a termination argument per loop, a None-discipline dataflow rule over the handler-call sites, a sibling '
                       'comparison of the two initial-transition walks and the zone-domain index obligations of init. A hang or a silently wrong '
                       'walk on a malformed chart is a missing guard in the code, visible for every chart shape.')
    run.rule('HSM-PROGRESS.loops', 'each loop: decreasing index / answer-steered / I1-bounded / repeat-parent guarded cursor walk')
    run.rule('HSM-PROGRESS.none', 'walk-steering answers tested for None (-> HsmTopologyException) before comparison')
    run.rule('HSM-PROGRESS.sibling', 'init and dispatch guard their initial-transition walks alike')
    run.rule('HSM-BUF.O3-load', 'loads from the path buffer in init and dispatch are inside it (index >= 0)')
    run.rule('HSM-BUF.O1-store', 'stores into the path buffer in init are inside it')
    run.rule('HSM-BUF.O2-append', 'grow-appends in init are at the believed index')
    hsmrules.progress_rules(run, model)
    hsmrules.record_buffer_obligations(run, model, 'init')
    # the same for the initial transitions that dispatch follows after entering a target: a walk of length zero (init target is the state itself) must not
    # fall through to the entry loop with index -1 (it would enter a stale state and ask for the initial transition again, for ever)
    hsmrules.record_buffer_obligations(run, model, 'dispatch')
    exceptions_propagate(run, model)
    exceptions_constructible(run, model)
    run.assume('H1: top answers IGNORED to SUPER queries and does not move the cursor; a well-formed handler moves the cursor to its parent')
    run.rule('HSM-PROGRESS.selfinit', 'an initial transition that targets the state taking it leads to a raise before the next INIT query and before the method returns (abstract run under that assumption)')
    n_si = hsmrules.selfinit_rule(run, model)
    run.floor('INIT sites judged under the self-targeting assumption', n_si, 2)
    hsmrules.protocol_census(run, model)
