"""C24 Impossible initial transitions raise instead of hanging.

HSM-PROGRESS.loops   : every loop of init / dispatch / trans_ has a termination argument: index loops decrease an integer to a lower
                       bound; answer-steered loops end when top answers; the exit walk is bounded through I1; and each *cursor walk*
                       that climbs from an initial-transition target with SUPER queries carries a repeat-parent test (cursor unchanged by
                       the query => HsmTopologyException), compared with ==.
HSM-PROGRESS.none    : every handler answer that steers a walk (USER, EMPTY, EXIT, SUPER sites whose result is compared with a status) is
                       tested for None - raising HsmTopologyException - on every path before it is compared.
HSM-PROGRESS.sibling : the initial-transition walks of start_at (init) and of dispatch carry the same guard.
HSM-BUF.O3           : in init the first load of the entry loop has index >= 0: an initial transition to the state itself (zero-length
                       walk) must be rejected, otherwise tpath[-1] is read and the outer loop never ends.
"""
from sa import hsmrules


def check(run, model, tier):
    run.explanation = ('Loop inventory with a termination argument per loop, a None-discipline dataflow rule over the handler-call sites, a sibling '
                       'comparison of the two initial-transition walks and the zone-domain index obligations of init. A hang or a silently wrong '
                       'walk on a malformed chart is a missing guard in the code, visible for every chart shape.')
    run.rule('HSM-PROGRESS.loops', 'each loop: decreasing index / answer-steered / I1-bounded / repeat-parent guarded cursor walk')
    run.rule('HSM-PROGRESS.none', 'walk-steering answers tested for None (-> HsmTopologyException) before comparison')
    run.rule('HSM-PROGRESS.sibling', 'init and dispatch guard their initial-transition walks alike')
    run.rule('HSM-BUF.O3-load', 'loads from the path buffer in init and dispatch are inside it (index >= 0)')
    run.rule('HSM-BUF.O1-store', 'stores into the path buffer in init are inside it')
    run.rule('HSM-BUF.O2-append', 'grow-appends in init are at the believed index')
    hsmrules.progress_rules(run, model)
    hsmrules.record_buffer_obligations(run, model, 'init')
    # the same for the initial transitions that dispatch follows after entering a target: a walk of length zero (init target is the state itself) must not
    # fall through to the entry loop with index -1 (it would enter a stale state and ask for the initial transition again, for ever)
    hsmrules.record_buffer_obligations(run, model, 'dispatch')
    run.assume('H1: top answers IGNORED to SUPER queries and does not move the cursor; a well-formed handler moves the cursor to its parent')
    run.rule('HSM-PROGRESS.selfinit', 'an initial transition that targets the state taking it leads to a raise before the next INIT query and before the method returns (abstract run under that assumption)')
    n_si = hsmrules.selfinit_rule(run, model)
    run.floor('INIT sites judged under the self-targeting assumption', n_si, 2)
    hsmrules.protocol_census(run, model)
