"""C31 A rejected timed post never fires.

ORDER.reject-before-start : in the timed-post routine no path that reaches the `raise` of the
                            out-of-resources exception has started the timer thread, and no path
                            from a `start()` of that thread reaches the raise.
ORDER.reject-leaves-tracked: on every path to the raise the tracking deque is not modified.
ORDER.admit-tracks        : every path that starts the thread also appends a tracking record.
"""
import ast

from sa.model import AnalysisError, walk_shallow, dotted, norm
from sa.util import cfg_of, local_defs, shallow_calls, expand_locals, guarded_by_edge

MUTATORS = {'append', 'appendleft', 'pop', 'popleft', 'clear', 'rotate', 'remove', 'extend', 'extendleft', 'insert'}


def find_post_event(model):
    """the ActiveObject method that creates the timer thread (located by its Thread(...) whose target is a nested function)"""
    cls = model.cls('ActiveObject')
    cands = []
    for f in cls.methods.values():
        for c in shallow_calls(f.node):
            if isinstance(c.func, ast.Name) and c.func.id == 'Thread':
                tgt = [k.value for k in c.keywords if k.arg == 'target']
                if tgt and isinstance(tgt[0], ast.Name) and tgt[0].id in f.nested:
                    cands.append((f, c))
    if len(cands) != 1:
        raise AnalysisError('cannot locate the timed-post routine of ActiveObject (found %d candidates)' % len(cands))
    return cands[0]


def resolve_module_names(model, module, e, depth=4):
    """names bound once at module level are written out (copy)"""
    import copy
    e = copy.deepcopy(e)

    class R(ast.NodeTransformer):
        def visit_Name(self, n):
            v = model.module_bindings.get((module.name, n.id))
            if v is not None and isinstance(n.ctx, ast.Load):
                return copy.deepcopy(v)
            return n
    for _ in range(depth):
        e = R().visit(e)
    return e


def canon_capacity(txt, selfn='self'):
    for a, b in (('type(%s).' % selfn, selfn + '.'), (selfn + '.__class__.', selfn + '.')):
        txt = txt.replace(a, b)
    return txt


def same_capacity(run, model, f, track, capacity, own_limit=False):
    """the tracking deque is bounded (maxlen): an append to a full deque silently evicts the oldest record - a source that may still be running and can then no longer
    be found by cancel_event/cancel_events/stop.  The admission test prevents that only if the limit it compares with is the deque's own bound for *every*
    object, also of a subclass that overrides the class constant."""
    run.rule('ADMIT.same-capacity', 'the limit of the admission test is the bound (maxlen) of the tracking deque: the same expression, or the deque\'s maxlen itself')
    attr = track.split('.', 1)[1]
    cls = f.owner_class
    makers = []
    for k in [cls] + list(model.mro(cls)[1:]) if cls is not None else []:
        for m in k.methods.values():
            for n in walk_shallow(m.node):
                if isinstance(n, ast.Assign) and any(dotted(t) == m.params[0] + '.' + attr for t in n.targets if m.params):
                    makers.append((m, n))
    if not makers:
        raise AnalysisError('where %s is created was not found' % track)
    cap_txt = canon_capacity(norm(resolve_module_names(model, f.module, capacity)))
    # whose limit: the maximum belongs to the object (its class may set its own QUEUE_SIZE, as the processor's own queues honour through self.__class__); a limit read from a
    # named class is that class's number for every subclass
    parts = cap_txt.split('.')
    if own_limit and len(parts) == 2 and parts[0] in model.classes and parts[1] in model.classes[parts[0]].consts and cls is not None and model.classes[parts[0]] in model.mro(cls):
        run.rule('ADMIT.own-limit', 'the admission limit is read through the object (self.__class__.X / type(self).X / self.X / the deque\'s maxlen), not from a named base class')
        run.inst('ADMIT.own-limit', f, 'admission limit %s is the object\'s own' % cap_txt, False,
                 'the admission test compares len(%s) with %s, the constant of the named class %s: an active object whose class sets its own %s (lower) is not refused when it already '
                 'tracks its maximum number of timed sources - the post that had to raise ActiveObjectOutOfPostedEventResources is admitted and its source fires'
                 % (track, cap_txt, parts[0], parts[1]), node=capacity, obligation=True)
    for m, n in makers:
        v = n.value
        if not (isinstance(v, ast.Call) and norm(v.func).split('.')[-1] == 'deque'):
            raise AnalysisError('%s is not created as a deque (%s)' % (track, norm(n)))
        ml = next((k.value for k in v.keywords if k.arg == 'maxlen'), v.args[1] if len(v.args) > 1 else None)
        if ml is None:
            run.inst('ADMIT.same-capacity', m, '%s is unbounded' % track, True, 'no maxlen: nothing is ever evicted', node=n, obligation=True)
            continue
        ml_txt = canon_capacity(norm(resolve_module_names(model, m.module, ml)), m.params[0]).replace(m.params[0] + '.', 'self.')
        ok = cap_txt == ml_txt or cap_txt in (track + '.maxlen',)
        run.inst('ADMIT.same-capacity', f, 'admission limit %s == maxlen %s' % (cap_txt, ml_txt), ok,
                 '' if ok else ('the admission test compares len(%s) with %s, but the deque is created with maxlen=%s: for an object whose two limits differ (a subclass that sets its own '
                                'QUEUE_SIZE) a source that had to be refused is admitted and its record evicts the oldest one - that source keeps posting and neither cancel_event, '
                                'cancel_events nor stop() can reach it any more' % (track, cap_txt, ml_txt)), node=n, obligation=True)



def admission_capacity(model):
    """(function, tracking deque, capacity expression) of the admission test of the timed-post function, or None when it is not of the form len(self.X) <cmp> LIMIT"""
    f, tcall = find_post_event(model)
    g = cfg_of(f)
    raises = [n for n in g.nodes if n.kind == 'stmt' and isinstance(n.ast, ast.Raise) and n.ast.exc is not None and 'OutOfPostedEventResources' in norm(n.ast.exc)]
    for n in g.nodes:
        if n.kind == 'test' and any(guarded_by_edge(g, r_, n, lab_) for r_ in raises for lab_ in ('true', 'false')):
            x = expand_locals(n.ast, f.node, params=f.params)
            for c in ast.walk(x):
                if isinstance(c, ast.Compare) and len(c.ops) == 1 and isinstance(c.ops[0], (ast.Lt, ast.LtE, ast.Gt, ast.GtE, ast.Eq, ast.NotEq)):
                    for a_, b_ in ((c.left, c.comparators[0]), (c.comparators[0], c.left)):
                        if isinstance(a_, ast.Call) and isinstance(a_.func, ast.Name) and a_.func.id == 'len' and a_.args:
                            d = dotted(a_.args[0])
                            if d and d.startswith('self.'):
                                return f, d, b_
    return None



def check(run, model, tier):
    run.explanation = ('Path analysis (reachability / dominance on the CFG) of the timed-post routine of ActiveObject: the '
                       'admission test against the tracking capacity must decide before the timer thread exists. If any path '
                       'starts the thread and then raises, a non-deferred source posts at once on its own thread - for every '
                       'schedule, since the thread needs no further permission.')
    run.rule('ORDER.reject-before-start', 'no path through thread.start() reaches the out-of-resources raise')
    run.rule('ORDER.reject-leaves-tracked', 'no mutation of the tracking deque on a path to the raise')
    run.rule('ORDER.admit-tracks', 'every path through thread.start() appends a tracking record')
    f, tcall = find_post_event(model)
    g = cfg_of(f)
    run.touch(f, g)
    defs = local_defs(f.node)
    tvars = [k for k, v in defs.items() if any(x is tcall for x in v)]
    if len(tvars) != 1:
        raise AnalysisError('timer thread object is not bound to a single local')
    tvar = tvars[0]
    starts = [n for n in g.nodes if any(isinstance(c.func, ast.Attribute) and c.func.attr == 'start'
                                        and isinstance(c.func.value, ast.Name) and c.func.value.id == tvar for c in (n.calls() if n.kind not in ('entry', 'exit', 'xexit', 'def') else []))]
    raises = [n for n in g.nodes if n.kind == 'stmt' and isinstance(n.ast, ast.Raise) and n.ast.exc is not None
              and 'OutOfPostedEventResources' in norm(n.ast.exc)]
    run.floor('timer thread start sites', len(starts), 1)
    run.floor('out-of-resources raise sites', len(raises), 1)
    # tracking deque: the deque attribute whose length the admission test reads
    track = None
    capacity = None
    xtest = {n: expand_locals(n.ast, f.node, params=f.params) for n in g.nodes if n.kind == 'test'}
    for n in g.nodes:
        if n.kind == 'test' and any(guarded_by_edge(g, r_, n, lab_) for r_ in raises for lab_ in ('true', 'false')):
            for c in ast.walk(xtest[n]):
                if isinstance(c, ast.Compare) and len(c.ops) == 1 and isinstance(c.ops[0], (ast.Lt, ast.LtE, ast.Gt, ast.GtE, ast.Eq, ast.NotEq)):
                    for a_, b_ in ((c.left, c.comparators[0]), (c.comparators[0], c.left)):
                        if isinstance(a_, ast.Call) and isinstance(a_.func, ast.Name) and a_.func.id == 'len' and a_.args:
                            d = dotted(a_.args[0])
                            if d and d.startswith('self.'):
                                track = d
                                capacity = b_
    if track is not None and capacity is not None:
        same_capacity(run, model, f, track, capacity, own_limit=True)
    if track is None:
        # the tracking deque located independently: the self attribute that receives the PostedEvent record
        recs = [c for c in shallow_calls(f.node) if isinstance(c.func, ast.Attribute) and c.func.attr in ('append', 'appendleft') and (dotted(c.func.value) or '').startswith('self.')
                and c.args and 'PostedEvent' in norm(expand_locals(c.args[0], f.node, params=f.params))]
        if not recs:
            recs = [c for c in shallow_calls(f.node) if isinstance(c.func, ast.Attribute) and c.func.attr in ('append', 'appendleft') and (dotted(c.func.value) or '').startswith('self.')
                    and c.args and isinstance(c.args[0], ast.Name) and any(isinstance(d_, ast.AST) and 'PostedEvent' in norm(d_) for d_ in defs.get(c.args[0].id, []))]
        captests = [n for n in g.nodes if n.kind == 'test' and any(guarded_by_edge(g, r_, n, lab_) for r_ in raises for lab_ in ('true', 'false'))]
        if recs and captests:
            track = dotted(recs[0].func.value)
            run.rule('ADMIT.capacity', 'the admission test compares the length of the tracking deque itself with its capacity')
            run.inst('ADMIT.capacity', f, 'admission test measures len(%s)' % track, False,
                     'the admission test is %s: it does not compare the length of the tracking deque %s with its capacity. The deque is bounded (maxlen = the same capacity), so when it is '
                     'full and the test admits one more source, the post that had to be rejected fires, and the append evicts the oldest record - a source that may still be '
                     'running and can then no longer be cancelled or stopped' % (norm(captests[0].ast), track), node=captests[0].ast, obligation=True)
        else:
            raise AnalysisError('admission test `len(self.<tracking deque>) <cmp> QUEUE_SIZE` not found')
    for r in raises:
        for s in starts:
            bad = g.exists_path(s, r)
            run.inst('ORDER.reject-before-start', f, 'start→raise', not bad,
                     'the timer thread is started (%s) on a path that then raises the out-of-resources exception: '
                     'the rejected source is already running and, if not deferred, posts immediately' % s.text(), node=s.ast, obligation=True)
        # tracked untouched before the raise
        before = g.reachable(r, forward=False)
        muts = [n for n in before if n.kind not in ('entry', 'exit', 'xexit', 'def') and
                any(isinstance(c.func, ast.Attribute) and c.func.attr in MUTATORS and dotted(c.func.value) == track for c in n.calls())]
        run.inst('ORDER.reject-leaves-tracked', f, 'tracking deque unmodified before raise', not muts,
                 'the tracking deque is modified on a path to the rejection' if muts else '', node=r.ast, obligation=True)
    # "the sources already tracked keep running": a run flag cleared on the way to the rejection is the one this call created - by reaching definitions, not by name
    run.rule('ORDER.reject-clears-own', 'on a path to the rejection only the run flag created by this very call is cleared')
    from sa.hsmsites import reaching_defs as _rd
    rd_, valmap_ = _rd(g, f.params)
    n_cl = 0
    for r in raises:
        before = g.reachable(r, forward=False)
        for n in before:
            if n.kind in ('entry', 'exit', 'xexit', 'def'):
                continue
            for c in n.calls():
                if isinstance(c.func, ast.Attribute) and c.func.attr == 'clear' and isinstance(c.func.value, ast.Name):
                    nm = c.func.value.id
                    ds = rd_[n].get(nm, set())
                    vals = [valmap_.get(d) for d in ds]
                    own = bool(vals) and all(isinstance(v, ast.Call) and norm(v.func).split('.')[-1] in ('ThreadEvent', 'Event', 'SourceThreadEvent') for v in vals)
                    if any('is_set' in norm(x) or 'Event' in norm(v) for v in vals if isinstance(v, ast.AST) for x in [v]) or not own:
                        n_cl += 1
                        run.inst('ORDER.reject-clears-own', f, 'clear of %s before the rejection' % nm, own,
                                 '' if own else ('on the way to the out-of-resources rejection %s.clear() is called, and the name %s does not only stand for the run flag this call created: '
                                                 'it has been rebound (%s) - the flag that is cleared belongs to a source that is already tracked and running, which stops posting while it '
                                                 'stays in the tracking deque' % (nm, nm, ', '.join(sorted('a loop/unpacking target' if v is None else norm(v)[:60] for v in vals)))),
                                 node=c, obligation=True)
                elif isinstance(c.func, ast.Attribute) and c.func.attr == 'clear' and 'task_run_event' in norm(c.func.value):
                    n_cl += 1
                    run.inst('ORDER.reject-clears-own', f, 'clear of %s before the rejection' % norm(c.func.value), False,
                             'on the way to the rejection the run flag of a tracked record (%s) is cleared' % norm(c.func.value), node=c, obligation=True)
    # nothing that posts may run on a path that ends in the rejection (a helper that makes the source's first activation, called before the admission test)
    from sa.context import callgraph
    cg = callgraph(model)
    run.rule('ORDER.reject-no-post', 'no call that can reach post_fifo/post_lifo lies on a path to the out-of-resources raise')
    posters = {}
    for (t_, c_, how_) in cg.edges.get(f, []):
        if isinstance(t_, str):
            continue
        reach = cg.reach([t_])
        hit = [x for x in reach if x.name in ('post_fifo', 'post_lifo', '_post_fifo', '_post_lifo') or
               any(isinstance(cc.func, ast.Attribute) and cc.func.attr in ('append', 'appendleft') and (dotted(cc.func.value) or '').endswith('.queue') for cc in shallow_calls(x.node))]
        if hit:
            posters[id(c_)] = (c_, t_, hit[0])
    for r in raises:
        before = g.reachable(r, forward=False)
        bad = []
        for n in before:
            if n.kind in ('entry', 'exit', 'xexit', 'def'):
                continue
            for c in n.calls():
                if id(c) in posters:
                    bad.append((n, posters[id(c)]))
        run.inst('ORDER.reject-no-post', f, 'no posting call before the rejection', not bad,
                 '' if not bad else ('on a path that ends in the out-of-resources rejection %s is called, which reaches %s: the rejected source posts its event (from the caller\'s thread) before '
                                     'the exception is raised' % (norm(bad[0][1][0]), bad[0][1][2].qualname)), node=bad[0][0].ast if bad else r.ast, obligation=True)
    appends = [n for n in g.nodes if n.kind not in ('entry', 'exit', 'xexit', 'def') and
               any(isinstance(c.func, ast.Attribute) and c.func.attr == 'append' and dotted(c.func.value) == track for c in n.calls())]
    run.floor('tracking append sites', len(appends), 1)
    for s in starts:
        # every path entry -> exit through s passes an append
        w = lambda n: 1 if n in appends else 0
        a = g.count_on_paths(w, start=g.entry, end=s)
        b = g.count_on_paths(w, start=s, end=g.exit)
        mn = (a[0] if a else 0) + (b[0] if b else 0)
        run.inst('ORDER.admit-tracks', f, 'start implies tracked', mn >= 1,
                 'a path starts the timer thread without recording it in the tracking deque: cancel/stop cannot reach it', node=s.ast, obligation=True)
        # the admission test dominates the start
        tests = [n for n in g.nodes if n.kind == 'test' and ('len(%s)' % track) in norm(xtest[n]) and any(guarded_by_edge(g, r_, n, lab_) for r_ in raises for lab_ in ('true', 'false'))]
        dom = any(g.dominates(t, s) for t in tests)
        run.inst('ORDER.reject-before-start', f, 'admission test dominates start', dom,
                 'thread.start() is not dominated by the capacity test', node=s.ast, obligation=True)
    run.assume('Thread.start() makes the target runnable immediately; nothing else gates the first post when deferred is False')
