"""C26 Event.dumps/Event.loads round-trip name and payload.

TABLE.json-keys     : the set of keys `dumps` writes into the serialised mapping equals the set of keys `loads`
                      reads from it; `dumps` fills the name key from the event's signal name and the payload key
                      from the event's payload; neither side carries the signal *number*.
TABLE.json-rebuild  : `loads` constructs the Event from the value read under the name key (signal=<name>) and the
                      value read under the payload key, and returns it; both sides use the json dumps/loads pair.
Not decided: equality of the payload after the trip (semantics of json over runtime values).
"""
import ast

from sa.model import AnalysisError, walk_shallow, dotted, norm
from sa.util import local_defs, resolve_name, const_str, shallow_calls, depends_on


def check(run, model, tier):
    run.explanation = ('Writer/reader table agreement for Event.dumps / Event.loads: keys written versus keys read, provenance of each '
                       'value (signal name, payload, never the process-local signal number) and the constructor wiring in loads, by '
                       'local dataflow. This is the structural necessary condition of the round trip for every name and payload; '
                       'payload equality itself is a property of json over runtime values and is not decided.')
    run.rule('TABLE.json-keys', 'keys written by dumps == keys read by loads == {name key, payload key}; values come from signal_name / payload')
    run.rule('TABLE.json-rebuild', 'loads rebuilds Event(signal=<name read>, payload=<payload read>) and returns it')
    ev = model.cls('Event')
    dumps, loads = ev.methods.get('dumps'), ev.methods.get('loads')
    if dumps is None or loads is None:
        raise AnalysisError('Event.dumps / Event.loads not found')
    run.touch(dumps)
    run.touch(loads)
    evp = dumps.params[0]
    ddefs = local_defs(dumps.node)
    # the json.dumps call and its argument
    jd = [c for c in shallow_calls(dumps.node) if dotted(c.func) in ('json.dumps',)]
    if len(jd) != 1:
        raise AnalysisError('Event.dumps: expected one json.dumps call, found %d' % len(jd))
    arg = resolve_name(jd[0].args[0], ddefs)
    written = {}
    if isinstance(arg, ast.Dict):
        for k, v in zip(arg.keys, arg.values):
            ks = const_str(k)
            if ks is None:
                raise AnalysisError('Event.dumps: non-literal key in the serialised mapping')
            written[ks] = v
    else:
        raise AnalysisError('Event.dumps: serialised object is not a dict literal (unknown idiom)')
    # subscript stores into the same dict
    if isinstance(jd[0].args[0], ast.Name):
        dn = jd[0].args[0].id
        for n in walk_shallow(dumps.node):
            if isinstance(n, ast.Assign):
                for t in n.targets:
                    if isinstance(t, ast.Subscript) and isinstance(t.value, ast.Name) and t.value.id == dn:
                        ks = const_str(t.slice)
                        if ks is None:
                            raise AnalysisError('Event.dumps: non-literal key store')
                        written[ks] = n.value
    # is the dumps result returned?
    ret_ok = any(isinstance(n, ast.Return) and n.value is not None and (n.value is jd[0] or resolve_name(n.value, ddefs) is jd[0])
                 for n in walk_shallow(dumps.node))
    run.inst('TABLE.json-keys', dumps, 'returns json.dumps(mapping)', ret_ok, 'dumps does not return the serialised mapping', node=jd[0])

    def provenance(v):
        """which attributes of the event parameter does the value derive from"""
        attrs = set()
        todo = [v]
        seen = set()
        while todo:
            e = todo.pop()
            if isinstance(e, tuple):
                e = e[1]
                if not isinstance(e, ast.AST):
                    continue
            for n in ast.walk(e):
                if isinstance(n, ast.Attribute) and isinstance(n.value, ast.Name) and n.value.id == evp:
                    attrs.add(n.attr)
                if isinstance(n, ast.Name) and n.id not in seen and n.id != evp:
                    seen.add(n.id)
                    todo.extend(ddefs.get(n.id, []))
        return attrs
    prov = {k: provenance(v) for k, v in written.items()}
    name_keys = [k for k, p in prov.items() if p == {'signal_name'}]
    payload_keys = [k for k, p in prov.items() if p == {'payload'}]
    ok = len(name_keys) == 1 and len(payload_keys) == 1 and len(written) == 2
    run.inst('TABLE.json-keys', dumps, 'written keys ' + ','.join('%s<-%s' % (k, '+'.join(sorted(p)) or 'const') for k, p in sorted(prov.items())), ok,
             '' if ok else 'dumps must write exactly one key fed only by event.signal_name and one fed only by event.payload; got %s'
             % {k: sorted(p) for k, p in prov.items()}, node=jd[0], obligation=True)
    for k, p in prov.items():
        run.inst('TABLE.json-keys', dumps, 'key %s does not carry the signal number' % k, 'signal' not in p,
                 'the process-local signal number is serialised under %r: numbers differ between processes' % k, node=jd[0], obligation=True)
    # ---- loads
    ldefs = local_defs(loads.node)
    jl = [c for c in shallow_calls(loads.node) if dotted(c.func) in ('json.loads',)]
    if len(jl) == 0:
        # the decoding may sit in a helper that the normaliser left alone because it is decorated: a memoising decorator there is the defect itself
        for c_ in shallow_calls(loads.node):
            if isinstance(c_.func, ast.Name):
                hf = model.funcs.get('event.' + c_.func.id) if hasattr(model, 'funcs') else None
                if hf is None:
                    hf = next((f_ for f_ in model.all_funcs() if f_.name == c_.func.id and f_.module.name == 'event' and f_.owner_class is None), None)
                if hf is not None and any(dotted(x.func) == 'json.loads' for x in shallow_calls(hf.node)):
                    decos = [norm(d_) for d_ in hf.node.decorator_list]
                    memo = [d_ for d_ in decos if any(k_ in d_ for k_ in ('lru_cache', 'cache', 'memoize', 'memoise'))]
                    run.rule('TABLE.json-plain', 'json.dumps / json.loads are called without hooks that rewrite values, and every loads() call decodes afresh')
                    run.inst('TABLE.json-plain', loads, 'every Event.loads call decodes its text afresh', not memo,
                             '' if not memo else ('Event.loads decodes through %s, which is memoised (%s): events loaded from equal text share one payload object, so a receiver that changes '
                                                  'its payload in place changes what every later loads() of that text returns - the round trip no longer gives an equal payload'
                                                  % (hf.qualname, ', '.join(memo))), node=c_, obligation=True)
                    if memo:
                        return
    if len(jl) != 1:
        raise AnalysisError('Event.loads: expected one json.loads call, found %d' % len(jl))
    # the codec is trusted to be an inverse pair only in its plain form: a decoding/encoding hook rewrites the payload itself
    run.rule('TABLE.json-plain', 'json.dumps / json.loads are called without hooks that rewrite values (object_hook, object_pairs_hook, cls, parse_*, default)')
    HOOKS = {'object_hook', 'object_pairs_hook', 'cls', 'parse_float', 'parse_int', 'parse_constant', 'default'}
    n_codec = 0
    for f_, calls_ in ((dumps, jd), (loads, jl)):
        for c_ in calls_:
            n_codec += 1
            hooks = sorted(k.arg for k in c_.keywords if k.arg in HOOKS or k.arg is None)
            run.inst('TABLE.json-plain', f_, '%s without value-rewriting hooks' % norm(c_.func), not hooks,
                     '' if not hooks else ('%s is called with %s: the hook is applied to every nested JSON object/number, not only to the envelope, so a payload that happens to contain '
                                           'such a value (for example a dict with the envelope\'s own keys) does not come back equal' % (norm(c_.func), ', '.join(h or '**kwargs' for h in hooks))),
                     node=c_, obligation=True)
    run.floor('json codec calls in Event.dumps/loads', n_codec, 2)
    dvar = [k for k, v in ldefs.items() if any(x is jl[0] for x in v)]
    if len(dvar) != 1:
        raise AnalysisError('Event.loads: the decoded mapping is not bound to one local')
    dvar = dvar[0]
    reads = {}
    for n in walk_shallow(loads.node):
        if isinstance(n, ast.Subscript) and isinstance(n.value, ast.Name) and n.value.id == dvar and isinstance(n.ctx, ast.Load):
            ks = const_str(n.slice)
            if ks is None:
                raise AnalysisError('Event.loads: non-literal key read')
            reads.setdefault(ks, []).append(n)
        if isinstance(n, ast.Call) and isinstance(n.func, ast.Attribute) and n.func.attr == 'get' and isinstance(n.func.value, ast.Name) \
                and n.func.value.id == dvar and n.args:
            ks = const_str(n.args[0])
            if ks is None:
                raise AnalysisError('Event.loads: non-literal key read')
            reads.setdefault(ks, []).append(n)
    ok = set(reads) == set(written)
    run.inst('TABLE.json-keys', loads, 'read keys %s == written keys %s' % (sorted(reads), sorted(written)), ok,
             '' if ok else 'loads reads %s but dumps writes %s' % (sorted(reads), sorted(written)), node=jl[0], obligation=True)
    # constructor wiring
    ctors = [c for c in shallow_calls(loads.node) if isinstance(c.func, ast.Name) and c.func.id == 'Event']
    if len(ctors) != 1:
        raise AnalysisError('Event.loads: expected one Event(...) construction, found %d' % len(ctors))
    c = ctors[0]
    sig = None
    pay = None
    for kw in c.keywords:
        if kw.arg == 'signal':
            sig = kw.value
        if kw.arg == 'payload':
            pay = kw.value
    if sig is None and c.args:
        sig = c.args[0]
    if pay is None and len(c.args) > 1:
        pay = c.args[1]

    def key_of(expr):
        e = resolve_name(expr, ldefs) if expr is not None else None
        for k, nodes in reads.items():
            if any(e is n for n in nodes):
                return k
        return None
    def derived_from(expr):
        """keys whose read is a proper sub-expression of the (resolved) argument: the value is computed from the stored one; whether it is still that value is
        for the evaluation below to say, not for the key table"""
        e = resolve_name(expr, ldefs) if expr is not None else None
        return sorted(k for k, nodes in reads.items() if e is not None and any(x is n for n in nodes for x in ast.walk(e) if x is not e))
    ks, kp = key_of(sig), key_of(pay)
    ok = bool(name_keys) and ks == name_keys[0]
    if ok or ks is not None or not derived_from(sig):
        run.inst('TABLE.json-rebuild', loads, 'Event(signal=<%s>)' % ks, ok,
                 '' if ok else 'loads builds the event\'s signal from key %r, but the name was written under %r' % (ks, name_keys), node=c, obligation=True)
    ok = bool(payload_keys) and kp == payload_keys[0]
    if ok or kp is not None or not derived_from(pay):
        run.inst('TABLE.json-rebuild', loads, 'Event(payload=<%s>)' % kp, ok,
                 '' if ok else 'loads builds the event\'s payload from key %r, but the payload was written under %r' % (kp, payload_keys), node=c, obligation=True)
    ret_ok = any(isinstance(n, ast.Return) and n.value is not None and resolve_name(n.value, ldefs) is c for n in walk_shallow(loads.node))
    run.inst('TABLE.json-rebuild', loads, 'returns the rebuilt event', ret_ok, 'loads does not return the event it rebuilt', node=c)
    # Event.__init__ with a str registers/looks up the number (C25 checks the registry itself)
    init = ev.methods.get('__init__')
    regs = [x for x in shallow_calls(init.node) if isinstance(x.func, ast.Attribute) and x.func.attr == 'append' and dotted(x.func.value) == 'signals']
    run.inst('TABLE.json-rebuild', init, 'Event(str) registers the name', len(regs) >= 1, 'Event.__init__ no longer registers an unseen name', nontrivial=False)
    # ---- the two functions composed, on a small domain of payloads: what the table rules cannot see is *which* value reaches a key on which path
    # (a payload dropped when it is falsy, a local left unbound for an event without payload)
    run.rule('TABLE.roundtrip-eval', 'loads(dumps(e)) evaluated for payloads None / falsy / scalar / nested: the rebuilt event is constructed from the same name and an equal payload')
    import json as _json
    from sa import pureeval
    json_obj = pureeval.Obj(dumps=_json.dumps, loads=_json.loads)
    built = []

    def fake_event(signal=None, payload=None):
        o = pureeval.Obj(signal_name=signal, payload=payload, signal=99)
        built.append(o)
        return o
    payloads = [None, 'p', 7, 0, '', False, [], {}, {'k': [1, 'x', None]}, [1, [2, 3]], 1.5]
    # the event handed to dumps is a real Event: its own (pure) methods are available to the evaluated code
    emethods = {k: f_.node for k, f_ in ev.methods.items() if k not in ('__init__', 'dumps', 'loads')}
    bad = None
    # any string is a signal name, and names are never canonicalised: 'GO ' and 'GO' are two signals
    names = ['SIG_A', ' padded ', 'tab\t', 'line\n', '', 'two words', 'quote"s', 'h\u00e9llo', 'UPPER_lower']
    cases = [('SIG_A', P) for P in payloads] + [(N, 'p') for N in names[1:]]
    try:
        for N, P in cases:
            e0 = pureeval.Obj(signal_name=N, payload=P, signal=42, __world__=True)
            try:
                text = pureeval.call(dumps.node, [e0], globals_=dict(pureeval.module_constants(model, ev.module), json=json_obj), strict_locals=True, methods=emethods)
                del built[:]
                back = pureeval.call(loads.node, [text], globals_=dict(pureeval.module_constants(model, ev.module), json=json_obj, Event=fake_event), strict_locals=True)
                got = (getattr(back, 'signal_name', '<no event>'), getattr(back, 'payload', '<no event>')) if isinstance(back, pureeval.Obj) else ('<%r>' % (back,), None)
            except pureeval.Raised as ex_:
                got = ('raises ' + ex_.what, None)
            if (got[0] != N or got[1] != P or type(got[1]) is not type(P)) and bad is None:
                bad = (N, P, got)
        run.inst('TABLE.roundtrip-eval', dumps, 'loads(dumps(e)) over %d payloads and %d signal names' % (len(payloads), len(names)), bad is None,
                 '' if bad is None else ('for an event named %r with payload %r the trip gives the name %r and the payload %r: the receiving process registers/looks up a different signal '
                                         'or sees a different payload than was sent' % (bad[0], bad[1], bad[2][0], bad[2][1])), obligation=True)
    except AnalysisError as ex_:
        # the table rules alone cannot see which value reaches a key on which path (see the `sweep-payload-*` mutants): without the evaluation the property is not decided
        raise AnalysisError('Event.dumps/loads cannot be followed by the evaluator (%s): the round trip is not decided' % ex_)
    run.assume('json.dumps/json.loads are inverse on JSON-representable payloads (stdlib)')
