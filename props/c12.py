"""C12 stop() ends the active object's thread and its timed sources.

ORDER.stop        : in stop(): clear the object's run flag, then post the wake-up item to the object's own queue, then join the
                    thread, then cancel every tracked timed source - each step dominates the next; the only exception swallowed
                    around the join is RuntimeError (stop() called from the object's own thread: the join is skipped, nothing else).
SNAPSHOT.cancel   : the cancel-all loop iterates a snapshot of the tracking deque (cancel_events pops/rotates the live deque) and
                    passes each tracked record to cancel_events, which matches it by signal name and clears its run flag.
CONSUMER.exit     : the thread loop re-reads the run flag every iteration and the stop item clears it without being dispatched.
SCOPE.stop        : stop() touches only this object's own fields (run flag, queue, thread, tracking deque) - never the fabric,
                    the fabric run event or the writer.
ATOMIC.timer-post : (open finding, shared with C11) one post of a cancelled source may follow stop().
"""
import ast

from sa.model import AnalysisError, walk_shallow, dotted, norm
from sa.util import cfg_of, shallow_calls, signal_const, local_defs, resolve_name, expand_locals, strip_not
from sa.context import callgraph, effects
from sa import queues
from props.c11 import timer_runner


def check(run, model, tier):
    run.explanation = ('Must-precede (dominance) analysis of ActiveObject.stop, snapshot/alias analysis of its cancel-all loop, the exit conditions '
                       'of the thread loop, and the write set of stop() over attribute paths. The orderings decide for every interleaving whether the '
                       'join can hang (wake-up after the flag) and whether every tracked source is told to stop.')
    run.rule('ORDER.stop', 'clear flag < wake-up post < join < cancel-all; only RuntimeError skips the join')
    run.rule('SNAPSHOT.cancel', 'cancel-all iterates a snapshot and hands each record to cancel_events')
    run.rule('CONSUMER.exit', 'loop guard re-reads the run flag; the stop item clears it and is not dispatched')
    run.rule('SCOPE.stop', 'stop writes only own run flag / queue / thread / tracking deque')
    run.rule('ATOMIC.timer-post', 'timer test-and-post atomic with cancel (open finding)')
    # stop() finds the sources to cancel in the tracking deque: a thread that pops/rotates it concurrently can evict a record stop() has not cancelled yet
    from props.c11 import confine_tracking
    confine_tracking(run, model)
    ao = model.cls('ActiveObject')
    stop = ao.methods.get('stop')
    if stop is None:
        raise AnalysisError('ActiveObject.stop not found')
    g = cfg_of(stop)
    run.touch(stop, g)
    selfn = stop.params[0]

    def nodes(pred):
        return [n for n in g.nodes if n.kind not in ('entry', 'exit', 'xexit', 'def') and any(pred(c) for c in n.calls())]
    clear = nodes(lambda c: isinstance(c.func, ast.Attribute) and c.func.attr == 'clear' and dotted(c.func.value) == selfn + '.activeobject_task_event')
    wake = nodes(lambda c: isinstance(c.func, ast.Attribute) and c.func.attr in ('append', 'appendleft', 'post_fifo', 'post_lifo') and
                 (dotted(c.func.value) in (selfn + '.queue', selfn + '.locking_deque', selfn)) and
                 any(signal_const(x) == 'STOP_ACTIVE_OBJECT_SIGNAL' for x in ast.walk(c)))
    # (the thread may be read into a local first: `thread = self.thread` ... `thread.join()`)
    jdefs_ = local_defs(stop.node) if 'local_defs' in globals() else __import__('sa.util', fromlist=['local_defs']).local_defs(stop.node)
    thread_locals = {k_ for k_, v_ in jdefs_.items() if any(isinstance(d_, ast.AST) and dotted(d_) == selfn + '.thread' for d_ in v_)}
    join = nodes(lambda c: isinstance(c.func, ast.Attribute) and c.func.attr == 'join' and (dotted(c.func.value) == selfn + '.thread' or
                                                                                         (isinstance(c.func.value, ast.Name) and c.func.value.id in thread_locals)))
    cancel = nodes(lambda c: isinstance(c.func, ast.Attribute) and c.func.attr in ('cancel_events', 'cancel_event') and dotted(c.func.value) == selfn)
    for what, lst in (('run-flag clear', clear), ('join', join), ('cancel-all call', cancel)):
        run.floor('stop(): %s sites' % what, len(lst), 1)
    if not wake:
        run.inst('ORDER.stop', stop, 'wake-up posted before the join', False,
                 'stop() posts no wake-up item to the object\'s queue: the thread is blocked waiting for a token and join() never returns', obligation=True)
        return
    if not clear:
        run.inst('ORDER.stop', stop, 'run flag cleared before the join', False, 'stop() does not clear the object\'s run flag: the thread never leaves its loop', obligation=True)
        return
    if not join or not cancel:
        raise AnalysisError('stop(): the join of the object\'s thread / the cancellation of its timed sources was not located (unknown shape)')
    c0, w0, j0, x0 = clear[0], wake[0], join[0], cancel[0]
    ok = g.dominates(c0, w0)
    run.inst('ORDER.stop', stop, 'run flag cleared before the wake-up item is posted', ok,
             '' if ok else 'the wake-up item is posted before the run flag is cleared: the thread may consume it, see the flag still set, and block again - join() never returns', obligation=True)
    ok = g.dominates(w0, j0)
    run.inst('ORDER.stop', stop, 'wake-up posted before the join', ok,
             '' if ok else 'join() is reached before the wake-up item is posted: the thread is blocked waiting for a token and join() never returns', obligation=True)
    ok = g.dominates(c0, j0)
    run.inst('ORDER.stop', stop, 'run flag cleared before the join', ok, 'join before the flag is cleared', obligation=True)
    # cancel-all after the join on the normal path, and reached on every path (also via the RuntimeError handler)
    ok = g.postdominates(x0, c0) or all(g.exists_path(c0, x) for x in cancel)
    loopheads = [h for h in g.loop_heads() if h.kind == 'for' and x0 in g.loop_body(h)]
    if not loopheads:
        raise AnalysisError('stop(): the cancel-all call is not inside a for loop')
    lh = loopheads[0]
    ok = g.postdominates(lh, c0)
    run.inst('ORDER.stop', stop, 'every path of stop() reaches the cancel-all loop', ok,
             '' if ok else 'a path of stop() returns without cancelling the tracked timed sources', obligation=True)
    ok = not g.exists_path(lh, j0) and g.exists_path(j0, lh)
    run.inst('ORDER.stop', stop, 'sources are cancelled after the thread was joined', ok, 'cancel-all runs before the join', obligation=True)
    # the exception handler around join
    handlers = [n for n in g.nodes if n.kind == 'except']
    for hnode in handlers:
        ty = hnode.ast.type
        ok = ty is not None and norm(ty) == 'RuntimeError'
        run.inst('ORDER.stop', stop, 'only RuntimeError is swallowed around the join', ok,
                 '' if ok else 'stop() swallows %s around the join' % (norm(ty) if ty is not None else 'every exception'), node=hnode.ast, obligation=True)
    trys = [n for n in walk_shallow(stop.node) if isinstance(n, ast.Try)]
    for tr in trys:
        in_try = [c for s in tr.body for c in ast.walk(s) if isinstance(c, ast.Call)]
        ok = len(tr.body) == 1 and any(isinstance(c.func, ast.Attribute) and c.func.attr == 'join' for c in in_try)
        run.inst('ORDER.stop', stop, 'the try protects the join only', ok, 'more than the join is skipped when stop() runs on the object\'s own thread', node=tr, obligation=True)
    # ---- SNAPSHOT
    it = lh.stmt.iter
    defs = local_defs(stop.node)
    src = resolve_name(it, defs)
    track = selfn + '.posted_events_queue'
    snap = False
    if isinstance(src, ast.ListComp) and len(src.generators) == 1 and dotted(src.generators[0].iter) == track and not src.generators[0].ifs \
            and isinstance(src.elt, ast.Name) and isinstance(src.generators[0].target, ast.Name) and src.elt.id == src.generators[0].target.id:
        snap = True
    if isinstance(src, ast.Call) and norm(src.func) in ('list', 'tuple') and src.args and dotted(src.args[0]) == track:
        snap = True
    if isinstance(src, ast.Call) and isinstance(src.func, ast.Attribute) and src.func.attr == 'copy' and dotted(src.func.value) == track:
        snap = True
    if isinstance(it, ast.Name) and isinstance(src, ast.List) and not src.elts:
        # an empty list filled element by element from the tracking deque before the cancel loop starts: the same copy, spelled as a loop
        fills = [x for x in walk_shallow(stop.node) if isinstance(x, ast.For) and x is not lh.stmt and dotted(x.iter) == track and isinstance(x.target, ast.Name) and not x.orelse
                 and len(x.body) == 1 and isinstance(x.body[0], ast.Expr) and isinstance(x.body[0].value, ast.Call) and isinstance(x.body[0].value.func, ast.Attribute)
                 and x.body[0].value.func.attr == 'append' and isinstance(x.body[0].value.func.value, ast.Name) and x.body[0].value.func.value.id == it.id
                 and len(x.body[0].value.args) == 1 and isinstance(x.body[0].value.args[0], ast.Name) and x.body[0].value.args[0].id == x.target.id]
        others = [x for x in shallow_calls(stop.node) if isinstance(x.func, ast.Attribute) and isinstance(x.func.value, ast.Name) and x.func.value.id == it.id
                  and not any(x is fl_.body[0].value for fl_ in fills)]
        fnodes = [m_ for m_ in g.nodes if m_.kind == 'for' and any(m_.stmt is fl_ for fl_ in fills)]
        if len(fills) == 1 and not others and fnodes and g.exists_path(fnodes[0], lh) and not g.exists_path(lh, fnodes[0]):
            snap = True
    live = dotted(src) == track
    run.inst('SNAPSHOT.cancel', stop, 'cancel-all iterates a snapshot of the tracking deque', snap,
             '' if snap else ('the cancel-all loop iterates %s: cancel_events pops and rotates that deque while it is being iterated '
                              '(RuntimeError "deque mutated during iteration", or sources skipped)' % norm(it)) if live else 'cancel-all iterates %s, not the tracked sources' % norm(it),
             node=lh.stmt, obligation=True)
    # the snapshot is taken after the thread has ended: a step still in flight may arm a new timed source, which an earlier snapshot misses
    snapnodes = [lh]
    if isinstance(it, ast.Name):
        snapnodes = [m_ for m_ in g.nodes if m_.kind == 'stmt' and isinstance(m_.ast, ast.Assign) and any(isinstance(t_, ast.Name) and t_.id == it.id for t_ in m_.ast.targets)]
    ok = bool(snapnodes) and all(g.exists_path(j0, m_) and not g.exists_path(m_, j0) for m_ in snapnodes)
    run.inst('SNAPSHOT.cancel', stop, 'the snapshot of the tracked sources is taken after the join', ok,
             '' if ok else ('the list of timed sources to cancel is read before the object\'s thread has been joined: a handler that is still running when stop() is called can arm a '
                            'new timed source after the snapshot; it is never cancelled and keeps posting after stop() has returned'),
             node=snapnodes[0].ast if snapnodes and snapnodes[0].kind == 'stmt' else lh.stmt, obligation=True)
    tv = lh.stmt.target.id if isinstance(lh.stmt.target, ast.Name) else None
    for n in cancel:
        for c in n.calls():
            if isinstance(c.func, ast.Attribute) and c.func.attr == 'cancel_events':
                ok = len(c.args) == 1 and isinstance(c.args[0], ast.Name) and c.args[0].id == tv
                run.inst('SNAPSHOT.cancel', stop, 'each tracked record is handed to cancel_events', ok, 'cancel_events receives %s' % norm(c), node=c, obligation=True)
    # the record type has the field cancel_events matches on
    ce = ao.methods.get('cancel_events')
    from sa.util import namedtuple_fields as _ntf
    rec_fields = _ntf(model, 'PostedEvent')
    ok = rec_fields is not None and 'signal_name' in rec_fields and 'task_run_event' in rec_fields
    run.inst('SNAPSHOT.cancel', ce, 'tracked records carry signal_name and task_run_event', ok, 'record fields are %s' % rec_fields, obligation=True)
    # ---- CONSUMER.exit
    re_ = ao.methods.get('run_event')
    gr = cfg_of(re_)
    run.touch(re_, gr)
    heads = [h for h in gr.loop_heads() if h.kind == 'test']
    if len(heads) > 1:
        # the thread loop is the outermost one (inner loops are the business of C04: one step per token)
        heads = [h for h in heads if not any(h in gr.loop_body(o) for o in heads if o is not h)]
    if len(heads) != 1:
        raise AnalysisError('run_event: loop not found')
    h = heads[0]
    ok = 'is_set' in norm(h.ast) and isinstance(h.ast, ast.Call)
    run.inst('CONSUMER.exit', re_, 'thread loop guard re-reads the run flag', ok, 'loop guard is %s' % norm(h.ast), node=h.ast, obligation=True)
    xt = {t: expand_locals(t.ast, re_.node, params=re_.params) for t in gr.nodes if t.kind == 'test'}
    stops = [t for t in gr.nodes if t.kind == 'test' and any(signal_const(x) == 'STOP_ACTIVE_OBJECT_SIGNAL' for x in ast.walk(xt[t]))]
    if len(stops) != 1:
        raise AnalysisError('run_event: stop-signal test not found')
    st = stops[0]
    sta, stpol = strip_not(xt[st])
    neq = (isinstance(sta, ast.Compare) and isinstance(sta.ops[0], (ast.NotEq, ast.IsNot))) == stpol
    stop_label = 'false' if neq else 'true'
    succ = [m for m, l in gr.succ[st] if l == stop_label]
    flagp = norm(h.ast.func.value) if isinstance(h.ast, ast.Call) and isinstance(h.ast.func, ast.Attribute) else None
    clears = [n for n in gr.nodes if n.kind not in ('entry', 'exit', 'xexit', 'def') and
              any(isinstance(c.func, ast.Attribute) and c.func.attr == 'clear' and norm(c.func.value) == flagp for c in n.calls())]
    steps = [n for n in gr.nodes if n.kind not in ('entry', 'exit', 'xexit', 'def') and any(isinstance(c.func, ast.Attribute) and c.func.attr == 'next_rtc' for c in n.calls())]
    cc = queues.count(gr, clears, start=succ[0], end=h) if succ else None
    sc = queues.count(gr, steps, start=succ[0], end=h) if succ else None
    ok = cc is not None and cc[0] >= 1 and sc == (0, 0)
    run.inst('CONSUMER.exit', re_, 'the stop item clears the run flag and is not dispatched', ok,
             '' if ok else 'on the stop item the thread clears its flag %s times and steps %s times' % (cc, sc), node=st.ast, obligation=True)
    # stop() clears the run flag; the thread must notice before it takes another step: every way from one step to the next passes a test of the run flag
    flagtests = {t for t in gr.nodes if t.kind == 'test' and flagp and any(isinstance(x, ast.Call) and isinstance(x.func, ast.Attribute) and x.func.attr == 'is_set'
                                                                            and norm(x.func.value) == flagp for x in ast.walk(t.ast))}

    def next_step_avoiding(a):
        seen, todo = {a}, [a]
        while todo:
            n = todo.pop()
            for m, _l in gr.succ[n]:
                if m in flagtests:
                    continue
                if m in steps:
                    return m
                if m in seen:
                    continue
                seen.add(m)
                todo.append(m)
        return None
    for sn in steps:
        hit = next_step_avoiding(sn)
        run.inst('CONSUMER.exit', re_, 'the run flag is re-read between two steps', hit is None,
                 '' if hit is None else ('after a step (%s) the consumer thread can take the next step without testing its run flag %s in between: a stop() issued by a handler while more '
                                         'events are queued behind it does not end the thread after the current step - the queued events are dispatched anyway'
                                         % (norm(sn.ast if sn.kind == 'stmt' else sn.stmt)[:40], flagp)), node=sn.ast if sn.kind == 'stmt' else None, obligation=True)
    # the stop item is compared on the head of the queue the consumer pops from
    st_txt = norm(expand_locals(st.ast, re_.node))
    ok = '[0]' in st_txt and queues.consumer_end(model) == 'left'
    if not ok and queues.consumer_end(model) == 'left':
        # the inspected element may arrive through a local with several definitions (an inlined observer: `x = None` when empty, `x = self.queue[0]` otherwise): every
        # definition that reaches the test is the head of the queue, or None on a branch the guards of the test exclude (the queue is known non-empty there)
        from sa.hsmsites import reaching_defs as _rd
        from sa.boolflow import must_atoms as _ma
        rd_, valmap_ = _rd(gr, re_.params)
        names_ = [x.id for x in ast.walk(st.ast) if isinstance(x, ast.Name) and x.id not in re_.params]
        vals_ = [valmap_.get(d_) for nm_ in names_ for d_ in rd_[st].get(nm_, set())]
        heads_ = [v_ for v_ in vals_ if isinstance(v_, ast.AST) and '[0]' in norm(v_)]
        nones_ = [v_ for v_ in vals_ if isinstance(v_, ast.Constant) and v_.value is None]
        nonempty_ = any(a_[0].startswith('len(') and ((a_[1] == 'GtE' and a_[2] == '1') or (a_[1] in ('Gt', 'NotEq') and a_[2] == '0')) for a_ in _ma(gr, st, re_.node, params=re_.params))
        ok = bool(heads_) and len(heads_) + len(nones_) == len(vals_) and (not nones_ or nonempty_)
    run.inst('CONSUMER.exit', re_, 'the stop test looks at the element next_rtc would pop', ok, 'stop test inspects %s' % norm(st.ast), node=st.ast, obligation=True)
    # ---- SCOPE
    fx = effects(model)
    allowed = ('activeobject_task_event', 'queue', 'locking_deque', 'thread', 'posted_events_queue')
    bad = []
    for (path, org, ln, how) in fx.writes(stop):
        if path.startswith('<'):
            # locals holding tracked records: record.task_run_event.clear()
            if 'task_run_event' in path or path in ('<registered-callback>', '<state-handler>'):
                continue
            # a container created in stop() itself (a literal bound to a local there) is private to the call
            lname = path[1:].split('>')[0]
            ldefs = [d_ for d_ in local_defs(stop.node).get(lname, []) if isinstance(d_, ast.AST)]
            if ldefs and all(isinstance(d_, (ast.List, ast.Dict, ast.Set, ast.ListComp)) or (isinstance(d_, ast.Call) and norm(d_.func) in ('list', 'dict', 'set', 'deque')) for d_ in ldefs):
                continue
            bad.append('%s (%s, %s)' % (path, how, org))
        elif not any(path == a or path.startswith(a + '.') for a in allowed):
            bad.append('%s (%s, %s)' % (path, how, org))
    run.inst('SCOPE.stop', stop, 'stop writes only its own thread/queue/flag/tracking state', not bad,
             '' if not bad else 'stop() also modifies %s: other active objects or the fabric are affected' % sorted(set(bad)), obligation=True)
    for c in shallow_calls(stop.node):
        d = dotted(c.func) or ''
        if d.startswith(selfn + '.fabric.') or d.startswith(selfn + '.writer.') or 'FiberThreadEvent' in d or d.startswith(selfn + '.fabric_task_event.'):
            run.inst('SCOPE.stop', stop, 'call ' + d, False, 'stop() calls %s: stopping one object affects the fabric / other objects' % d, node=c, obligation=True)
    # ---- open finding shared with C11
    t, sf, sc_ = timer_runner(model)
    gt = cfg_of(t)
    posts = [n for n in gt.nodes if n.kind not in ('entry', 'exit', 'xexit', 'def') and any(isinstance(c.func, ast.Attribute) and c.func.attr in ('post_fifo', 'post_lifo') for c in n.calls())]
    withs = [n for n in gt.nodes if n.kind == 'with']
    if posts:
        locked = any(gt.dominates(w_, posts[0]) for w_ in withs)
        run.inst('ATOMIC.timer-post', t, 'test-and-post under a lock shared with cancel', locked,
                 '' if locked else 'a timed source whose run flag stop() clears between the timer\'s is_set() test and its post still posts one event after stop() returned',
                 obligation=True)
    # a source whose flag stop() cleared while it slept must not fire when it wakes
    run.rule('ORDER.timer-retest', 'the timer re-tests its run flag between its sleep and its post')
    from props.c11 import timer_retest
    timer_retest(run, gt, t, posts, rule='ORDER.timer-retest')
    # a source can only be cancelled while its record is in the (bounded) tracking deque: the admission limit must be the deque's own bound
    from props.c31 import admission_capacity, same_capacity
    ac_ = admission_capacity(model)
    if ac_ is not None:
        same_capacity(run, model, *ac_)
    run.assume('Thread.join() returns when the target returns; posting the stop item wakes the consumer (token protocol: C04)')
