"""C11 Cancelling a timed source stops exactly that source, for good.

IDENT.cancel-match : the tracked record is matched against the caller's id / signal name with `==`, never with `is`
                     (an equal id or name rebuilt from text or received over a network is a different object).
SCAN.visit-once    : the rotate/pop scan of the tracking deque runs len(deque) iterations and each iteration does exactly one
                     of pop() (matched) / rotate(1) (not matched) on the element it inspected ([-1]); so every tracked source is
                     inspected exactly once and the survivors keep their order.
SCAN.clear-matched : a source's run flag is cleared only on the matched branch, before its record is dropped.
CONFINE.tracking   : the tracking deque is mutated only from the caller's / the object's own thread: no timer, fabric or writer
                     thread can reach a function that pops, rotates, appends or clears it (the scans above are unlocked).
ATOMIC.timer-post  : (open finding) the timer thread's "still running?" test and its post are not one critical section
                     with cancel's clear(): one post may follow a cancel that already returned.
"""
import ast

from sa.model import AnalysisError, walk_shallow, dotted, norm
from sa.util import cfg_of, guarded_by_edge, shallow_calls, expand_locals, strip_not, local_defs
from sa import ident, queues
from sa.context import callgraph


def timer_runner(model):
    cg = callgraph(model)
    ao = model.cls('ActiveObject')
    for f, ts, c in cg.spawns:
        for t in ts:
            if t.parent is not None and t.parent.owner_class is ao and t.parent.name != '__start' and f.owner_class is ao and t.name != 'start_thread':
                if 'post_event' in t.qualname:
                    return t, f, c
    raise AnalysisError('timer thread function not found')


def confine_tracking(run, model):
    """shared with C12: stop() finds the sources to cancel in the same tracking deque"""
    # CONFINE: the unsynchronised scan is only safe while no other thread of the package touches the tracking deque
    from sa.context import effects
    from sa import threads
    cg = callgraph(model)
    fx = effects(model)
    run.rule('CONFINE.tracking', 'no thread root of the package other than the object\'s own thread mutates the tracking deque')
    n_roots = 0
    for sf_, root, c_ in threads.spawn_roots(model, cg):
        if root.name == 'run_event':
            continue
        n_roots += 1
        bad = sorted({'%s: %s' % (f_.qualname, how) for f_, path, how, node in threads.root_writes(model, cg, fx, root) if path.split('.')[0] == 'posted_events_queue'})
        run.inst('CONFINE.tracking', root, 'thread root %s does not touch the tracking deque' % root.name, not bad,
                 '' if not bad else ('the thread started in %s can reach %s: cancel_event/cancel_events scan the tracking deque with an unlocked inspect-[-1]-then-pop/rotate loop '
                                     'that is only correct while nobody else rotates or pops it; a concurrent rotation makes the scan skip the source being cancelled, which then '
                                     'keeps posting' % (sf_.qualname, bad)), obligation=True)
    run.floor('thread roots checked for confinement of the tracking deque', n_roots, 4)


def unique_source_id(run, model):
    """the id recorded for a timed source (and returned to the caller) is a fresh value: cancel_event(id) stops the *first* record whose id is equal,
    so two live sources with equal ids make it stop the wrong one and leave the intended one running"""
    from sa.util import namedtuple_fields, ctor_fields
    run.rule('UNIQUE.source-id', 'the id recorded for a timed source comes from a source of fresh values (uuid4/uuid1/next(counter)), not from data that can repeat')
    ao = model.cls('ActiveObject')
    pe = next((m_ for n_, m_ in ao.methods.items() if n_.endswith('__post_event')), None)
    if pe is None:
        raise AnalysisError('ActiveObject.__post_event not found')
    run.touch(pe)
    tracked = [c for c in shallow_calls(pe.node) if isinstance(c.func, (ast.Attribute, ast.Name)) and norm(c.func).split('.')[-1] == 'PostedEvent']
    pfields = namedtuple_fields(model, 'PostedEvent') or []
    if not tracked or 'uuid' not in pfields:
        raise AnalysisError('tracking record construction (PostedEvent with a uuid field) not found in __post_event')
    n = 0
    for tc in tracked:
        idarg = ctor_fields(tc, pfields).get('uuid')
        if idarg is None:
            raise AnalysisError('the uuid field of the tracking record is not given at %s' % norm(tc))
        # the definitions of the id expression inside __post_event: local definitions, or assignments to the same attribute path
        defs = []
        if isinstance(idarg, ast.Name):
            defs = [v for v in (local_defs_of(pe, idarg.id)) if v is not None]
        elif dotted(idarg) is not None:
            for a in walk_shallow(pe.node):
                if isinstance(a, ast.Assign) and any(dotted(t) == dotted(idarg) for t in a.targets):
                    defs.append(a.value)
        else:
            defs = [idarg]
        if not defs:
            raise AnalysisError('no definition of the timed-source id %s found in __post_event' % norm(idarg))
        for v in defs:
            n += 1
            v2 = expand_locals(v, pe.node, params=pe.params)
            fresh = [c for c in ast.walk(v2) if isinstance(c, ast.Call) and is_fresh_source(c, model, pe)]
            cut = [sb for sb in ast.walk(v2) if isinstance(sb, ast.Subscript) and any(any(x is c for x in ast.walk(sb.value)) for c in fresh)]
            ok = bool(fresh) and not cut
            run.inst('UNIQUE.source-id', pe, 'id of a timed source: %s' % norm(v), ok,
                     '' if ok else ('the id of a timed source is %s, which %s: two sources alive at the same time can get equal ids (for example after an older one was cancelled, '
                                    'or for equal names), and cancel_event(id) then stops the first match - the wrong source - while the intended one keeps posting'
                                    % (norm(v), 'truncates the fresh value' if cut else 'contains no fresh value (uuid4/uuid1/next(counter))')), node=v, obligation=True)
    run.floor('definitions of the timed-source id', n, 1)


def local_defs_of(f, name):
    out = []
    for a in walk_shallow(f.node):
        if isinstance(a, ast.Assign):
            for t in a.targets:
                if isinstance(t, ast.Name) and t.id == name:
                    out.append(a.value)
    return out


def is_fresh_source(c, model, f):
    fn = norm(c.func)
    if fn in ('uuid.uuid4', 'uuid.uuid1', 'uuid4', 'uuid1', 'secrets.token_hex', 'secrets.token_urlsafe', 'secrets.token_bytes'):
        return True
    if fn == 'next' and c.args:
        # next(<counter>) where the counter is bound to itertools.count(...) somewhere in the package
        tgt = norm(c.args[0]).split('.')[-1]
        for m_ in model.modules.values() if isinstance(model.modules, dict) else model.modules:
            for a in ast.walk(m_.tree):
                if isinstance(a, ast.Assign) and isinstance(a.value, ast.Call) and norm(a.value.func) in ('itertools.count', 'count') and \
                        any(norm(t).split('.')[-1] == tgt for t in a.targets):
                    return True
    return False


def cancel_callers(run, model, rule='WHO.cancel'):
    """absent a call of cancel_event/cancel_events by the client or of stop(), nothing in the package cancels a timed source: the only caller of the two cancel
    methods inside the package is ActiveObject.stop().  (cancel_events matches by signal *name*: a housekeeping call made by the library itself for one source
    silences every other source of the same signal.)  Shared by C10 (exactly n postings absent cancellation) and C11 (the other sources keep running)."""
    run.rule(rule, 'inside the package cancel_event/cancel_events are called only by ActiveObject.stop()')
    n = 0
    from sa.normalise import baseline_names
    known = baseline_names()
    refs = {}
    for g_ in model.all_funcs():
        for y in ast.walk(g_.node):
            if isinstance(y, ast.Attribute):
                refs[y.attr] = refs.get(y.attr, 0) + 1
            elif isinstance(y, ast.Name) and isinstance(y.ctx, ast.Load):
                refs[y.id] = refs.get(y.id, 0) + 1
    for f in model.all_funcs():
        top_ = f
        while top_.parent is not None:
            top_ = top_.parent
        if top_.qualname not in known and not refs.get(top_.name):
            continue        # a new entry point nothing in the package calls (close(), __exit__, a `with ao.posting(..)` helper): the client's own, explicit cancellation
        for c in shallow_calls(f.node):
            if isinstance(c.func, ast.Attribute) and c.func.attr in ('cancel_event', 'cancel_events'):
                n += 1
                ok = f.name == 'stop' and f.owner_class is not None and f.owner_class.name == 'ActiveObject'
                # giving back the slot of the very source whose thread could not be started (`except: self.cancel_event(uuid=thread.name); raise`) cancels nothing that runs
                if not ok:
                    for t_ in ast.walk(f.node):
                        if isinstance(t_, ast.Try):
                            for h_ in t_.handlers:
                                if h_.body and isinstance(h_.body[-1], ast.Raise) and any(x_ is c for b_ in h_.body for x_ in ast.walk(b_)) \
                                        and any(isinstance(y_, ast.Call) and isinstance(y_.func, ast.Attribute) and y_.func.attr == 'start' for b_ in t_.body for y_ in ast.walk(b_)) \
                                        and c.func.attr == 'cancel_event':
                                    ok = True
                run.inst(rule, f, '%s calls %s' % (f.qualname, norm(c.func)), ok,
                         '' if ok else ('%s cancels timed sources on its own (%s): cancel_events stops every source that posts the same signal name, cancel_event the first source with an equal id - a '
                                        'source that was neither cancelled by the client nor stopped ends early and posts fewer events than requested' % (f.qualname, norm(c))), node=c, obligation=True)
    run.floor('package-internal callers of cancel_event/cancel_events', n, 1)


def flag_before_tracking(run, model, rule='ORDER.flag-before-track'):
    """the run flag of a new timed source is raised before the source becomes visible in the tracking deque, and never again afterwards: once it is tracked, cancel_event /
    cancel_events / stop() may clear the flag at any moment, and a later set() would switch a cancelled source back on for good (its record is already gone)"""
    run.rule(rule, 'the run flag of a timed source is set before its record is appended to the tracking deque and not after')
    ao = model.cls('ActiveObject')
    pe = next((m_ for n_, m_ in ao.methods.items() if n_.endswith('__post_event')), None)
    if pe is None:
        raise AnalysisError('ActiveObject.__post_event not found')
    g = cfg_of(pe)
    track = pe.params[0] + '.posted_events_queue'
    appends = [n for n, c, m in queues.ops_on(g, track, {'append', 'appendleft'}, fnode=pe.node)]
    # the flag object: a local bound to a threading.Event that is handed to the tracking record / the thread spec
    flags = {t.id for a in walk_shallow(pe.node) if isinstance(a, ast.Assign) and isinstance(a.value, ast.Call) and norm(a.value.func).split('.')[-1] in ('ThreadEvent', 'Event')
             for t in a.targets if isinstance(t, ast.Name)}
    sets = [n for n in g.nodes if n.kind not in ('entry', 'exit', 'xexit', 'def') and
            any(isinstance(c.func, ast.Attribute) and c.func.attr == 'set' and isinstance(c.func.value, ast.Name) and c.func.value.id in flags for c in n.calls())]
    run.floor('tracking append sites in __post_event', len(appends), 1)
    run.floor('run-flag set sites in __post_event', len(sets), 1)
    for s_ in sets:
        late = [a for a in appends if a is s_ or g.exists_path(a, s_)]
        run.inst(rule, pe, 'run flag raised before the source is tracked: %s' % s_.text()[:50], not late,
                 '' if not late else ('the run flag of the new source is set after its record was appended to the tracking deque: a cancel_events/cancel_event/stop() that runs in between '
                                      'removes the record and returns, then the flag is raised and the thread started - the cancelled source posts for ever and nothing can reach it any more'),
                 node=s_.ast, obligation=True)
    for a in appends:
        ok = any(g.dominates(s_, a) for s_ in sets)
        run.inst(rule, pe, 'a tracked source has its run flag up', ok, '' if ok else 'a source is tracked on a path on which its run flag was never raised', node=a.ast, obligation=True)


def timer_retest(run, g, t, posts, rule='SCAN.clear-matched'):
    # the re-test after the sleep exists and dominates the posts
    retests = [x for x in g.nodes if x.kind == 'test' and x.label != 'loop' and 'is_set' in norm(x.ast)]
    sleeps = [n for n in g.nodes if n.kind not in ('entry', 'exit', 'xexit', 'def') and any(norm(c.func).split('.')[-1] in ('sleep', 'wait') for c in n.calls())]
    run.floor('timer sleep sites', len(sleeps), 1)

    def reaches_avoiding(a, b, avoid):
        seen, todo = {a}, [a]
        while todo:
            n = todo.pop()
            for m, _l in g.succ[n]:
                if m is b:
                    return True
                if m in seen or m in avoid:
                    continue
                seen.add(m)
                todo.append(m)
        return False
    for p in posts:
        # a re-test whose "still set" edge guards the post, and that lies on every way from the sleep to the post
        good = []
        for x in retests:
            inner_, pol_ = strip_not(x.ast)
            # `X.is_set()` / `X.is_set() is True` / `X.is_set() is not True`
            set_label = 'true' if pol_ else 'false'
            if isinstance(inner_, ast.Compare) and len(inner_.ops) == 1 and isinstance(inner_.comparators[0], ast.Constant) and isinstance(inner_.comparators[0].value, bool):
                same = isinstance(inner_.ops[0], (ast.Is, ast.Eq)) == bool(inner_.comparators[0].value)
                set_label = ('true' if same else 'false') if pol_ else ('false' if same else 'true')
            if guarded_by_edge(g, p, x, set_label) and all(not reaches_avoiding(s_, p, {x}) for s_ in sleeps):
                good.append(x)
        ok = bool(good)
        run.inst(rule, t, 'timer re-tests its run flag after sleeping, before posting', ok,
                 '' if ok else 'the timer posts after its sleep without re-testing the run flag: a source cancelled while sleeping still fires', node=p.ast, obligation=True)


def check(run, model, tier):
    run.explanation = ('Operator census (identity vs equality) and loop-shape/path-count analysis of ActiveObject.cancel_event/cancel_events, '
                       'plus a lockset look at the timer thread\'s test-then-post. Matching by equality and inspecting each tracked record '
                       'exactly once are properties of the code for every set of sources and every way of obtaining an id.')
    run.rule('IDENT.cancel-match', 'id / signal name compared with ==, not is')
    run.rule('SCAN.visit-once', 'len(deque) iterations; each inspects [-1] and does exactly one of pop() / rotate(1)')
    run.rule('SCAN.clear-matched', 'task_run_event.clear() only on the matched branch')
    run.rule('ATOMIC.timer-post', 'timer: is_set() test and post inside one critical section with cancel (open finding)')
    ao = model.cls('ActiveObject')
    for nm, field, stops in (('cancel_event', 'uuid', True), ('cancel_events', 'signal_name', False)):
        f = ao.methods.get(nm)
        if f is None:
            raise AnalysisError('ActiveObject.%s not found' % nm)
        g = cfg_of(f)
        run.touch(f, g)
        selfn = f.params[0]
        track = selfn + '.posted_events_queue'
        # ---- the match test
        matches = []
        for t in g.nodes:
            if t.kind != 'test':
                continue
            xa, xpol = strip_not(expand_locals(t.ast, f.node, params=f.params))
            if isinstance(xa, ast.Compare) and len(xa.ops) == 1:
                l, r = xa.left, xa.comparators[0]
                if any(isinstance(x, ast.Attribute) and x.attr == field for x in (l, r)) or (field == 'uuid' and any(isinstance(x, ast.Name) and x.id == f.params[1] for x in (l, r))):
                    matches.append((t, xa, xpol))
        if len(matches) != 1:
            raise AnalysisError('%s: the match test on %s was not found' % (nm, field))
        mt, mta, mpol = matches[0]
        op = type(mta.ops[0])
        if op in (ast.NotEq, ast.IsNot):
            # `a != b` guards the unmatched branch: same as `not (a == b)`
            op = {ast.NotEq: ast.Eq, ast.IsNot: ast.Is}[op]
            mpol = not mpol
        M_TRUE, M_FALSE = ('true', 'false') if mpol else ('false', 'true')
        ok = op in (ast.Eq,)
        run.inst('IDENT.cancel-match', f, 'match on %s uses ==' % field, ok,
                 '' if ok else ('%s matches the tracked %s with `%s`: an equal %s that is a different object (rebuilt from text, received over a network, or '
                                'any str not interned) matches nothing, the source keeps posting' % (nm, field, {ast.Is: 'is', ast.IsNot: 'is not', ast.NotEq: '!='}.get(op, '?'), field)),
                 node=mt.ast, obligation=True)
        # the compared sides: tracked record field vs the caller's argument
        l, r = mta.left, mta.comparators[0]
        sides = sorted([norm(l), norm(r)])
        fdefs_ = local_defs(f.node)

        def from_arg(x, depth=4):
            """x mentions the caller's argument, or is a local every definition of which is computed from it (`name = e if isinstance(e, str) else e.signal_name`)"""
            if any(isinstance(y, ast.Name) and y.id == f.params[1] for y in ast.walk(x)):
                return True
            if isinstance(x, ast.Name) and depth > 0:
                ds = fdefs_.get(x.id, [])
                return bool(ds) and all(isinstance(d_, ast.AST) and from_arg(d_, depth - 1) for d_ in ds)
            return False
        arg_side = [x for x in (l, r) if from_arg(x)]
        run.inst('IDENT.cancel-match', f, 'compares the record with the caller\'s argument', len(arg_side) == 1, 'match does not involve the argument: %s' % sides, node=mt.ast, obligation=True)
        # ---- the scan
        heads = [h for h in g.loop_heads() if h.kind in ('for', 'test')]
        if len(heads) != 1:
            raise AnalysisError('%s: expected one loop scanning the tracking deque' % nm)
        h = heads[0]
        if h.kind == 'for':
            it = norm(expand_locals(h.stmt.iter, f.node, params=f.params))
            ok = it in ('reversed(range(len(%s)))' % track, 'range(len(%s))' % track)
            run.inst('SCAN.visit-once', f, 'runs len(tracked) iterations', ok,
                     '' if ok else 'the scan iterates %s, not once per tracked source' % it, node=h.stmt, obligation=True)
            body_start = [m for m, l2 in g.succ[h] if l2 == 'iter'][0]
        else:
            # countdown form: n = len(tracked) taken once before the loop; while n > 0: n -= 1 (exactly once per iteration, nothing else writes n)
            from sa.util import compare_parts as _cp
            cp = _cp(h.ast)
            cnt_v = None
            if cp and isinstance(cp[0], ast.Name) and isinstance(cp[2], ast.Constant) and ((cp[1] is ast.Gt and cp[2].value == 0) or (cp[1] is ast.GtE and cp[2].value == 1) or (cp[1] is ast.NotEq and cp[2].value == 0)):
                cnt_v = cp[0].id
            elif cp and isinstance(cp[2], ast.Name) and isinstance(cp[0], ast.Constant) and cp[1] is ast.Lt and cp[0].value == 0:
                cnt_v = cp[2].id
            if cnt_v is None:
                raise AnalysisError('%s: the scan loop `while %s` is not a countdown of a snapshot of len(%s)' % (nm, norm(h.ast), track))
            body = g.loop_body(h)
            writes = [n for n in g.nodes if n.kind == 'stmt' and isinstance(n.ast, (ast.Assign, ast.AugAssign)) and
                      any(isinstance(x, ast.Name) and x.id == cnt_v and isinstance(x.ctx, ast.Store) for tg in (n.ast.targets if isinstance(n.ast, ast.Assign) else [n.ast.target]) for x in ast.walk(tg))]
            inits = [n for n in writes if n not in body]
            decs = [n for n in writes if n in body]
            init_ok = len(inits) == 1 and isinstance(inits[0].ast, ast.Assign) and norm(expand_locals(inits[0].ast.value, f.node, params=f.params)) == 'len(%s)' % track and g.dominates(inits[0], h)
            dec_ok = bool(decs) and all(isinstance(d.ast, ast.AugAssign) and isinstance(d.ast.op, ast.Sub) and isinstance(d.ast.value, ast.Constant) and d.ast.value.value == 1 for d in decs)
            body_start = [m for m, l2 in g.succ[h] if l2 == 'true'][0]
            per = queues.count(g, decs, start=body_start, end=h)
            ok = init_ok and dec_ok and per == (1, 1)
            run.inst('SCAN.visit-once', f, 'runs len(tracked) iterations', ok,
                     '' if ok else ('the scan `while %s` does not run once per tracked source: the counter must be a snapshot of len(%s) taken before the loop and go down by exactly one per '
                                    'iteration (initialised ok: %s, decrements per iteration: %s)' % (norm(h.ast), track, init_ok, per)), node=h.ast, obligation=True)
        pops = queues.ops_on(g, track, {'pop', 'popleft'}, fnode=f.node)
        rots = queues.ops_on(g, track, {'rotate'}, fnode=f.node)
        nodes = [n for n, c, m in pops + rots]
        # per iteration (to the loop head or out through a break): exactly one of pop/rotate
        cnt_back = queues.count(g, nodes, start=body_start, end=h)
        ok = cnt_back == (1, 1)
        run.inst('SCAN.visit-once', f, 'each iteration does exactly one of pop()/rotate(1)', ok,
                 '' if ok else 'an iteration of the scan performs %s pop/rotate operations: tracked sources are skipped or inspected twice' % (cnt_back,), obligation=True)
        for n, c, m in pops:
            ok = m == 'pop' and not c.args and guarded_by_edge(g, n, mt, M_TRUE)
            run.inst('SCAN.visit-once', f, 'pop() drops the inspected (right-most) record on a match', ok, 'pop is %s / not on the matched branch' % norm(c), node=c, obligation=True)
        for n, c, m in rots:
            ok = len(c.args) == 1 and isinstance(c.args[0], ast.Constant) and c.args[0].value == 1 and guarded_by_edge(g, n, mt, M_FALSE)
            run.inst('SCAN.visit-once', f, 'rotate(1) keeps an unmatched record', ok, 'rotate is %s / not on the unmatched branch' % norm(c), node=c, obligation=True)
        insp = [s for s in walk_shallow(f.node) if isinstance(s, ast.Subscript) and dotted(expand_locals(s.value, f.node, params=f.params)) == track]
        ok = bool(insp) and all(isinstance(s.slice, ast.UnaryOp) and isinstance(s.slice.op, ast.USub) and isinstance(s.slice.operand, ast.Constant) and s.slice.operand.value == 1 for s in insp)
        run.inst('SCAN.visit-once', f, 'inspects the right-most record [-1]', ok, 'the inspected element is not the one pop()/rotate(1) acts on', obligation=True)
        brks = [n for n in g.nodes if n.kind == 'stmt' and (isinstance(n.ast, ast.Break) or (isinstance(n.ast, ast.Return) and n in g.loop_body(h)))]
        for b in brks:
            ok = guarded_by_edge(g, b, mt, M_TRUE)
            run.inst('SCAN.visit-once', f, 'leaves the scan early only after a match', ok, 'break on the unmatched branch ends the scan before every source was inspected', node=b.ast, obligation=True)
        if not stops:
            run.inst('SCAN.visit-once', f, 'cancel_events inspects every source (no early exit)', not brks,
                     'cancel_events stops at the first match: other sources with the same name keep posting', obligation=True)
        # ---- clear only matched
        clears = [(n, c) for n in g.nodes if n.kind not in ('entry', 'exit', 'xexit', 'def') for c in n.calls()
                  if isinstance(c.func, ast.Attribute) and c.func.attr == 'clear' and 'task_run_event' in norm(c.func.value)]
        run.floor('%s: run-flag clear sites' % nm, len(clears), 1)
        for n, c in clears:
            ok = guarded_by_edge(g, n, mt, M_TRUE)
            run.inst('SCAN.clear-matched', f, 'run flag cleared only for a matched source', ok,
                     '' if ok else 'a source\'s run flag is cleared without the match test having succeeded: other sources are stopped too', node=c, obligation=True)
        mcnt = queues.count(g, [n for n, c in clears], start=[m for m, l2 in g.succ[mt] if l2 == M_TRUE][0], end=h)
        if mcnt is None:
            mcnt = queues.count(g, [n for n, c in clears], start=[m for m, l2 in g.succ[mt] if l2 == M_TRUE][0])
        ok = mcnt is not None and mcnt[0] >= 1
        run.inst('SCAN.clear-matched', f, 'a matched source is always stopped', ok, 'a matched record can be dropped without clearing its run flag', obligation=True)
    confine_tracking(run, model)
    unique_source_id(run, model)
    cancel_callers(run, model)
    flag_before_tracking(run, model)
    # ---- timer: test-then-post atomicity
    t, sf, sc = timer_runner(model)
    g = cfg_of(t)
    run.touch(t, g)
    posts = [n for n in g.nodes if n.kind not in ('entry', 'exit', 'xexit', 'def') and any(isinstance(c.func, ast.Attribute) and c.func.attr in ('post_fifo', 'post_lifo') for c in n.calls())]
    run.floor('timer post sites', len(posts), 2)
    withs = [n for n in g.nodes if n.kind == 'with']
    for p in posts:
        locked = any(g.dominates(w_, p) for w_ in withs)
        run.inst('ATOMIC.timer-post', t, 'test-and-post under a lock shared with cancel', locked,
                 '' if locked else ('the timer thread tests task_run_event.is_set() and posts in two steps with no lock shared with cancel_event/cancel_events: '
                                    'a cancel that clears the flag between the test and the post returns, and one more event is posted afterwards'),
                 obligation=True)
        break
    timer_retest(run, g, t, posts)
    # a source can only be cancelled while its record is in the (bounded) tracking deque: the admission limit must be the deque's own bound
    from props.c31 import admission_capacity, same_capacity
    ac_ = admission_capacity(model)
    if ac_ is not None:
        same_capacity(run, model, *ac_)
    run.assume('threading.Event.clear/is_set are atomic; the tracking deque is only used from the caller\'s and the object\'s threads')
