"""C16 Pending-event queues stay bounded, never block, and keep lifo posts.

BOUND.buffers   : every deque the package creates (pending, deferred, tracking, spy/trace rings) has a named class-constant
                  maxlen; the active object's token queue has the same capacity as its deque.
ENDS.locking    : LockingDeque.append/appendleft add their item at the same-named end of the inner deque exactly once on
                  *every* path - including the path taken when the token queue is full; pop/popleft/len forward.
TOKEN.guarded   : every blocking put of a wake-up token is guarded by "not full" or "tokens < items" (a post cannot block);
                  a repair test follows every add; repair loops are monotone.
TOKEN.clear     : clear() empties the deque, drains the tokens, and calls task_done only after a get that succeeded.
ENDS.post       : for plain queued charts post_fifo/post_lifo add at the right/left of a bounded deque (eviction at the
                  opposite end keeps the new event).
"""
from sa import queues


def check(run, model, tier):
    run.explanation = ('Constructor census (capacity), per-path end-label analysis of LockingDeque including its overflow branch, and guard '
                       'analysis of the wake-up token protocol. "Never blocks" and "keeps the new event" are decided per path of the code, so '
                       'they cover empty, partly filled and full queues without constructing them.')
    run.rule('BOUND.buffers', 'every deque has a class-constant maxlen; token capacity == deque capacity')
    run.rule('ENDS.locking', 'LockingDeque add/remove methods forward to the same-named end on every path, adding the item exactly once')
    run.rule('TOKEN.guarded', 'blocking token puts are guarded; a repair test follows every add; repair loops use <')
    run.rule('TOKEN.clear', 'clear(): deque cleared, tokens drained, task_done only after a successful get')
    run.rule('ENDS.post', 'post_fifo right / post_lifo left relative to the consumer end')
    queues.check_bounds(run, model, 'BOUND.buffers')
    info = queues.check_locking_deque(run, model, 'ENDS.locking', 'TOKEN.guarded', 'BOUND.buffers')
    queues.check_clear(run, model, 'TOKEN.clear', info)
    E = queues.consumer_end(model)
    queues.check_post_ends(run, model, 'ENDS.post', E)
    run.assume('a deque with maxlen evicts from the end opposite to the insertion; Queue.put blocks only when full')
