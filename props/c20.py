"""C20 The trace has one record per transition and none for other steps.

TRACE.at-most-one     : start_at's trace wrapper and dispatch's trace wrapper each append at most one record per call (path count),
                        only when instrumented; the start record is (top, start_at, <state reflected after the start walk>).
TRACE.transition-only : a step record is appended only under `hooked is False and event.ignored is False`, after the wrapped step,
                        with the start state reflected before the step and the end state after it; rtc.tuples is cleared before the
                        step so only this step's tuples are inspected.
TRACE.outcome-visible : every non-transition outcome of a step is visible to that guard: IGNORED sets event.ignored (reset at the
                        start of every dispatch, set only on the IGNORED branch); HANDLED is visible as a hook tuple - so every
                        handler *of the package* that is not wrapped by spy_on (the `top` overrides) and can return HANDLED must
                        record a hook tuple itself on that path.
RING.right-end        : the trace ring is bounded and only appended at the right (shared with C19).
"""
import ast

from sa.boolflow import must_atoms

from sa.model import AnalysisError, walk_shallow, dotted, norm
from sa.util import cfg_of, shallow_calls, guarded_by_edge, status_const, signal_const, local_defs, resolve_name
from sa.context import callgraph
from sa import queues, wrap
from props.c18 import instrumented_guard
from props.c19 import ring_of


def records_hook_tuple(model, f, node, g, seen=None):
    """does CFG node `node` (or a self-method it calls) append a hook tuple to rtc.tuples?"""
    seen = seen or set()
    for c in node.calls():
        if isinstance(c.func, ast.Attribute) and c.func.attr == 'append' and ring_of(c.func.value) == 'rtc.tuples' and c.args:
            a = resolve_name(c.args[0], local_defs(f.node))
            if isinstance(a, ast.Call) and norm(a.func) in ('spy_tuple', 'SpyTuple') and any(kw.arg == 'hook' and isinstance(kw.value, ast.Constant) and kw.value.value is True for kw in a.keywords):
                return True
        if isinstance(c.func, ast.Attribute) and dotted(c.func.value) == f.params[0] and f.owner_class is not None:
            m = model.lookup_method(f.owner_class, c.func.attr)
            if m is not None and m.qualname not in seen:
                seen.add(m.qualname)
                gm = cfg_of(m)
                hits = [n for n in gm.nodes if n.kind not in ('entry', 'exit', 'xexit', 'def') and records_hook_tuple(model, m, n, gm, seen)]
                # on every instrumented path of the helper (path-sensitive: with self.instrumented True, every way through it passes a recording node)
                if hits:
                    from sa.boolflow import simulate
                    selfn_ = m.params[0]
                    res_ = simulate(gm, gm.entry, {gm.exit}, {'=' + selfn_ + '.instrumented': True}, track=set(hits), watch={selfn_ + '.instrumented'}, fnode=m.node, params=m.params)
                    if res_ and all(any(h_ in vis for h_ in hits) for stop, env_, vis in res_ if env_.get('=' + selfn_ + '.instrumented') is True):
                        return True
    return False


SCAN_KINDS = {'int': dict(internal=True, recall=False, hook=True), 'rec': dict(internal=False, recall=True, hook=False),
              'hook': dict(internal=False, recall=False, hook=True), 'ext': dict(internal=False, recall=False, hook=False)}


def scan_call(hs, tuples):
    from sa import pureeval
    p0 = hs.params[0] if hs.params else None
    takes_chart = any(isinstance(x, ast.Attribute) and isinstance(x.value, ast.Name) and x.value.id == p0 and x.attr == 'rtc' for x in ast.walk(hs.node))
    try:
        return pureeval.call(hs.node, [pureeval.Obj(rtc=pureeval.Obj(tuples=tuples)) if takes_chart else tuples])
    except TypeError as ex:
        raise AnalysisError('trace wrapper: the hook-scan helper cannot be evaluated (%s)' % ex)


def scan_eval(hs, seq):
    from sa import pureeval
    tuples = [pureeval.Obj(signal='S%d' % i, datetime=i, **SCAN_KINDS[kd]) for i, kd in enumerate(seq)]
    # the helper is handed the chart (and reads chart.rtc.tuples) or the step's tuples themselves: which one shows in how its parameter is used
    p0 = hs.params[0] if hs.params else None
    takes_chart = any(isinstance(x, ast.Attribute) and isinstance(x.value, ast.Name) and x.value.id == p0 and x.attr == 'rtc' for x in ast.walk(hs.node))
    try:
        return pureeval.call(hs.node, [pureeval.Obj(rtc=pureeval.Obj(tuples=tuples)) if takes_chart else tuples])
    except TypeError as ex:
        raise AnalysisError('trace wrapper: the hook-scan helper cannot be evaluated (%s)' % ex)


def hook_flag_index(hs):
    """(k, arity): the position in the scan helper's result tuple that tells "a hook answered": the one that is True for a step whose only tuple is an external
    hook and False for a step whose only tuple is an external non-hook (found by evaluating the pure helper, whatever its shape)"""
    a, b = scan_eval(hs, ['hook']), scan_eval(hs, ['ext'])
    if not (isinstance(a, tuple) and isinstance(b, tuple) and len(a) == len(b)):
        return None, 0
    ks = [i for i in range(len(a)) if a[i] is True and b[i] is False]
    return (ks[0] if len(ks) == 1 else None), len(a)


def hooked_var(fac, inner):
    """name of the local of the trace wrapper that receives the scan helper's "a hook answered" flag"""
    helpers = [h for h in fac.nested.values() if h is not inner]
    if len(helpers) != 1:
        return None
    hs = helpers[0]
    k, arity = hook_flag_index(hs)
    if k is None:
        return None
    names = [None] * arity
    for n in walk_shallow(inner.node):
        if isinstance(n, ast.Assign) and isinstance(n.targets[0], ast.Tuple) and isinstance(n.value, ast.Call) and isinstance(n.value.func, ast.Name) and n.value.func.id == hs.name \
                and len(n.targets[0].elts) == len(names) and isinstance(n.targets[0].elts[k], ast.Name):
            return n.targets[0].elts[k].id
    return None


def trace_render_pure(run, model):
    """trace() is what the user reads the trace through: it must be a rendering of the records that are in full.trace *now* - every record, in order - and of nothing
    the chart remembers from earlier calls (the ring buffer drops old records, so any position/length remembered between calls goes stale once it rolls)."""
    from sa.context import effects
    run.rule('TRACE.render', 'trace() iterates the whole of self.full.trace and writes no attribute of the chart (its answer does not depend on earlier calls)')
    fx = effects(model)
    n = 0
    for cn in ('HsmWithQueues', 'ActiveObject', 'Factory'):
        c = model.classes.get(cn)
        f = c.methods.get('trace') if c is not None else None
        if f is None:
            continue
        n += 1
        run.touch(f)
        ws = sorted({(p_, o_) for (p_, o_, _ln, _how) in fx.writes(f) if not p_.startswith('<')})
        run.inst('TRACE.render', f, 'writes no state of the chart', not ws,
                 '' if not ws else ('%s.trace() updates %s (in %s): what it returns depends on what earlier calls left behind - a position or length remembered between calls no longer '
                                    'matches the ring buffer once it has dropped old records, so trace() shows records that are gone and misses recent ones'
                                    % (cn, ', '.join(w_[0] for w_ in ws), ws[0][1])), obligation=True)
        # the loop (or comprehension / join) ranges over the live deque itself
        srcs = []
        todo, seen = [f], set()
        while todo:
            g_ = todo.pop()
            if g_.qualname in seen:
                continue
            seen.add(g_.qualname)
            for x in ast.walk(g_.node):
                it = x.iter if isinstance(x, (ast.For, ast.comprehension)) else None
                if isinstance(it, ast.Name):
                    # a local bound once to (a snapshot of) the deque: `records = list(self.full.trace)`
                    from sa.util import local_defs as _ld20
                    ds_ = [d_ for d_ in _ld20(g_.node).get(it.id, []) if isinstance(d_, ast.AST)]
                    if len(ds_) == 1 and len(_ld20(g_.node).get(it.id, [])) == 1:
                        it = ds_[0]
                if it is not None and 'trace' in norm(it):
                    srcs.append(norm(it))
                if isinstance(x, ast.Call) and isinstance(x.func, ast.Attribute) and isinstance(x.func.value, ast.Name) and g_.params and x.func.value.id == g_.params[0]:
                    for k in model.mro(c):
                        if x.func.attr in k.methods:
                            todo.append(k.methods[x.func.attr])
                            break
                if isinstance(x, ast.Call) and isinstance(x.func, ast.Attribute) and x.func.attr == 'trace' and isinstance(x.func.value, ast.Call) and norm(x.func.value.func) == 'super':
                    for k in model.mro(c)[1:]:
                        if 'trace' in k.methods:
                            todo.append(k.methods['trace'])
                            break
        ok = bool(srcs) and all(s_.replace('list(', '').rstrip(')') in ('self.full.trace',) for s_ in srcs)
        run.inst('TRACE.render', f, 'renders every record of self.full.trace: %s' % (srcs or 'no loop found'), ok,
                 '' if ok else 'trace() does not range over the whole of self.full.trace (%s): records are skipped or the output is cut' % srcs, obligation=True)
    run.floor('trace() renderers', n, 2)



def record_fields(model, rec):
    """{field: value expression} of a TraceTuple(...) construction, positional arguments mapped through the tuple's declared field order"""
    if not isinstance(rec, ast.Call):
        return {}
    out = {k.arg: k.value for k in rec.keywords if k.arg}
    if rec.args:
        from sa.util import namedtuple_fields
        nm = norm(rec.func).split('.')[-1]
        fields = namedtuple_fields(model, nm) or []
        for i, a in enumerate(rec.args):
            if i < len(fields):
                out.setdefault(fields[i], a)
    return out



def check(run, model, tier):
    run.explanation = ('Path-count and guard analysis of the two trace wrappers, and an outcome-completeness rule over the dispatch outcome switch and '
                       'over every package handler that is not spy-wrapped: the trace wrapper can only tell "transition" from "handled"/"ignored" '
                       'through event.ignored and hook tuples, so each non-transition outcome must leave one of those marks on every path.')
    for r, t in (('TRACE.at-most-one', 'each trace wrapper appends <= 1 record per call, only when instrumented'),
                 ('TRACE.transition-only', 'record only if not hooked and not ignored; start state before, end state after; tuples cleared before the step'),
                 ('TRACE.outcome-visible', 'IGNORED -> event.ignored; HANDLED -> hook tuple, also for un-wrapped package handlers (top overrides)'),
                 ('RING.right-end', 'trace ring bounded, right-end appends only')):
        run.rule(r, t)
    cg = callgraph(model)
    # ---- the two wrappers
    facs = {f.name: f for f in cg.factories}
    for nm in ('trace_on_start', 'append_to_full_trace'):
        if nm not in facs:
            raise AnalysisError('trace wrapper %s not found' % nm)
    for nm in ('trace_on_start', 'append_to_full_trace'):
        fac = facs[nm]
        inner = cg.factories[fac]
        g = cfg_of(inner)
        run.touch(inner, g)
        recv = inner.params[0]
        apps = [(n, c) for n in g.nodes if n.kind not in ('entry', 'exit', 'xexit', 'def') for c in n.calls()
                if isinstance(c.func, ast.Attribute) and c.func.attr in ('append', 'extend', 'appendleft') and ring_of(c.func.value) == 'full.trace']
        run.floor('%s: trace append sites' % nm, len(apps), 1)
        cnt = queues.count(g, [n for n, c in apps])
        ok = cnt is not None and cnt[1] <= 1
        run.inst('TRACE.at-most-one', inner, 'at most one trace record per call', ok, '' if ok else 'a call can append %s trace records' % (cnt,), obligation=True)
        fncalls = [n for n in g.nodes if wrap.fn_calls_in(n, fac.params[0])]
        for n, c in apps:
            ok = instrumented_guard(g, n, recv)
            run.inst('TRACE.at-most-one', inner, 'trace record only when instrumented', ok, 'trace written although not instrumented', node=c, obligation=True)
            ok = any(g.dominates(fc, n) for fc in fncalls)
            run.inst('TRACE.transition-only', inner, 'record appended after the wrapped step', ok, 'the record is appended before the step ran', node=c, obligation=True)
            ok = c.func.attr == 'append'
            run.inst('RING.right-end', inner, 'full.trace.' + c.func.attr, ok, 'trace ring modified with %s' % c.func.attr, node=c, obligation=True)
        defs = local_defs(inner.node)
        if nm == 'append_to_full_trace':
            for n, c in apps:
                tests = [t for t in g.nodes if t.kind == 'test' and guarded_by_edge(g, n, t, 'true')]
                txt = ' && '.join(norm(t.ast) for t in tests)
                # the "hooked" local: the element of the scan helper's result that the helper sets True under `.hook`
                hv = hooked_var(fac, inner)
                atoms = must_atoms(g, n, inner.node, params=inner.params)
                txt = ' && '.join('%s %s %s' % a for a in sorted(atoms))

                def is_false(name):
                    return any((l == name and op in ('Is', 'Eq') and r == 'False') or (l == name and op == 'Falsy') or (l == name and op in ('IsNot', 'NotEq') and r == 'True') for (l, op, r) in atoms)
                hook_ok = hv is not None and is_false(hv)
                ign_ok = is_false('%s.event.ignored' % recv)
                run.inst('TRACE.transition-only', inner, 'record only when the step was not a hook', hook_ok,
                         '' if hook_ok else 'the trace record is not conditional on "not hooked": internally handled events get a record (guards: %s)' % txt, node=c, obligation=True)
                run.inst('TRACE.transition-only', inner, 'record only when the event was not ignored', ign_ok,
                         '' if ign_ok else 'the trace record is not conditional on "not ignored": ignored events get a record (guards: %s)' % txt, node=c, obligation=True)
                # start_state / end_state
                rec = resolve_name(c.args[0], defs) if c.args else None
                if not isinstance(rec, ast.Call):
                    raise AnalysisError('trace record construction not found')
                kw = record_fields(model, rec)
                ss = resolve_name(kw.get('start_state'), defs) if kw.get('start_state') is not None else None
                es = resolve_name(kw.get('end_state'), defs) if kw.get('end_state') is not None else None

                def is_reflect(e):
                    return isinstance(e, ast.Call) and dotted(e.func) == recv + '.state.fun' and any(signal_const(x) == 'REFLECTION_SIGNAL' for x in ast.walk(e))
                # the start-state reflection is evaluated before the step, the end-state one after
                ssn = [m for m in g.nodes if m.kind not in ('entry', 'exit', 'xexit', 'def') and ss is not None and any(x is ss for x in m.walk())]
                ok = is_reflect(ss) and bool(ssn) and all(not g.exists_path(fc, ssn[0]) for fc in fncalls if g.dominates(fc, n)) and any(g.dominates(ssn[0], fc) for fc in fncalls)
                run.inst('TRACE.transition-only', inner, 'start state reflected before the step', ok,
                         'start_state is %s%s' % (norm(ss) if ss is not None else None, ': the search cursor is the resting state only after a step that ran to completion - after a step that '
                                                  'left dispatch with an exception (a handler raised) it still points where the outward search stopped, and the next record starts from that '
                                                  'ancestor instead of the state the chart is in' if ss is not None and dotted(getattr(ss, 'func', ss)) == recv + '.temp.fun' else ''),
                         node=c, obligation=True)
                esn = [m for m in g.nodes if m.kind not in ('entry', 'exit', 'xexit', 'def') and es is not None and any(x is es for x in m.walk())]
                # after the wrapped step returned normally the cursor equals the state (I1), so either may be asked; before the step only state.fun is the
                # resting state - the cursor is stale when the previous step left dispatch with an exception
                def is_reflect_end(e):
                    return isinstance(e, ast.Call) and dotted(e.func) in (recv + '.state.fun', recv + '.temp.fun') and any(signal_const(x) == 'REFLECTION_SIGNAL' for x in ast.walk(e))
                ok = is_reflect_end(es) and bool(esn) and any(g.dominates(fc, esn[0]) for fc in fncalls)
                run.inst('TRACE.transition-only', inner, 'end state reflected after the step', ok, 'end_state is %s' % (norm(es) if es is not None else None), node=c, obligation=True)
                # signal / datetime come from the helper's scan of this step's tuples
                sig = kw.get('signal')
                ok = isinstance(sig, ast.Name)
                run.inst('TRACE.transition-only', inner, 'signal taken from the step\'s tuples', ok, 'signal is %s' % (norm(sig) if sig is not None else None), node=c, obligation=True)
            clears = [m for m in g.nodes if m.kind not in ('entry', 'exit', 'xexit', 'def') and
                      any(isinstance(c2.func, ast.Attribute) and c2.func.attr == 'clear' and ring_of(c2.func.value) == 'rtc.tuples' for c2 in m.calls())]
            inst_fn = [fc for fc in fncalls if any(g.dominates(fc, n) for n, c in apps)]
            ok = bool(clears) and all(any(g.dominates(cl, fc) for cl in clears) for fc in inst_fn)
            run.inst('TRACE.transition-only', inner, 'step tuples cleared before the step', ok,
                     '' if ok else 'rtc.tuples is not cleared before the wrapped step: tuples of earlier steps decide whether this step is traced', obligation=True)
            # the scan helper: first non-internal, non-recall tuple with hook -> hooked
            helpers = [h for h in fac.nested.values() if h is not inner]
            if len(helpers) != 1:
                raise AnalysisError('append_to_full_trace: scan helper not found')
            hs = helpers[0]
            run.touch(hs)
            loops = [x for x in walk_shallow(hs.node) if isinstance(x, ast.For)]
            it0_ = loops[0].iter if len(loops) == 1 else None
            if isinstance(it0_, ast.Call) and isinstance(it0_.func, ast.Name) and it0_.func.id in ('list', 'tuple') and len(it0_.args) == 1:
                it0_ = it0_.args[0]          # a snapshot of the ring
            ok = len(loops) == 1 and ring_of(it0_) == 'rtc.tuples'
            if not ok and len(loops) == 1 and isinstance(loops[0].iter, ast.Name) and loops[0].iter.id in hs.params:
                # the helper is handed the tuples: every call site passes this step's ring
                idx_ = hs.params.index(loops[0].iter.id)
                sites_ = [c_ for c_ in shallow_calls(inner.node) if isinstance(c_.func, ast.Name) and c_.func.id == hs.name]
                ok = bool(sites_) and all(idx_ < len(c_.args) and ring_of(c_.args[idx_]) == 'rtc.tuples' for c_ in sites_)
            run.inst('TRACE.transition-only', hs, 'hook scan iterates this step\'s tuples', ok, 'scan iterates %s' % (norm(loops[0].iter) if loops else None), obligation=True)
            # the scan is a pure function of the step's tuples: evaluate it on every sequence of up to 4 tuples over the four kinds
            # {internal, recall marker, external answered by a hook, external not a hook}: "hooked" must be exactly "some external tuple is a hook"
            import itertools
            from sa import pureeval
            kinds = SCAN_KINDS
            k, _arity = hook_flag_index(hs)
            if k is None:
                raise AnalysisError('append_to_full_trace: the hook-scan helper does not return a tuple with one "a hook answered" flag')
            mism = None
            n_seq = 0
            for ln in range(0, 5):
                for seq in itertools.product(sorted(kinds), repeat=ln):
                    got = scan_eval(hs, seq)
                    want = any(kd == 'hook' for kd in seq)
                    n_seq += 1
                    if bool(got[k]) != want and mism is None:
                        mism = (seq, bool(got[k]), want)
            run.inst('TRACE.transition-only', hs, 'hook scan: hooked == "some external tuple of the step is a hook" on %d tuple sequences' % n_seq, mism is None,
                     '' if mism is None else ('for the step tuples %s the scan reports hooked=%s, expected %s: an event that an enclosing state handled internally after an inner state '
                                              'declined it (UNHANDLED + EMPTY re-ask leaves an internal tuple in between) is traced as a transition' % (list(mism[0]), mism[1], mism[2])),
                     obligation=True)
        else:
            for n, c in apps:
                rec = resolve_name(c.args[0], defs) if c.args else None
                kw = record_fields(model, rec)
                ok = isinstance(kw.get('start_state'), ast.Constant) and kw['start_state'].value == 'top' and isinstance(kw.get('signal'), ast.Constant) and kw['signal'].value is None
                run.inst('TRACE.at-most-one', inner, 'start record is (top, start_at, ...)', ok, 'start record fields: %s' % {k: norm(v) for k, v in kw.items()}, node=c, obligation=True)
                es = kw.get('end_state')
                es = resolve_name(es, defs) if es is not None else None        # through a local bound once
                ok = isinstance(es, ast.Call) and dotted(es.func) in (recv + '.temp.fun', recv + '.state.fun') and any(signal_const(x) == 'REFLECTION_SIGNAL' for x in ast.walk(es))
                run.inst('TRACE.at-most-one', inner, 'start record ends in the reflected current state', ok, 'end_state is %s' % (norm(es) if es is not None else None), node=c, obligation=True)
    # ---- who may put tuples into rtc.tuples that the hook scan *sees*: the scan takes the signal (and the hook flag) of the step from the tuples that are neither internal nor
    # recall markers, so every other writer must write tuples the scan filters out.  Visible writers, confirmed by reading: spy_on (one tuple per offer of the dispatched
    # event) and ActiveObject.hook_meta_signal (the un-wrapped top of an active object answering the dispatched event itself).
    run.rule('TUPLES.writers', 'every writer of rtc.tuples other than the two offer writers writes a tuple the hook scan filters out (evaluated with the scan itself)')
    VISIBLE_OK = {'_spy_on': 'spy_on: one tuple per offer of the dispatched event', 'hook_meta_signal': 'top of an active object answering the dispatched event itself'}
    fac_t = facs.get('append_to_full_trace')
    scan = [h_ for h_ in fac_t.nested.values() if h_ is not cg.factories[fac_t]] if fac_t is not None else []
    n_w = 0
    if len(scan) == 1:
        import inspect as _insp
        from sa import pureeval as _pe
        # defaults of spy_tuple(...)
        stf = model.func('hsm.spy_tuple') if hasattr(model, 'func') else None
        defaults = {}
        if stf is not None:
            a_ = stf.node.args
            for nm_, dv_ in zip([x.arg for x in a_.args][len(a_.args) - len(a_.defaults):], a_.defaults):
                if isinstance(dv_, ast.Constant):
                    defaults[nm_] = dv_.value
        for f_ in model.all_funcs():
            for c_ in shallow_calls(f_.node):
                if not (isinstance(c_.func, ast.Attribute) and c_.func.attr in ('append', 'appendleft', 'extend', 'insert') and ring_of(c_.func.value) == 'rtc.tuples'):
                    continue
                n_w += 1
                arg = c_.args[-1] if c_.args else None
                rec = resolve_name(arg, local_defs(f_.node)) if arg is not None else None
                fields = None
                if isinstance(rec, ast.Call) and norm(rec.func) in ('spy_tuple', 'SpyTuple'):
                    fields = dict(defaults) if norm(rec.func) == 'spy_tuple' else {}
                    for kw in rec.keywords:
                        fields[kw.arg] = kw.value.value if isinstance(kw.value, ast.Constant) else '<dyn>'
                if fields is None or any(fields.get(k_) == '<dyn>' for k_ in ('internal', 'recall')):
                    if f_.name in VISIBLE_OK:
                        run.inst('TUPLES.writers', f_, 'offer writer %s (%s)' % (f_.name, VISIBLE_OK[f_.name]), True, nontrivial=False, node=c_)
                        continue
                    raise AnalysisError('%s writes a tuple into rtc.tuples whose internal/recall fields are not constants' % f_.qualname)
                # is the tuple visible to the scan?  evaluate the scan on [an external offer of the event, this tuple] and on [the offer] alone
                probe = _pe.Obj(signal='OTHER', datetime=99, **{k_: (v_ if v_ != '<dyn>' else False) for k_, v_ in fields.items() if k_ not in ('signal', 'datetime', 'state')})
                offer = _pe.Obj(signal='EV', datetime=1, **SCAN_KINDS['ext'])
                a1 = scan_call(scan[0], [offer])
                a2 = scan_call(scan[0], [offer, probe])
                visible = a1 != a2
                ok = (not visible) or f_.name in VISIBLE_OK
                run.inst('TUPLES.writers', f_, 'tuple written by %s is %s the hook scan' % (f_.qualname, 'visible to' if visible else 'filtered out by'), ok,
                         '' if ok else ('%s appends a tuple to rtc.tuples that the hook scan of the trace takes for an offer of the dispatched event (it is neither internal nor a recall '
                                        'marker): when it is written during a step - in an entry, exit or init action, or from another thread - the trace record of that step names this '
                                        'tuple\'s signal instead of the signal that caused the transition, or the hook flag of the step is taken from it' % f_.qualname), node=c_, obligation=True)
        run.floor('writers of rtc.tuples', n_w, 4)
    # ---- the offer writer itself: the tuple spy_on records for an offer of a user signal must be read by the hook scan as "a hook answered" exactly when the handler
    # returned HANDLED (UNHANDLED, SUPER and TRAN leave the event to an enclosing state or start a transition: marking them hides the record of that transition).
    # Decided by evaluating the spy wrapper (props/c19.wrapper_cases) and handing the tuples it wrote to the package's own scan helper.
    run.rule('TUPLES.offer-flag', 'the tuple spy_on writes for an offer is classified as a hook by the trace scan iff the handler returned HANDLED (wrapper and scan evaluated)')
    if len(scan) == 1:
        from props.c19 import wrapper_cases, INNER_NAMES
        so_ = model.func('hsm.spy_on')
        inner_so = cg.factories.get(so_)
        bad, n_c = None, 0
        try:
            k_, _ar = hook_flag_index(scan[0])
            if k_ is not None and inner_so is not None:
                for st_name, sname, _log, tuples, _calls, _got, _h in wrapper_cases(model, so_, inner_so):
                    if sname in INNER_NAMES:
                        continue
                    for t_ in tuples:
                        if not hasattr(t_, 'datetime'):
                            t_.datetime = 1
                    res = scan_call(scan[0], tuples)
                    hooked = res[k_] if isinstance(res, tuple) else res
                    n_c += 1
                    if bool(hooked) != (st_name == 'HANDLED') and bad is None:
                        bad = (st_name, hooked, [sorted((a, v) for a, v in vars(t_).items() if a in ('hook', 'internal', 'recall')) for t_ in tuples])
        except AnalysisError as ex:
            run.note('TUPLES.offer-flag: the spy wrapper or the scan helper is outside the evaluator\'s fragment (%s); the flag of the offer tuple is not decided' % ex)
            n_c = 0
        if n_c:
            run.inst('TUPLES.offer-flag', inner_so, 'offer tuple read as a hook iff HANDLED, on %d handler answers' % n_c, bad is None,
                     '' if bad is None else ('for a handler answering %s to a user signal spy_on writes the tuple(s) %s, which the trace scan reads as hooked=%s: %s' % (
                         bad[0], bad[2], bad[1],
                         'an inner state declining the event (guard, super) marks the step as handled internally, so the transition an enclosing state then takes gets no trace record'
                         if bad[1] else 'an internally handled event is no longer marked, so it gets a trace record although no transition occurred')), obligation=True)
    # ---- outcome visibility: dispatch
    hep = model.cls('HsmEventProcessor')
    disp = hep.methods.get('dispatch')
    g = cfg_of(disp)
    run.touch(disp, g)
    selfn = disp.params[0]
    sets = [n for n in g.nodes if n.kind == 'stmt' and isinstance(n.ast, ast.Assign) and any(dotted(t) == selfn + '.event.ignored' for t in n.ast.targets)]
    true_sets = [n for n in sets if isinstance(n.ast.value, ast.Constant) and n.ast.value.value is True]
    false_sets = [n for n in sets if isinstance(n.ast.value, ast.Constant) and n.ast.value.value is False]
    run.floor('dispatch: event.ignored assignments', len(sets), 1)
    hcalls = [n for n in g.nodes if n.kind not in ('entry', 'exit', 'xexit', 'def') and any(c.args and isinstance(c.args[0], ast.Name) and c.args[0].id == selfn and not isinstance(c.func, ast.Attribute) or
                                                                                         (c.args and isinstance(c.args[0], ast.Name) and c.args[0].id == selfn and isinstance(c.func, (ast.Name, ast.Subscript))) for c in n.calls())]
    ok = bool(false_sets) and all(any(g.dominates(fs, hc) for fs in false_sets) for hc in hcalls)
    run.inst('TRACE.outcome-visible', disp, 'event.ignored reset before any handler runs', ok, 'event.ignored is not reset at the start of dispatch: a stale flag hides a transition', obligation=True)
    ign_tests = [t for t in g.nodes if t.kind == 'test' and isinstance(t.ast, ast.Compare) and any(status_const(x) == 'IGNORED' for x in ast.walk(t.ast))]
    for ts in true_sets:
        ok = any(isinstance(t.ast.ops[0], (ast.Is, ast.Eq)) and guarded_by_edge(g, ts, t, 'true') for t in ign_tests)
        run.inst('TRACE.outcome-visible', disp, 'event.ignored set only on the IGNORED outcome', ok, 'event.ignored = True is not confined to the IGNORED branch', node=ts.ast, obligation=True)
    for t in ign_tests:
        if isinstance(t.ast.ops[0], (ast.Is, ast.Eq)):
            succ = [m for m, l in g.succ[t] if l == 'true']
            cnt = queues.count(g, true_sets, start=succ[0]) if succ else None
            run.inst('TRACE.outcome-visible', disp, 'the IGNORED outcome always sets event.ignored', cnt is not None and cnt[0] >= 1,
                     'an ignored event does not set event.ignored: the trace wrapper records it as a transition', node=t.ast, obligation=True)
    # ---- outcome visibility: un-wrapped package handlers
    n_top = 0
    for k in model.classes.values():
        f = k.methods.get('top')
        if f is None:
            continue
        n_top += 1
        gt = cfg_of(f)
        run.touch(f, gt)
        # nodes assigning/returning HANDLED
        handled_nodes = [n for n in gt.nodes if n.kind == 'stmt' and any(status_const(x) == 'HANDLED' for x in n.walk())]
        if not handled_nodes:
            run.inst('TRACE.outcome-visible', f, 'never answers HANDLED', True, nontrivial=False)
            continue
        for hn in handled_nodes:
            # some node recording a hook tuple lies on every path entry -> hn or hn -> exit
            recs = [n for n in gt.nodes if n.kind not in ('entry', 'exit', 'xexit', 'def') and records_hook_tuple(model, f, n, gt)]
            ok = any(gt.dominates(r, hn) or gt.postdominates(r, hn) for r in recs)
            run.inst('TRACE.outcome-visible', f, 'HANDLED answer is recorded as a hook: ' + norm(hn.ast), ok,
                     '' if ok else ('%s answers HANDLED without being wrapped by spy_on and without recording a hook tuple: the trace wrapper sees neither a hook nor '
                                    '"ignored" and appends a phantom record (signal "", no timestamp) for a step that was not a transition; trace() then fails in strftime'
                                    % f.qualname), node=hn.ast, obligation=True)
    run.floor('top() implementations in the package', n_top, 2)
    trace_render_pure(run, model)
    run.assume('user handlers are decorated with spy_on when the chart is instrumented (spy_on_start switches instrumentation off otherwise)')
