"""C21 Live spy/trace output emits every line once, in order, whatever the clock says.

TAINT.clock-free     : no comparison of clock-derived values (tuple.datetime, last_live_trace_datetime, anything assigned from
                       datetime.now()) other than a test against None controls a live callback: two records with one timestamp must
                       both be emitted.
LIVE.newness         : the live trace wrapper after a step emits the last trace record exactly when it is a record it has not
                       emitted yet, decided by object identity against the record remembered after the previous emission; the
                       remembered record is updated on every path on which a last record exists.
LIVE.spy-once        : the live spy wrappers iterate a snapshot of the step log and call the callback exactly once per line, in
                       iteration order, after the wrapped step.
LIVE.writer          : active-object callbacks only enqueue (fn, content) to the single writer queue; the one writer thread takes one
                       item per iteration and calls fn(content) once; the writer is started only when it is not alive.
"""
import ast

from sa.boolflow import must_atoms
from sa.util import expand_locals

from sa.model import AnalysisError, walk_shallow, dotted, norm
from sa.util import cfg_of, shallow_calls, guarded_by_edge, local_defs, compare_parts, is_none
from sa.context import callgraph
from sa import queues, wrap

CLOCK_ATTRS = ('datetime', 'last_live_trace_datetime')


def clocky(expr):
    for n in ast.walk(expr):
        if isinstance(n, ast.Attribute) and n.attr in CLOCK_ATTRS:
            return True
        if isinstance(n, ast.Call) and norm(n.func).endswith('datetime.now'):
            return True
    return False


def callback_nodes(g, recv, names):
    return [n for n in g.nodes if n.kind not in ('entry', 'exit', 'xexit', 'def') and
            any(isinstance(c.func, ast.Attribute) and c.func.attr in names and dotted(c.func.value) == recv for c in n.calls())]


class _FalsyCallback:
    """a legal callback object that is empty when asked for its truth value (a recorder with __call__ and __len__)"""
    def __call__(self, line):
        return None

    def __len__(self):
        return 0


def writer_item_verbatim(run, model, wr, pr):
    """LIVE.writer-item: evaluate the writer's _print on a scratch writer: the one item put on the queue carries the very callback and the very line it was given,
    for callbacks that are falsy objects and for empty lines too"""
    import collections
    from sa import pureeval
    run.rule('LIVE.writer-item', 'the item the writer enqueues holds the callback and the line it was handed, unchanged (evaluated; falsy callback objects and empty lines included)')
    g_ = dict(pureeval.module_constants(model, pr.module))
    for (mn, name), v in model.module_bindings.items():
        if mn != pr.module.name:
            continue
        if isinstance(v, ast.Call) and norm(v.func).split('.')[-1] == 'namedtuple' and len(v.args) == 2:
            try:
                g_[name] = collections.namedtuple(ast.literal_eval(v.args[0]), ast.literal_eval(v.args[1]))
            except (ValueError, SyntaxError):
                pass
    for f in model.all_funcs():
        if f.module is pr.module and f.cls is None and f.parent is None and f.name not in g_:
            g_[f.name] = pureeval.Obj(__name__=f.name)
    params = pr.params[1:]
    if sorted(params) != ['content', 'fn']:
        raise AnalysisError('%s: parameters %s (expected fn and content)' % (pr.qualname, params))
    bad = None
    n = 0
    for fn in (pureeval.Obj(__name__='callback'), _FalsyCallback()):
        for content in ('a spy line', ''):
            got = []
            w = pureeval.Obj(_queue=pureeval.Obj(put=got.append, put_nowait=got.append), _thread=None)
            # whatever else the writer keeps on itself (a wake-up flag, a condition, a counter lock): inert stand-ins
            for m_ in wr.methods.values():
                for x_ in ast.walk(m_.node):
                    if isinstance(x_, ast.Attribute) and isinstance(x_.ctx, ast.Store) and isinstance(x_.value, ast.Name) and m_.params and x_.value.id == m_.params[0] \
                            and x_.attr not in vars(w):
                        noop = lambda *a, **k: None
                        setattr(w, x_.attr, pureeval.Obj(set=noop, clear=noop, is_set=lambda: False, wait=noop, acquire=lambda *a, **k: True, release=noop, notify=noop,
                                                         notify_all=noop, is_alive=lambda: True, start=noop))
            kw = {'fn': fn, 'content': content}
            try:
                pureeval.call(pr.node, [w] + [kw[p] for p in params], globals_=g_, mutable=True, strict_locals=True, module_names=set(g_))
            except pureeval.Raised as ex:
                bad = bad or (fn, content, 'raises %s' % ex.what)
                continue
            n += 1
            ok = len(got) == 1 and isinstance(got[0], tuple) and any(x is fn for x in got[0]) and any(x is content for x in got[0])
            if not ok:
                bad = bad or (fn, content, 'enqueues %s' % ([tuple(('<the callback>' if x is fn else '<the line>' if x is content else getattr(x, '__name__', x)) for x in it)
                                                             if isinstance(it, tuple) else it for it in got],))
    run.inst('LIVE.writer-item', pr, 'the enqueued item is (the callback, the line)', bad is None,
             '' if bad is None else ('%s handed %s and the line %r %s: the registered callback does not receive that line (a callback object that is empty when tested for truth - a '
                                     'recorder with __len__ - or an empty line is replaced/dropped at the queue)'
                                     % (pr.qualname, 'a callback object whose truth value is False' if isinstance(bad[0], _FalsyCallback) else 'a callback', bad[1], bad[2])),
             obligation=True)


def live_spy_loops(run, model, cg, facs, rule='LIVE.spy-once'):
    for nm in ('print_spy_after_at_start_if_live', 'print_spy_after_rtc_if_live'):
        fac = facs.get(nm)
        if fac is None:
            raise AnalysisError('%s not found' % nm)
        inner = cg.factories[fac]
        g = cfg_of(inner)
        run.touch(inner, g)
        recv = inner.params[0]
        loops = [h for h in g.loop_heads() if h.kind == 'for']
        if len(loops) != 1:
            raise AnalysisError('%s: expected one loop over the step log' % nm)
        h = loops[0]
        it = h.stmt.iter
        if isinstance(it, ast.Name):
            # a local bound once to the copy (`lines = list(self.rtc.spy)`), after the wrapped step and before the loop
            from sa.util import local_defs as _ld
            ds_ = [d_ for d_ in _ld(inner.node).get(it.id, []) if isinstance(d_, ast.AST)]
            dn_ = [n_ for n_ in g.nodes if n_.kind == 'stmt' and isinstance(n_.ast, ast.Assign) and any(isinstance(t_, ast.Name) and t_.id == it.id for t_ in n_.ast.targets)]
            steps_ = [n_ for n_ in g.nodes if wrap.fn_calls_in(n_, fac.params[0])] if hasattr(wrap, 'fn_calls_in') else []
            if len(ds_) == 1 and len(dn_) == 1 and g.dominates(dn_[0], h) and not any(g.exists_path(dn_[0], s_) for s_ in steps_):
                it = ds_[0]
        snap = (isinstance(it, ast.Call) and isinstance(it.func, ast.Attribute) and it.func.attr == 'copy' and (dotted(it.func.value) or '').endswith('.rtc.spy')) or \
               (isinstance(it, ast.Call) and norm(it.func) in ('list', 'tuple') and it.args and (dotted(it.args[0]) or '').endswith('.rtc.spy'))
        run.inst(rule, inner, 'iterates a snapshot of the step log', bool(snap),
                 '' if snap else 'the live spy loop iterates %s: a callback that posts/scribbles mutates the deque during iteration' % norm(it), node=h.stmt, obligation=True)
        tv = h.stmt.target.id if isinstance(h.stmt.target, ast.Name) else None
        body = g.loop_body(h)
        cbn = [n for n in callback_nodes(g, recv, ('live_spy_callback',)) if n in body]
        start = [m for m, l in g.succ[h] if l == 'iter']
        cnt = queues.count(g, cbn, start=start[0], end=h) if start else None
        run.inst(rule, inner, 'one callback per line', cnt == (1, 1), 'callbacks per line: %s' % (cnt,), node=h.stmt, obligation=True)
        for n in cbn:
            for c in n.calls():
                if isinstance(c.func, ast.Attribute) and c.func.attr == 'live_spy_callback':
                    ok = len(c.args) == 1 and isinstance(c.args[0], ast.Name) and c.args[0].id == tv
                    run.inst(rule, inner, 'the callback receives the line itself', ok, 'callback argument is %s' % norm(c), node=c, obligation=True)
        fcs = [n for n in g.nodes if wrap.fn_calls_in(n, fac.params[0])]
        ok = all(any(g.dominates(fc, n) for fc in fcs) for n in cbn)
        run.inst(rule, inner, 'lines are emitted after the wrapped step', ok, 'live spy emitted before the step', obligation=True)
        stray = [n for n in callback_nodes(g, recv, ('live_spy_callback',)) if n not in body]
        run.inst(rule, inner, 'no callback outside the loop', not stray, 'a line is emitted outside the per-line loop', obligation=True)


def check(run, model, tier):
    run.explanation = ('Field-based taint analysis from the wall clock to branch conditions that control live callbacks, identity-newness and '
                       'update-on-every-path rules for the live trace wrapper, snapshot/once-per-element loop rules for the live spy wrappers and a '
                       'single-queue/single-consumer shape rule for the active object\'s writer. A decision that does not read the clock cannot '
                       'depend on clock behaviour, whatever its resolution.')
    for r, t in (('TAINT.clock-free', 'no clock-derived comparison (other than against None) guards a live callback'),
                 ('LIVE.newness', 'last trace record emitted iff it is not (by identity) the remembered one; remembered record updated on every path'),
                 ('LIVE.spy-once', 'live spy: snapshot of rtc.spy, one callback per element, after the step'),
                 ('LIVE.writer', 'callbacks enqueue to one Queue; one writer thread; one fn(content) per item')):
        run.rule(r, t)
    cg = callgraph(model)
    facs = {f.name: f for f in cg.factories}
    # ---- taint: every test in the package that guards a live callback
    n_cb = 0
    for f in model.all_funcs():
        recv = cg.receiver_var(f)
        if recv is None:
            continue
        g = None
        cbs = [c for c in shallow_calls(f.node) if isinstance(c.func, ast.Attribute) and c.func.attr in ('live_spy_callback', 'live_trace_callback') and dotted(c.func.value) == recv]
        if not cbs:
            continue
        g = cfg_of(f)
        run.touch(f, g)
        nodes = callback_nodes(g, recv, ('live_spy_callback', 'live_trace_callback'))
        for n in nodes:
            n_cb += 1
            for t in g.nodes:
                if t.kind != 'test':
                    continue
                if not (guarded_by_edge(g, n, t, 'true') or guarded_by_edge(g, n, t, 'false')):
                    continue
                for cmp_ in [x for x in ast.walk(t.ast) if isinstance(x, ast.Compare)]:
                    if not clocky(cmp_):
                        continue
                    none_test = all(isinstance(op, (ast.Is, ast.IsNot)) for op in cmp_.ops) and any(is_none(x) for x in cmp_.comparators)
                    run.inst('TAINT.clock-free', f, 'guard ' + norm(cmp_), none_test,
                             '' if none_test else ('the live callback is controlled by %s, a comparison of wall-clock values: two records produced within one clock tick '
                                                   '(coarse clock, fast machine, mocked time) compare equal and the second one is never emitted' % norm(cmp_)),
                             node=cmp_, obligation=True)
        run.inst('TAINT.clock-free', f, 'guards of %d live callback site(s) scanned' % len(nodes), True, nontrivial=True)
    run.floor('live callback call sites', n_cb, 4)
    # ---- newness in the after-step trace wrapper
    fac = facs.get('print_trace_after_rtc_if_live')
    if fac is None:
        raise AnalysisError('print_trace_after_rtc_if_live not found')
    inner = cg.factories[fac]
    g = cfg_of(inner)
    recv = inner.params[0]
    defs = local_defs(inner.node)
    cbn = callback_nodes(g, recv, ('live_trace_callback',))
    run.floor('live trace callback sites after a step', len(cbn), 1)
    # the local that holds the last record
    trv = [k for k, v in defs.items() if any(not isinstance(x, tuple) and isinstance(x, ast.Subscript) and dotted(x.value) == recv + '.full.trace' for x in v)]
    if len(trv) != 1:
        raise AnalysisError('live trace wrapper: the "last record" local was not found')
    trv = trv[0]
    idx_ok = all(isinstance(x.slice, ast.UnaryOp) and isinstance(x.slice.operand, ast.Constant) and x.slice.operand.value == 1
                 for x in defs[trv] if not isinstance(x, tuple) and isinstance(x, ast.Subscript))
    run.inst('LIVE.newness', inner, 'looks at the most recent trace record [-1]', idx_ok, 'the record considered is not full.trace[-1]', obligation=True)
    for n in cbn:
        ident = None
        for (l_, op_, r_) in must_atoms(g, n, inner.node, params=inner.params):
            if op_ == 'IsNot' and l_ in (trv, norm(expand_locals(ast.Name(id=trv, ctx=ast.Load()), inner.node, params=inner.params))) and r_.startswith(recv + '.') \
                    and not r_.startswith(recv + '.full.trace'):
                ident = (None, r_)
        ok = ident is not None
        run.inst('LIVE.newness', inner, 'newness decided by identity with the remembered record', ok,
                 '' if ok else 'the emission of a new trace record is not decided by `record is not <remembered record>`', node=n.ast, obligation=True)
        if ident:
            mem = ident[1]
            ups = [m for m in g.nodes if m.kind == 'stmt' and isinstance(m.ast, ast.Assign) and any(dotted(t_) == mem for t_ in m.ast.targets)
                   and isinstance(m.ast.value, ast.Name) and m.ast.value.id == trv]
            # on every path after the record was fetched, the memory is updated (possibly under `tr is not None`)
            fetch = [m for m in g.nodes if m.kind == 'stmt' and isinstance(m.ast, ast.Assign) and any(isinstance(t_, ast.Name) and t_.id == trv for t_ in m.ast.targets)
                     and isinstance(m.ast.value, ast.Subscript)]
            # after the fetch the local is a record: the false side of `<local> is not None` is infeasible
            def feasible(a_, b_, lab_):
                if a_.kind == 'test' and lab_ in ('true', 'false'):
                    cp_ = compare_parts(a_.ast)
                    if cp_ and isinstance(cp_[0], ast.Name) and cp_[0].id == trv and is_none(cp_[2]):
                        # `<local> is not None` false / `<local> is None` true: infeasible once the local holds a record
                        if (cp_[1] is ast.IsNot and lab_ == 'false') or (cp_[1] is ast.Is and lab_ == 'true'):
                            return False
                return True
            ok = bool(ups) and bool(fetch) and all((g.count_on_paths(lambda n_: 1 if n_ in ups else 0, start=ft, edge_ok=feasible) or (0, 0))[0] >= 1 for ft in fetch)
            run.inst('LIVE.newness', inner, 'the remembered record is updated on every path that saw a record', ok,
                     '' if ok else 'after emitting (or skipping) a record the wrapper does not always remember it: it is emitted again after the next non-transition step',
                     obligation=True)
            # the same memory is written by the at-start wrapper and reset by clear_trace? (start emits the start record)
            fac2 = facs.get('print_trace_after_at_start_if_live')
            if fac2 is not None:
                inn2 = cg.factories[fac2]
                attr = mem.split('.', 1)[1]
                ups2 = [x for x in walk_shallow(inn2.node) if isinstance(x, ast.Assign) and any((dotted(t_) or '').endswith('.' + attr) for t_ in x.targets)]
                run.inst('LIVE.newness', inn2, 'the start record is remembered too', bool(ups2),
                         '' if ups2 else 'the live trace wrapper of start_at emits the start record without remembering it: the first step that is not a transition emits it again',
                         obligation=True)
        ok = all(any(g.dominates(fc, n) for fc in g.nodes if wrap.fn_calls_in(fc, fac.params[0])) for _ in [0])
        run.inst('LIVE.newness', inner, 'emission after the wrapped step', ok, 'emitted before the step', node=n.ast, obligation=True)
        cnt = queues.count(g, cbn)
        run.inst('LIVE.newness', inner, 'at most one emission per step', cnt is not None and cnt[1] <= 1, 'emissions per step: %s' % (cnt,), obligation=True)
    live_spy_loops(run, model, cg, facs)
    # ---- writer
    ao = model.cls('ActiveObject')
    wr = model.cls('InstrumenationWriterClass')
    for nm, cb in (('register_live_spy_callback', 'live_spy_callback'), ('register_live_trace_callback', 'live_trace_callback')):
        f = ao.methods.get(nm)
        if f is None:
            raise AnalysisError('ActiveObject.%s not found' % nm)
        helpers = list(f.nested.values())
        fn_param = f.params[1]
        if not helpers:
            # the closure may be built by a helper method of the object that takes the callback (`self.live_spy_callback = self.__enclose_for_writer(live_spy_callback)`)
            for c_ in shallow_calls(f.node):
                if isinstance(c_.func, ast.Attribute) and isinstance(c_.func.value, ast.Name) and c_.func.value.id == f.params[0] and len(c_.args) == 1 \
                        and isinstance(c_.args[0], ast.Name) and c_.args[0].id == f.params[1]:
                    m_ = next((k_.methods[c_.func.attr] for k_ in model.mro(ao) if c_.func.attr in k_.methods), None)
                    if m_ is None:
                        m_ = next((v_ for k2_, v_ in ao.methods.items() if k2_.endswith(c_.func.attr.lstrip('_')) or c_.func.attr.endswith(k2_.lstrip('_'))), None)
                    if m_ is not None and len(m_.nested) == 1 and len(m_.params) == 2:
                        helpers = list(m_.nested.values())
                        fn_param = m_.params[1]
        ok = len(helpers) == 1
        if ok:
            hcalls = shallow_calls(helpers[0].node)
            ok = len(hcalls) == 1 and isinstance(hcalls[0].func, ast.Attribute) and hcalls[0].func.attr == '_print' and (dotted(hcalls[0].func.value) or '').endswith('.writer')
            if ok:
                kw = {k.arg: k.value for k in hcalls[0].keywords}
                ok = isinstance(kw.get('fn'), ast.Name) and kw['fn'].id == fn_param and isinstance(kw.get('content'), ast.Name) and kw['content'].id == helpers[0].params[0]
        if not ok and not helpers:
            raise AnalysisError('%s: the callback wrapper is not a closure nested in the method (unknown shape)' % f.qualname)
        run.inst('LIVE.writer', f, 'callback wrapper only enqueues (fn, line) to the writer', ok, 'the active-object callback wrapper changed shape', obligation=True)
    pr = wr.methods.get('_print')
    puts = [c for c in shallow_calls(pr.node) if isinstance(c.func, ast.Attribute) and c.func.attr == 'put']
    ok = len(puts) == 1 and (dotted(puts[0].func.value) or '').endswith('._queue')
    run.inst('LIVE.writer', pr, 'one put on the writer queue per line', ok, 'writer _print puts %d items' % len(puts), obligation=True)
    writer_item_verbatim(run, model, wr, pr)
    st = wr.methods.get('start')
    runner = list(st.nested.values())
    if not runner:
        # the thread function may be a method of the writer: Thread(target=self.<method>)
        for c_ in shallow_calls(st.node):
            if norm(c_.func).split('.')[-1] == 'Thread':
                tg_ = next((k_.value for k_ in c_.keywords if k_.arg == 'target'), None)
                if isinstance(tg_, ast.Attribute) and isinstance(tg_.value, ast.Name) and tg_.value.id == st.params[0] and tg_.attr in wr.methods:
                    runner = [wr.methods[tg_.attr]]
    if len(runner) != 1:
        raise AnalysisError('writer thread function not found')
    r = runner[0]
    g = cfg_of(r)
    run.touch(r, g)
    heads = [h for h in g.loop_heads()]
    outer = [h for h in heads if not any(h in g.loop_body(o) for o in heads if o is not h)]
    if len(outer) != 1:
        raise AnalysisError('writer thread: loop not found')
    qname = '_queue'

    def on_queue(c, meths):
        return isinstance(c.func, ast.Attribute) and c.func.attr in meths and (dotted(c.func.value) or '').endswith('.' + qname)
    live = [n for n in g.nodes if n.kind not in ('entry', 'exit', 'xexit', 'def')]
    takes = [n for n in live if any(on_queue(c, ('get', 'get_nowait')) for c in n.calls())]
    ldefs_r = local_defs(r.node)
    item_names = {k_ for k_, v_ in ldefs_r.items() if any(isinstance(d_, ast.Call) and on_queue(d_, ('get', 'get_nowait')) for d_ in v_ if isinstance(d_, ast.AST))}
    derived = {k_ for k_, v_ in ldefs_r.items() if any(isinstance(d_, ast.Attribute) and isinstance(d_.value, ast.Name) and d_.value.id in item_names for d_ in v_ if isinstance(d_, ast.AST))}

    def is_fn_call(c):
        if isinstance(c.func, ast.Name) and c.func.id in derived and c.func.id != 'print':
            return True
        return isinstance(c.func, ast.Attribute) and isinstance(c.func.value, ast.Name) and c.func.value.id in item_names and c.func.attr not in ('task_done',)
    fns = [n for n in live if any(is_fn_call(c) for c in n.calls())]
    run.floor('writer thread: places where an item is taken', len(takes), 1)
    run.floor('writer thread: places where a callback is called', len(fns), 1)

    # the branch taken for the wake-up item stop() puts on the queue (`if <item> is None:`) delivers nothing by design
    sentinel_side = set()
    for t2_ in g.nodes:
        if t2_.kind == 'test' and isinstance(t2_.ast, ast.Compare) and len(t2_.ast.ops) == 1 and isinstance(t2_.ast.ops[0], (ast.Is, ast.IsNot)) \
                and isinstance(t2_.ast.left, ast.Name) and t2_.ast.left.id in item_names and isinstance(t2_.ast.comparators[0], ast.Constant) and t2_.ast.comparators[0].value is None:
            lab_ = 'true' if isinstance(t2_.ast.ops[0], ast.Is) else 'false'
            sentinel_side.update(m_ for m_, l_ in g.succ[t2_] if l_ == lab_)

    def simple_paths_counts(start, stops, weight):
        """(min, max) number of weight-nodes on simple paths from start to a node of `stops` (or the exit); normal edges only"""
        res = []
        budget = [20000]

        def rec(n, onpath, k):
            budget[0] -= 1
            if budget[0] < 0:
                raise AnalysisError('writer thread: too many paths')
            if n in sentinel_side:
                return          # the way of the wake-up item (`if item is None: ...`): it carries no line
            if n in stops or n is g.exit:
                res.append(k)
                return
            k2 = k + (1 if n in weight else 0)
            nxt = [m for m, lab in g.succ[n] if m not in onpath]
            if not nxt:
                res.append(k2)
                return
            for m in nxt:
                rec(m, onpath | {m}, k2)
        for m, lab in g.succ[start]:
            rec(m, {start, m}, 0)
        return (min(res), max(res)) if res else None
    for t_ in takes:
        nowait = any(on_queue(c, ('get_nowait',)) for c in t_.calls())
        # a non-blocking take may raise Empty instead of delivering: that way out makes no callback (0), the delivering way exactly one
        cnt = simple_paths_counts(t_, set(takes) | set(outer), set(fns))
        okc = cnt in ((1, 1),) or (nowait and cnt == (0, 1))
        run.inst('LIVE.writer', r, 'one item taken and one fn(content) per iteration', okc,
                 '' if okc else 'between taking an item (%s) and the next take the writer makes %s callback calls: a line is dropped or written twice' % (norm(t_.ast if t_.kind == 'stmt' else t_.stmt)[:50], cnt),
                 node=t_.ast if t_.kind == 'stmt' else None, obligation=True)
    # ---- how the writer sleeps: a blocking get() on the queue itself wakes for every put.  A separate flag (Event.wait) loses a wake-up unless the flag is cleared
    # *before* the queue is found empty - a line put between "found empty" and clear() sets the flag first and has it cleared afterwards, and stays in the queue
    waits = [(n, c) for n in live for c in n.calls() if isinstance(c.func, ast.Attribute) and c.func.attr == 'wait' and not (dotted(c.func.value) or '').endswith('.' + qname)]
    for wn, wc in waits:
        ev = dotted(wc.func.value)
        clears = {n for n in live for c in n.calls() if isinstance(c.func, ast.Attribute) and c.func.attr == 'clear' and dotted(c.func.value) == ev}
        observes = [n for n in live if any(on_queue(c, ('get_nowait', 'empty', 'qsize')) for c in n.calls())]

        def reach_avoiding(a, targets, avoid):
            seen, todo = {a}, [a]
            while todo:
                n = todo.pop()
                for m, _l in g.succ[n]:
                    if m in avoid or m in seen:
                        continue
                    if m in targets:
                        return m
                    seen.add(m)
                    todo.append(m)
            return None
        hit = reach_avoiding(wn, set(observes), clears)
        okw = hit is None and bool(clears)
        run.inst('LIVE.writer', r, 'the wake-up flag %s is cleared before the queue is examined' % ev, okw,
                 '' if okw else ('the writer thread sleeps on %s.wait() and examines the queue (%s) before it clears the flag: a line that is put - and the flag set - after the queue was found '
                                 'empty but before %s.clear() runs has its wake-up erased; the writer sleeps with the line still queued and it is never handed to the callback unless '
                                 'later output happens to wake it' % (ev, norm(hit.ast if hit is not None and hit.kind == 'stmt' else wc)[:50], ev)), node=wc, obligation=True)
    if not waits:
        blocking = [n for n in takes if any(on_queue(c, ('get',)) and not c.args and not any(k.arg in ('block', 'timeout') for k in c.keywords) for c in n.calls())]
        run.inst('LIVE.writer', r, 'the writer sleeps in a blocking get() of its queue', bool(blocking),
                 '' if blocking else 'the writer thread neither blocks in get() nor waits on a flag: it spins or exits while lines are pending', obligation=True)
    qtypes = cg.field_types.get((wr.name, '_queue'), set())
    run.inst('LIVE.writer', wr.name, 'the writer queue is a FIFO Queue', qtypes == {'Queue'}, 'writer queue type is %s' % sorted(map(str, qtypes)), obligation=True)
    # started only when not alive
    starts = []
    for f in model.all_funcs():
        for c in shallow_calls(f.node):
            if isinstance(c.func, ast.Attribute) and c.func.attr == 'start' and (dotted(c.func.value) or '').endswith('.writer'):
                gg = cfg_of(f)
                node = [n for n in gg.nodes if n.kind not in ('entry', 'exit', 'xexit', 'def') and any(x is c for x in n.walk())][0]
                tests = [t for t in gg.nodes if t.kind == 'test' and 'writer.is_alive()' in norm(t.ast) and guarded_by_edge(gg, node, t, 'true') and norm(t.ast).startswith('not ')]
                starts.append(bool(tests))
                run.inst('LIVE.writer', f, 'writer started only when not alive', bool(tests), 'a second writer thread can be started: lines of concurrent objects interleave out of order', node=c, obligation=True)
    run.floor('writer start sites', len(starts), 1)
    run.assume('queue.Queue is FIFO; user callbacks are outside the quantifier')
