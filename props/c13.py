"""C13 Fabric start/stop/restart keeps exactly one delivery thread per kind.

RETURNS.handle     : the thread-creating helper of start() returns the live handle on *every* path (a path that returns
                     nothing stores None in the handle, and the next start() creates a second thread of that kind).
ORDER.start        : a thread is created and started only on the branch where the stored handle is None or not alive;
                     the result of the helper is stored back into the handle it was given.
ORDER.stop         : stop(): the shared run event is cleared before any thread is woken; per thread the wake-up put precedes
                     the join, and the (handle, queue) pairs are those of start().
ALIVE.conjunction  : is_alive() is true exactly when both handles exist and both threads are alive (decided by evaluating
                     its body over all 9 combinations of {absent, alive, dead} x {absent, alive, dead}).
SHARED.run-event   : fabric and active objects read the same run event: every binding of a fabric_task_event attribute
                     is a call of the FiberThreadEvent singleton factory; the thread consumer clears the object's own flag
                     when that event is clear.
ALIAS.thread-args  : what the threads were started with is never rebound (shared with C06).
"""
import ast
import itertools

from sa.model import AnalysisError, walk_shallow, dotted, norm
from sa.util import cfg_of, shallow_calls, guarded_by_edge, strip_not, local_defs, resolve_name
from sa import fabric, queues, pureeval
from sa.context import callgraph


def check(run, model, tier):
    run.explanation = ('Return-path completeness, dominance order and alias analysis of ActiveFabricSource.start/stop/is_alive/clear, plus '
                       'finite evaluation of is_alive over all handle states. "At most one thread per kind for every sequence of start/stop '
                       'calls" reduces to: a new thread only when the stored handle is dead or absent, and the handle always stored back - '
                       'both visible per path.')
    for r, t in (('RETURNS.handle', 'thread helper returns the handle on every path'),
                 ('ORDER.start', 'Thread() only under "handle is None or not alive"; result stored into the same handle'),
                 ('ORDER.stop', 'clear event < put wake-up < join, per (handle, queue) pair of start()'),
                 ('ALIVE.conjunction', 'is_alive() == both handles present and alive (9 cases)'),
                 ('SHARED.run-event', 'all fabric_task_event bindings come from the FiberThreadEvent singleton; consumer obeys it'),
                 ('ALIAS.thread-args', 'thread-shared attributes are not rebound outside __init__')):
        run.rule(r, t)
    w = fabric.wiring(model)
    if not w.consistent:
        run.inst('KIND.wiring', w.subscribe, 'each kind is registered in the registry its own delivery thread reads', False,
                 'subscribe(queue_type=k) writes %s but the threads read %s' % (w.registry, sorted(w.threads)), obligation=True)
        return
    fab = w.fab
    ih = w.initiate
    g = cfg_of(ih)
    run.touch(ih, g)
    # the handle parameter: the one that receives self.<handle>
    hps = set()
    for reg, th in w.threads.items():
        hps.update(th['handle_arg'])
    if len(hps) == 0:
        # the helper does not receive the stored handle: whether a thread of that kind is already running must then be settled in start(), per handle, before each call
        from sa.boolflow import values_at as _va
        gs_ = cfg_of(w.start)
        for reg, th in sorted(w.threads.items()):
            hattr = '%s.%s' % (w.start.params[0], th['handle'])
            cn = [n for n in gs_.nodes if n.kind not in ('entry', 'exit', 'xexit', 'def') and any(x is th['call'] for x in n.walk())]
            kn, ka = '%s is None' % hattr, '%s.is_alive()' % hattr
            vals = _va(gs_, cn[0], {kn, ka}, fnode=w.start.node, params=w.start.params) if cn else []
            ok = bool(vals) and all(v.get(kn) is True or v.get(ka) is False for v in vals)
            run.inst('ORDER.start', w.start, 'a %s thread is created only when no live thread is stored' % th['handle'], ok,
                     '' if ok else ('start() creates a new delivery thread for %s without first establishing that this handle is None or dead (a test on the conjunction of both '
                                    'kinds says nothing when exactly one thread has died): the surviving kind gets a second thread, its old handle is overwritten and stop() '
                                    'no longer reaches it' % th['handle']), node=th['call'], obligation=True)
        run.floor('delivery threads created by start()', len(w.threads), 2)
        return
    if len(hps) != 1:
        raise AnalysisError('thread helper: handle parameter not identified')
    hp = hps.pop()
    # ---- RETURNS.handle (path rule on the reaching definitions of every returned value): what comes back is either the thread created on this path, or the handle
    # that came in on a path that established it to be a live thread
    from sa.util import returned_values
    from sa.boolflow import values_at
    k_none, k_alive = '%s is None' % hp, '%s.is_alive()' % hp
    creates = [n for n in g.nodes if n.kind not in ('entry', 'exit', 'xexit', 'def') and any(isinstance(c.func, ast.Name) and c.func.id == 'Thread' for c in n.calls())]
    cvars = {t.id for n in creates if isinstance(n.ast, ast.Assign) for t in n.ast.targets if isinstance(t, ast.Name)}
    starts = [n for n in g.nodes if n.kind not in ('entry', 'exit', 'xexit', 'def') and
              any(isinstance(c.func, ast.Attribute) and c.func.attr == 'start' and isinstance(c.func.value, ast.Name) and c.func.value.id in (cvars | {hp}) for c in n.calls())]
    bad = []
    n_out = 0
    for p_, lab_, vals in returned_values(g, ih.params):
        n_out += 1
        for v, dn in vals:
            if dn in creates and isinstance(v, ast.Call):
                continue                                    # the thread created on this path
            if dn is g.entry and v is None and isinstance(p_.ast, ast.Return) and isinstance(p_.ast.value, ast.Name) and p_.ast.value.id == hp:
                # the handle that came in, untouched: fine where it is known to be a live thread - and only if no thread was created on the way
                va = values_at(g, p_, {k_none, k_alive})
                live = bool(va) and all(x.get(k_none) is False and x.get(k_alive) is True for x in va)
                through_create = any(g.exists_path(c_, p_) for c_ in creates) and not live
                if live and not through_create:
                    continue
                # (a single return after an if that rebinds the parameter: the incoming definition reaches the return only on the live path)
                if all((x.get(k_none) is False and x.get(k_alive) is True) or any(g.exists_path(c_, p_) for c_ in creates) for x in va) and va:
                    continue
            bad.append((p_, v))
    ok = not bad and n_out >= 1
    run.inst('RETURNS.handle', ih, 'returns the handle on every path', ok,
             '' if ok else ('the helper can finish without returning the thread handle (%s): start() then stores None (or a stale object) in the handle while the thread is alive, '
                            'is_alive() reports False and the next start() creates a second delivery thread of that kind'
                            % ('after ' + bad[0][0].text()[:60] if bad else 'no return')), obligation=True)
    # ---- ORDER.start
    run.floor('Thread creation sites in the helper', len(creates), 1)
    run.floor('thread start sites in the helper', len(starts), 1)
    for n in creates + starts:
        # path-sensitive: wherever a thread is created/started, the handle that came in was None or not alive (whatever the shape of the tests)
        vals = values_at(g, n, {k_none, k_alive})
        ok = bool(vals) and all(v.get(k_none) is True or v.get(k_alive) is False or (n in starts and k_none not in v and k_alive not in v and
                                                                                      any(g.dominates(c_, n) for c_ in creates)) for v in vals)
        run.inst('ORDER.start', ih, '%s only when no live thread is stored' % ('Thread()' if n in creates else 'start()'), ok,
                 '' if ok else 'a delivery thread is created/started without first establishing that the stored handle is None or dead: '
                 'repeated start() calls accumulate threads', node=n.ast, obligation=True)
    # the created thread is the one that is started and handed back
    for n in creates:
        bound = [t.id for t in n.ast.targets if isinstance(t, ast.Name)] if isinstance(n.ast, ast.Assign) else []
        started = any(any(isinstance(c.func, ast.Attribute) and c.func.attr == 'start' and isinstance(c.func.value, ast.Name) and c.func.value.id in bound for c in s_.calls())
                      and g.exists_path(n, s_) for s_ in starts)
        handed = all(any(dn is n for v, dn in vals) for p_, lab_, vals in returned_values(g, ih.params) if g.exists_path(n, p_))
        ok = bool(bound) and started and handed
        run.inst('ORDER.start', ih, 'the new thread replaces the handle', ok, 'the created thread is not started, or is not the handle that is returned', node=n.ast, obligation=True)
    # the handle is stored as soon as the thread exists: nothing that can fail (creating the other thread) lies between creating a thread and recording it
    gs0 = cfg_of(w.start)
    for reg, th in sorted(w.threads.items()):
        cn_ = [n_ for n_ in gs0.nodes if n_.kind == 'stmt' and n_.ast is th['create_stmt']]
        sn_ = [n_ for n_ in gs0.nodes if n_.kind == 'stmt' and n_.ast is th['store_stmt']]
        between = []
        if cn_ and sn_ and cn_[0] is not sn_[0]:
            for o_reg, o_th in w.threads.items():
                on_ = [n_ for n_ in gs0.nodes if n_.kind == 'stmt' and n_.ast is o_th['create_stmt']]
                if o_reg != reg and on_ and gs0.exists_path(cn_[0], on_[0]) and gs0.exists_path(on_[0], sn_[0]):
                    between.append(o_th['handle'])
        ok = bool(cn_) and bool(sn_) and not between
        run.inst('ORDER.start', w.start, 'handle %s is recorded before anything else can fail' % th['handle'], ok,
                 '' if ok else ('the %s thread is created and started, but its handle is stored only after the %s thread has been created too: if that second creation fails '
                                '(RuntimeError: can\'t start new thread) the running thread is never recorded - the next start() creates a second one, stop() cannot reach the '
                                'first, and is_alive() reports False while it delivers' % (th['handle'], ', '.join(between))), node=th['call'], obligation=True)
    for reg, th in sorted(w.threads.items()):
        c = th['call']
        ok = th['handle'] is not None and dotted(th['args'].get(hp)) == w.start.params[0] + '.' + th['handle']
        run.inst('ORDER.start', w.start, 'handle %s: passed in and stored back' % th['handle'], ok,
                 '' if ok else 'the helper result is stored in %s but was computed from %s' % (th['handle'], norm(th['args'].get(hp)) if th['args'].get(hp) is not None else None),
                 node=c, obligation=True)
    # start sets the run event before creating threads
    gs = cfg_of(w.start)
    sets = [n for n in gs.nodes if n.kind not in ('entry', 'exit', 'xexit', 'def') and any(isinstance(c.func, ast.Attribute) and c.func.attr == 'set' for c in n.calls())]
    helper_calls = [n for n in gs.nodes if n.kind not in ('entry', 'exit', 'xexit', 'def') and any(isinstance(c.func, ast.Name) and c.func.id == ih.name for c in n.calls())]
    ok = bool(sets) and all(any(gs.dominates(s, hc) for s in sets) for hc in helper_calls)
    run.inst('ORDER.start', w.start, 'run event set before the threads are created', ok, 'threads may start with the run event clear and exit at once', obligation=True)
    # ---- ORDER.stop
    stop = fab.methods.get('stop')
    if stop is None:
        raise AnalysisError('ActiveFabricSource.stop not found')
    gst = cfg_of(stop)
    run.touch(stop, gst)
    clears = [n for n in gst.nodes if n.kind not in ('entry', 'exit', 'xexit', 'def') and any(isinstance(c.func, ast.Attribute) and c.func.attr == 'clear' for c in n.calls())]
    sh = list(stop.nested.values())
    if len(sh) > 1:
        raise AnalysisError('stop: more than one nested helper')
    pairs_start = {(th['handle'], th['queue'][0] if th['queue'] else None) for th in w.threads.values()}
    sdefs = local_defs(stop.node)
    selfs = stop.params[0]
    # the places where a thread is woken and joined: inside the one nested helper (called once per kind with (handle, queue)), or in stop() itself, once per kind
    instances = []          # (function, cfg, thread expression, queue expression)
    if sh:
        sh = sh[0]
        scalls = [(n, c) for n in gst.nodes if n.kind not in ('entry', 'exit', 'xexit', 'def') for c in n.calls() if isinstance(c.func, ast.Name) and c.func.id == sh.name]
        wake_nodes = [n for n, c in scalls]
        pairs_stop = set()
        for n, c in scalls:
            a = [dotted(x) for x in c.args] + [dotted(k.value) for k in c.keywords]
            pairs_stop.add(tuple(x.split('.', 1)[1] if x and '.' in x else x for x in a))
        if len(sh.params) < 2:
            raise AnalysisError('stop helper does not take (thread, queue)')
        instances.append((sh, cfg_of(sh), sh.params[0], sh.params[1]))
    else:
        pairs_stop = set()
        wake_nodes = []
        for h_, q_ in sorted(pairs_start):
            te, qe = '%s.%s' % (selfs, h_), '%s.%s' % (selfs, q_)
            js = [n for n in gst.nodes if n.kind not in ('entry', 'exit', 'xexit', 'def') and any(isinstance(c.func, ast.Attribute) and c.func.attr == 'join' and dotted(c.func.value) == te for c in n.calls())]
            ps = [n for n in gst.nodes if n.kind not in ('entry', 'exit', 'xexit', 'def') and any(isinstance(c.func, ast.Attribute) and c.func.attr in ('put', 'put_nowait') and dotted(c.func.value) == qe for c in n.calls())]
            if js:
                pairs_stop.add((h_, q_ if ps else None))
            wake_nodes += ps
            instances.append((stop, gst, te, qe))
        # a join on anything else
        for n in gst.nodes:
            if n.kind in ('entry', 'exit', 'xexit', 'def'):
                continue
            for c in n.calls():
                if isinstance(c.func, ast.Attribute) and c.func.attr == 'join' and (dotted(c.func.value) or '').split('.')[-1] not in {h for h, q in pairs_start}:
                    raise AnalysisError('stop joins %s: not one of the fabric thread handles' % norm(c.func.value))
    ok = bool(clears) and all(any(gst.dominates(cl, n) for cl in clears) for n in wake_nodes) and bool(wake_nodes)
    run.inst('ORDER.stop', stop, 'run event cleared before any thread is woken', ok,
             '' if ok else 'a delivery thread is woken before the run event is cleared: it loops again and blocks on its queue, join never returns', obligation=True)
    # cleared object is the singleton run event
    for cl in clears:
        for c in cl.calls():
            if isinstance(c.func, ast.Attribute) and c.func.attr == 'clear':
                recv = c.func.value
                src = sdefs.get(recv.id, [None])[0] if isinstance(recv, ast.Name) else recv
                ok = (isinstance(src, ast.Call) and norm(src.func) == 'FiberThreadEvent') or (dotted(recv) or '').endswith('fabric_task_event')
                run.inst('ORDER.stop', stop, 'clears the shared run event', ok, 'stop clears %s, not the shared run event' % norm(recv), node=c, obligation=True)
    ok = pairs_stop == pairs_start
    run.inst('ORDER.stop', stop, '(handle, queue) pairs of stop == pairs of start', ok,
             '' if ok else 'stop wakes/joins %s but start created %s: a thread is woken through a queue it does not read' % (sorted(pairs_stop, key=str), sorted(pairs_start, key=str)), obligation=True)
    n_join = 0
    item_classes = set()
    pub_ = fab.methods.get('publish')
    if pub_ is not None:
        pdefs_ = local_defs(pub_.node)
        for c in shallow_calls(pub_.node):
            if isinstance(c.func, ast.Attribute) and c.func.attr in ('put', 'put_nowait') and c.args:
                it_ = resolve_name(c.args[0], pdefs_)
                if isinstance(it_, ast.Call):
                    item_classes.add(norm(it_.func))
    for fn_, gh, tp, qp in instances:
        puts = [n for n in gh.nodes if n.kind not in ('entry', 'exit', 'xexit', 'def') and
                any(isinstance(c.func, ast.Attribute) and c.func.attr in ('put', 'put_nowait') and dotted(c.func.value) == qp for c in n.calls())]
        joins = [n for n in gh.nodes if n.kind not in ('entry', 'exit', 'xexit', 'def') and
                 any(isinstance(c.func, ast.Attribute) and c.func.attr == 'join' and dotted(c.func.value) == tp for c in n.calls())]
        n_join += len(joins)
        for j in joins:
            ok = any(gh.dominates(p, j) for p in puts)
            run.inst('ORDER.stop', fn_, 'wake-up put precedes the join of %s' % tp, ok,
                     '' if ok else 'join() is reached without a wake-up item having been put: the thread is blocked in get() and join never returns', node=j.ast, obligation=True)
            jv = values_at(gh, j, {'%s.is_alive()' % tp, '%s is None' % tp})
            alive = bool(jv) and all(v.get('%s.is_alive()' % tp) is True for v in jv)
            run.inst('ORDER.stop', fn_, 'join only a live thread (%s)' % tp, bool(alive), 'join is attempted on a thread that may never have started', node=j.ast, obligation=True)
        # what is put to wake the thread shares a heap with pending publications: it must be an item of the class publish() queues (anything else - None, a
        # bare event, a tuple - is compared with `<` against the queued items and raises TypeError unless the heap happens to be empty)
        fdefs = local_defs(fn_.node)
        for p in puts:
            for c in p.calls():
                if isinstance(c.func, ast.Attribute) and c.func.attr in ('put', 'put_nowait') and dotted(c.func.value) == qp and c.args:
                    item = resolve_name(c.args[0], fdefs)
                    okc = isinstance(item, ast.Call) and norm(item.func) in item_classes
                    run.inst('ORDER.stop', fn_, 'the wake-up item is of the class publish() queues: ' + norm(item), okc,
                             '' if okc else ('stop() wakes the delivery thread by putting %s into its priority queue, where publish() puts %s: with a publication still waiting the heap '
                                             'compares the two with `<` and raises TypeError - stop() fails half way (run event already cleared, threads not joined) and the stray item '
                                             'makes the delivery thread of every later start() crash' % (norm(item), ' / '.join(sorted(item_classes)) or '?')), node=c, obligation=True)
    run.floor('stop: join sites', n_join, 1)
    # ---- delivery loops end only through the shared run event
    from props.c06 import runner_params
    for reg, th in sorted(w.threads.items()):
        r = th['runner']
        flagp, qp2, rp2 = runner_params(w, reg)
        grn = cfg_of(r)
        run.touch(r, grn)
        hds = [hd for hd in grn.loop_heads() if hd.kind == 'test']
        if len(hds) != 1:
            raise AnalysisError('%s: expected one while loop' % r.qualname)
        hd = hds[0]
        inner_, pol_ = strip_not(hd.ast)
        ok = isinstance(inner_, ast.Call) and isinstance(inner_.func, ast.Attribute) and inner_.func.attr == 'is_set' and dotted(inner_.func.value) == flagp and pol_
        run.inst('ORDER.stop', r, 'delivery loop guard reads the shared run event', ok, 'loop guard is %s' % norm(hd.ast), node=hd.ast, obligation=True)
        body = grn.loop_body(hd)
        exits = [n for n in grn.nodes if n.kind == 'stmt' and isinstance(n.ast, (ast.Break, ast.Return)) and any(x is n.ast for x in ast.walk(hd.stmt))]
        for ex in exits:
            guarded = False
            for t in grn.nodes:
                if t.kind != 'test' or t is hd:
                    continue
                i3, p3 = strip_not(t.ast)
                if isinstance(i3, ast.Call) and isinstance(i3.func, ast.Attribute) and i3.func.attr == 'is_set' and dotted(i3.func.value) == flagp \
                        and guarded_by_edge(grn, ex, t, 'false' if p3 else 'true'):
                    guarded = True
            run.inst('ORDER.stop', r, 'delivery thread leaves its loop only when the run event is clear', guarded,
                     '' if guarded else ('the delivery thread can leave its loop at `%s` while the run event is set, i.e. depending on what it took from its queue: '
                                         'a wake-up item left over from an earlier stop() (the thread had exited through the loop guard without consuming it) ends '
                                         'the thread that the next start() creates, so delivery never resumes' % norm(ex.ast)), node=ex.ast, obligation=True)
        run.inst('ORDER.stop', r, 'loop exits scanned: %d' % len(exits), True, nontrivial=True)
    # ---- ALIVE.conjunction
    ia = fab.methods.get('is_alive')
    if ia is None:
        raise AnalysisError('ActiveFabricSource.is_alive not found')
    handles = sorted(th['handle'] for th in w.threads.values())
    mism = []
    n_cases = 0
    for st in itertools.product(('absent', 'alive', 'dead'), repeat=len(handles)):
        fields = {}
        for hname, s_ in zip(handles, st):
            fields[hname] = None if s_ == 'absent' else pureeval.Obj(is_alive=(lambda v=(s_ == 'alive'): v))
        me = pureeval.Obj(**fields)
        got = bool(pureeval.call(ia.node, [me]))
        want = all(s_ == 'alive' for s_ in st)
        n_cases += 1
        if got != want:
            mism.append((st, got, want))
    run.inst('ALIVE.conjunction', ia, 'is_alive() == all threads alive, on %d handle states' % n_cases, not mism,
             '' if not mism else 'is_alive() is %s for handle states %s, expected %s' % (mism[0][1], dict(zip(handles, mism[0][0])), mism[0][2]), obligation=True)
    # ---- SHARED.run-event
    n_b = 0
    for f in model.all_funcs():
        for stt in walk_shallow(f.node):
            if isinstance(stt, ast.Assign) and any((dotted(t) or '').endswith('.fabric_task_event') for t in stt.targets):
                n_b += 1
                ok = isinstance(stt.value, ast.Call) and norm(stt.value.func) == 'FiberThreadEvent'
                run.inst('SHARED.run-event', f, 'binding ' + norm(stt), ok,
                         '' if ok else 'a private event object is used as the fabric run event: stopping the fabric no longer reaches it', node=stt, obligation=True)
    run.floor('bindings of fabric_task_event', n_b, 3)
    singles = model.singleton_factories()
    run.inst('SHARED.run-event', 'activeobject.<module>', 'FiberThreadEvent is a singleton factory', 'FiberThreadEvent' in singles,
             'FiberThreadEvent is no longer a singleton: each holder gets its own event', obligation=True)
    # consumer obeys it
    ao = model.cls('ActiveObject')
    re_ = ao.methods.get('run_event')
    gr = cfg_of(re_)
    cg = callgraph(model)
    spawn = [(f, c) for f, ts, c in cg.spawns if re_ in ts]
    sargs = next((kw.value for kw in spawn[0][1].keywords if kw.arg == 'args'), None) if spawn else None
    if not isinstance(sargs, ast.Tuple):
        raise AnalysisError('run_event spawn site not recognised')
    bind = dict(zip(re_.params[1:], [dotted(a) for a in sargs.elts]))
    fab_p = [p for p, a in bind.items() if a and a.endswith('fabric_task_event')]
    flag_p = [p for p, a in bind.items() if a and a.endswith('activeobject_task_event')]
    if len(fab_p) != 1 or len(flag_p) != 1:
        raise AnalysisError('run_event flag parameters not identified')
    tests = [t for t in gr.nodes if t.kind == 'test' and isinstance(strip_not(t.ast)[0], ast.Call) and norm(strip_not(t.ast)[0].func) == fab_p[0] + '.is_set']
    ok = False
    for t in tests:
        inner, pol = strip_not(t.ast)
        lab = 'false' if pol else 'true'
        succ = [m for m, l in gr.succ[t] if l == lab]
        clears2 = [n for n in gr.nodes if n.kind not in ('entry', 'exit', 'xexit', 'def') and
                   any(isinstance(c.func, ast.Attribute) and c.func.attr == 'clear' and dotted(c.func.value) == flag_p[0] for c in n.calls())]
        for m in succ:
            heads = [h for h in gr.loop_heads()]
            end = heads[0] if heads else gr.exit
            cnt = queues.count(gr, clears2, start=m, end=end)
            if cnt is not None and cnt[0] >= 1:
                ok = True
    run.inst('SHARED.run-event', re_, 'a cleared fabric event clears the object\'s run flag', ok,
             '' if ok else 'when the fabric run event is clear the active object does not stop itself at its next wake-up', obligation=True)
    # ---- ALIAS (same rule as C06)
    handed = set()
    for reg, th in w.threads.items():
        handed.add(reg)
        handed.update(th['queue'])
    for f in fab.methods.values():
        for stt in walk_shallow(f.node):
            if isinstance(stt, (ast.Assign, ast.AugAssign)):
                tg2 = stt.targets if isinstance(stt, ast.Assign) else [stt.target]
                for t in tg2:
                    d = dotted(t)
                    if d and d.startswith(f.params[0] + '.') and d.split('.', 1)[1] in handed and f.name != '__init__':
                        run.inst('ALIAS.thread-args', f, 'binds ' + d.split('.', 1)[1], False,
                                 '%s rebinds %s while the delivery threads hold the old object: stop() wakes a queue nobody reads and never returns'
                                 % (f.qualname, d.split('.', 1)[1]), node=stt, obligation=True)
    run.inst('ALIAS.thread-args', fab.name, 'thread-shared attributes: %s' % sorted(handed), True, nontrivial=True)
    run.assume('Thread.is_alive() is True between start() and the end of the target; a daemon thread blocked in Queue.get() ends only when woken')
