"""C27 Thread-safe attributes lose no updates and never fail under concurrency.

LOCKSET.value-access    : every read of the stored value in __get__ is dominated by the acquire (a reader waits for an
                          in-flight augmented assignment); the store in __set__ follows the acquire on the plain path.
LOCKSET.flag-access     : every read of the shared hand-over flag that decides whether to acquire is made with the
                          lock held (otherwise thread B can see thread A's "non-atomic" flag and release A's lock).
LOCKSET.balance         : per protocol step the acquire/release balance is what the hand-over needs:
                          __get__ atomic path 0, __get__ keep path +1, __set__ continuing path -1, __set__ plain path 0;
                          no path acquires twice or releases twice.
LOCKSET.one-lock        : one re-entrant lock per descriptor, created in __init__.
"""
import ast

from sa.model import AnalysisError, walk_shallow, dotted, norm
from sa.util import cfg_of, strip_not


def lock_nodes(g, selfn, lock, meth):
    out = []
    for n in g.nodes:
        if n.kind in ('entry', 'exit', 'xexit', 'def'):
            continue
        for c in n.calls():
            if isinstance(c.func, ast.Attribute) and c.func.attr == meth and dotted(c.func.value) == '%s.%s' % (selfn, lock):
                out.append(n)
    return out


def held_states(g, acq, rel, entry_held):
    """forward dataflow: set of possible lock depths (relative to entry) at each node entry"""
    state = {n: set() for n in g.nodes}
    state[g.entry] = {entry_held}
    todo = [g.entry]
    while todo:
        n = todo.pop()
        out = set()
        for d in state[n]:
            if n in acq:
                d += 1
            if n in rel:
                d -= 1
            out.add(d)
        for m, _lab in g.succ[n]:
            if not out <= state[m]:
                if len(state[m] | out) > 8:
                    raise AnalysisError('lock depth does not stabilise')
                state[m] |= out
                todo.append(m)
    return state


def check(run, model, tier):
    run.explanation = ('Lockset analysis of the two descriptor methods of ThreadSafeAttribute: a forward dataflow computes the set '
                       'of possible lock depths at every CFG node, and each access to the stored value and to the hand-over flag is '
                       'judged against it. The conclusions hold for every interleaving because they are per-thread facts about '
                       'which accesses are inside the critical section.')
    run.rule('LOCKSET.value-access', 'the stored value is read/written only while the lock is held')
    run.rule('LOCKSET.flag-access', 'the hand-over flag is read only while the lock is held')
    run.rule('LOCKSET.balance', 'acquire/release balance per path: get atomic 0, get keep +1, set continue -1, set plain 0')
    run.rule('LOCKSET.one-lock', 'one RLock per descriptor created in __init__')
    cls = model.cls('ThreadSafeAttribute')
    get, st, init = cls.methods.get('__get__'), cls.methods.get('__set__'), cls.methods.get('__init__')
    if not (get and st and init):
        raise AnalysisError('ThreadSafeAttribute protocol methods not found')
    # ---- the lock
    locks = []
    for n in walk_shallow(init.node):
        if isinstance(n, ast.Assign) and isinstance(n.value, ast.Call):
            nm = norm(n.value.func).split('.')[-1]
            if nm in ('RLock', 'Lock'):
                for t in n.targets:
                    d = dotted(t)
                    if d and d.startswith('self.'):
                        locks.append((d.split('.', 1)[1], nm, n))
    if len(locks) != 1:
        raise AnalysisError('expected exactly one lock created in ThreadSafeAttribute.__init__, found %d' % len(locks))
    lock, kind, lnode = locks[0]
    run.inst('LOCKSET.one-lock', init, 'lock %s = %s()' % (lock, kind), kind == 'RLock',
             'the hand-over protocol re-enters (get keeps, set of the same thread continues): needs RLock', node=lnode, nontrivial=False)
    # the flag: attribute of self assigned a bool constant in __get__ and tested in __set__
    flag = None
    for n in walk_shallow(st.node):
        if isinstance(n, ast.If):
            from sa.util import expand_locals as _xl0
            inner, pol = strip_not(_xl0(n.test, st.node, params=st.params))
            d = dotted(inner)
            if d and d.startswith(st.params[0] + '.'):
                flag = d.split('.', 1)[1]
                flag_pol = pol
    for f in (get, st):
        g = cfg_of(f)
        run.touch(f, g)
        selfn = f.params[0]
        acq = set(lock_nodes(g, selfn, lock, 'acquire'))
        rel = set(lock_nodes(g, selfn, lock, 'release'))
        run.floor('%s acquire sites' % f.name, len(acq), 1)
        run.floor('%s release sites' % f.name, len(rel), 1)
        if any(isinstance(n.stmt, ast.With) and lock in norm(n.stmt) for n in g.nodes if n.kind == 'with'):
            raise AnalysisError('with-statement locking in %s: unknown idiom for the hand-over protocol' % f.qualname)
        # value storage accesses: anything that is not the lock, the flag, the initial value / key
        if f is st:
            # __set__ may be entered holding the lock (continuation of an augmented assignment): analyse both
            entries = [0]
        else:
            entries = [0]
        states = held_states(g, acq, rel, 0)
        # ----- balance at exit, per path class
        exit_depths = set()
        for p, lab in g.pred[g.exit]:
            for d in states[p]:
                d2 = d + (1 if p in acq else 0) - (1 if p in rel else 0)
                exit_depths.add(d2)
        if f is get:
            ok = exit_depths == {0, 1}
            run.inst('LOCKSET.balance', f, 'exit depths {0 atomic, +1 keep}', ok,
                     '' if ok else '__get__ leaves with lock depths %s; the protocol needs exactly {0, +1}' % sorted(exit_depths), obligation=True)
        else:
            ok = exit_depths == {0, -1}
            run.inst('LOCKSET.balance', f, 'exit depths {0 plain, -1 continue}', ok,
                     '' if ok else '__set__ leaves with lock depths %s; the protocol needs exactly {0, -1}' % sorted(exit_depths), obligation=True)
        # ----- accesses
        for n in g.nodes:
            if n.kind in ('entry', 'exit', 'xexit', 'def'):
                continue
            for x in n.walk():
                if not isinstance(x, ast.Attribute):
                    continue
                d = dotted(x)
                if not d or not d.startswith(selfn + '.') or d.count('.') != 1:
                    continue
                attr = x.attr
                if attr == lock:
                    continue
                if attr in cls.methods:
                    # a helper that *stores* (into the instance's storage or into the descriptor) is a write of shared state at the depth of its call site
                    hm = cls.methods[attr]
                    hstores = [y for y in ast.walk(hm.node) if (isinstance(y, (ast.Subscript, ast.Attribute)) and isinstance(y.ctx, (ast.Store, ast.Del)))
                               or (isinstance(y, ast.Call) and isinstance(y.func, ast.Attribute) and y.func.attr in ('setdefault', 'update', 'pop', 'popitem', 'clear', '__setitem__', 'append'))
                               or (isinstance(y, ast.Call) and isinstance(y.func, ast.Name) and y.func.id in ('setattr', 'delattr'))]
                    if hstores and isinstance(x.ctx, ast.Load):
                        held_here = bool(states[n]) and min(states[n]) >= 1
                        run.inst('LOCKSET.value-access', f, 'helper %s() stores shared state: called with the lock held' % attr, held_here,
                                 '' if held_here else ('%s calls %s() on a path where the lock is not held (it has been given back, or was never taken), and %s() stores (%s): a check-then-store '
                                                       'outside the critical section - an assignment or update that another thread completes in between is overwritten, which no serial order '
                                                       'of the statements produces' % (f.qualname, attr, attr, norm(hstores[0]))), node=x, obligation=True)
                    # a helper of the descriptor that reads the stored value (anything but the source-line classifiers) is a value access
                    classifiers = {c_.func.attr for t_ in g.nodes if t_.kind == 'test' for c_ in t_.calls() if isinstance(c_.func, ast.Attribute) and dotted(c_.func.value) == selfn}
                    if f is get and attr not in classifiers:
                        ok = any(g.dominates(a, n) for a in acq)
                        run.inst('LOCKSET.value-access', f, 'read through %s()' % attr, ok,
                                 '' if ok else 'the stored value is read (through %s) on a path that did not first take the lock: an update in flight on another thread is not waited for' % attr,
                                 node=x, obligation=True)
                    continue
                depths = states[n]
                if attr == flag:
                    if isinstance(x.ctx, ast.Load):
                        if f is st:
                            # in __set__ the thread may already hold the lock only if the flag says so: judge the *decision* read
                            ok = min(depths) >= 1
                            run.inst('LOCKSET.flag-access', f, 'read %s in test self.%s' % (attr, attr), ok,
                                     '' if ok else ('__set__ reads the shared flag %s before it holds the lock: a plain assignment racing with another '
                                                    'thread\'s augmented assignment sees that thread\'s "non-atomic" flag, skips acquire, and releases '
                                                    'a lock it does not own (RuntimeError) or overwrites inside the other thread\'s critical section' % attr),
                                     node=x, obligation=True)
                        else:
                            ok = min(depths) >= 1
                            run.inst('LOCKSET.flag-access', f, 'read %s in %s' % (attr, n.text()), ok,
                                     '' if ok else 'flag read outside the critical section', node=x, obligation=True)
                    else:
                        # __set__ enters either holding the lock (continuation of an augmented assignment) or takes it: its write of the flag is inside the critical
                        # section as long as no release lies before it on any path
                        held = min(depths) >= 1 if f is get else not any(r_ is n or g.exists_path(r_, n) for r_ in rel)
                        run.inst('LOCKSET.flag-access', f, 'write %s in %s' % (attr, n.text()), held,
                                 '' if held else ('the hand-over flag is written after the lock has been given back: another thread that performs the read half of an augmented assignment '
                                                  'in that gap has its "continuing" mark erased, its __set__ then takes the lock a second time and releases it once - the attribute\'s lock '
                                                  'stays held and every later access from another thread blocks for good'), node=x, obligation=True)
                    continue
                # attributes bound once in __init__ and never again (the storage key, the initial value) are configuration, not shared mutable state
                rebinders = [m_ for m_ in cls.methods.values() if m_.name != '__init__' and
                             any(isinstance(y, ast.Attribute) and y.attr == attr and isinstance(y.ctx, (ast.Store, ast.Del)) and isinstance(y.value, ast.Name) and y.value.id == m_.params[0]
                                 for y in ast.walk(m_.node))]
                if not rebinders and isinstance(x.ctx, ast.Load) and not any(isinstance(p_, ast.Subscript) and p_.value is x and isinstance(p_.ctx, ast.Store) for p_ in n.walk()):
                    continue
                # the stored value
                if f is get:
                    # a reader must have waited for an in-flight augmented assignment: the acquire dominates the access
                    # (a single attribute load after the release on the atomic path is still a serialisable read)
                    ok = any(g.dominates(a, n) for a in acq)
                    if isinstance(x.ctx, ast.Store):
                        ok = ok and min(depths) >= 1
                    run.inst('LOCKSET.value-access', f, '%s %s' % ('read' if isinstance(x.ctx, ast.Load) else 'write', attr), ok,
                             '' if ok else '%s is accessed in __get__ on a path that did not first take the lock: an update in flight on '
                             'another thread is not waited for (lost update)' % attr, node=x, obligation=True)
        if f is st:
            # the store of the value: dominated by (acquire on the plain path); and release post-dominates it
            selfn, inst, val = f.params[0], f.params[1], f.params[2]
            stores = [n for n in g.nodes if n.kind == 'stmt' and isinstance(n.ast, ast.Assign)
                      and any(isinstance(y, ast.Name) and y.id == val for y in ast.walk(n.ast.value))]
            # ... or the value handed to setattr / a storing method of the instance's namespace
            stores += [n for n in g.nodes if n.kind == 'stmt' and isinstance(n.ast, ast.Expr) and isinstance(n.ast.value, ast.Call)
                       and ((isinstance(n.ast.value.func, ast.Name) and n.ast.value.func.id == 'setattr') or
                            (isinstance(n.ast.value.func, ast.Attribute) and n.ast.value.func.attr in ('__setitem__', 'update', 'setdefault', '__setattr__')))
                       and any(isinstance(y, ast.Name) and y.id == val for a_ in list(n.ast.value.args) + [k_.value for k_ in n.ast.value.keywords] for y in ast.walk(a_))]
            run.floor('value store in __set__', len(stores), 1)
            for s in stores:
                ok = all(g.postdominates(r, s) for r in rel) and len(rel) >= 1 and any(g.postdominates(r, s) for r in rel)
                run.inst('LOCKSET.balance', f, 'release post-dominates the store', ok,
                         '' if ok else 'a path stores the value and returns without releasing', node=s.ast, obligation=True)
                # on the branch that acquires, acquire precedes the store
                ok2 = all(g.exists_path(a, s) and not g.exists_path(s, a) for a in acq)
                run.inst('LOCKSET.value-access', f, 'acquire precedes the store on the plain path', ok2,
                         '' if ok2 else 'the value is stored before the lock is taken', node=s.ast, obligation=True)
            # the acquire is on the "flag says atomic" branch only
            for a in acq:
                from sa.util import expand_locals as _xl27
                tests = [t for t in g.nodes if t.kind == 'test' and flag and flag in norm(_xl27(t.ast, f.node, params=f.params))]
                run.inst('LOCKSET.balance', f, 'acquire only when not continuing', bool(tests) and any(g.dominates(t, a) for t in tests),
                         'acquire in __set__ is not conditional on the hand-over flag', node=a.ast, nontrivial=True)
    if flag is None:
        raise AnalysisError('hand-over flag not identified in __set__')
    # ---- an augmented assignment is only atomic if its read half is recognised as one: the classifier __get__ branches on, evaluated on one line per
    # augmented-assignment operator (the other direction - plain reads taken for updates - is C28's)
    run.rule('LOCKSET.update-recognised', 'the classifier that makes __get__ keep the lock answers true for each of the 13 augmented-assignment operators')
    import re as _re
    from sa import pureeval
    from sa.util import strip_not as _sn
    gg = cfg_of(get)
    classifier = None
    for t in gg.nodes:
        if t.kind != 'test':
            continue
        inner, pol = _sn(t.ast)
        if isinstance(inner, ast.Name):
            from sa.util import local_defs as _ld
            ds_ = [d_ for d_ in _ld(get.node).get(inner.id, []) if isinstance(d_, ast.AST)]
            if len(ds_) == 1 and isinstance(ds_[0], ast.Call):
                inner = ds_[0]
        if isinstance(inner, ast.Call) and isinstance(inner.func, ast.Attribute) and dotted(inner.func.value) == get.params[0] and inner.func.attr in cls.methods:
            rels = lock_nodes(gg, get.params[0], lock, 'release')
            from sa.util import guarded_by_edge as _gbe
            rels = [r for r in rels if gg.exists_path(t, r)]
            if rels and (all(_gbe(gg, r, t, 'true') for r in rels) or all(_gbe(gg, r, t, 'false') for r in rels)):
                classifier = cls.methods[inner.func.attr]
    if classifier is None:
        raise AnalysisError('__get__: no classifier test decides the release of the lock')
    # ... and only if the text of the line can be had at all: inspect.getframeinfo finds it through the module's loader (zip archives, frozen apps, custom importers);
    # linecache.getline(file, line) without the module's globals only reads plain files and answers '' otherwise - `obj.x += 1` is then classified as a plain read
    from props.c28 import line_sources
    cargs_, srcs_, scalls_ = line_sources(get, gg, classifier)
    for c_ in scalls_:
        fn_ = norm(c_.func).split('.')[-1]
        if fn_ in ('getline', 'getlines'):
            need = 3 if fn_ == 'getline' else 2
            has_globals = len(c_.args) >= need or any(k_.arg == 'module_globals' for k_ in c_.keywords)
            run.inst('LOCKSET.update-recognised', get, 'the classified text is available for every module: ' + norm(c_)[:60], has_globals,
                     '' if has_globals else ('the line that decides "keep the lock" is fetched with %s without the calling module\'s globals: for a module that is not a plain .py file on '
                                             'disk (imported from a zip archive, a zipapp, through a custom loader) it answers the empty string, `obj.attr += 1` is classified as a plain '
                                             'read, the lock is released between its read half and its write half and a concurrent update is lost' % norm(c_.func)),
                     node=c_, obligation=True)
    from props.c28 import line_verbatim_rule
    line_verbatim_rule(run, model, 'LOCKSET.line-verbatim', cls, get, gg, classifier,
                       '`obj.attr += 1` on such a line is classified as a plain read, the lock is released between its read half and its write half and a concurrent update is lost')
    AUG = ['+=', '-=', '*=', '/=', '//=', '%=', '@=', '&=', '|=', '^=', '>>=', '<<=', '**=']
    re_obj = pureeval.Obj(search=_re.search, match=_re.match, fullmatch=_re.fullmatch, findall=_re.findall, compile=_re.compile)
    cmeths = {k_: f_.node for k_, f_ in cls.methods.items() if not (k_.startswith('__') and k_.endswith('__'))}
    try:
        bad = None
        for tok in AUG:
            try:
                got = bool(pureeval.call(classifier.node, [pureeval.Obj(), '    obj.x %s 1' % tok], globals_={'re': re_obj, 'None': None}, strict_locals=True, methods=cmeths))
            except pureeval.Raised as ex_:
                got = 'raises ' + ex_.what
            if got is not True and bad is None:
                bad = (tok, got)
        run.inst('LOCKSET.update-recognised', classifier, '%s(line) for the 13 augmented-assignment operators' % classifier.name, bad is None,
                 '' if bad is None else ('%s(\'obj.x %s 1\') answers %r: __get__ gives the lock back after the read half of `obj.x %s 1`, another thread can update the attribute before '
                                         'the write half, and that update is lost' % (classifier.name, bad[0], bad[1], bad[0])), obligation=True)
    except AnalysisError as ex_:
        run.note('the line classifier is outside the evaluator\'s fragment (%s): its table is decided under C28' % ex_)
    # ---- acquire really waits: a non-blocking or timed acquire whose answer is not looked at lets the thread go on without the lock
    for f in (get, st):
        for n in walk_shallow(f.node):
            if isinstance(n, ast.Call) and isinstance(n.func, ast.Attribute) and n.func.attr == 'acquire' and dotted(n.func.value) == '%s.%s' % (f.params[0], lock):
                nonblocking = any(k.arg == 'blocking' and isinstance(k.value, ast.Constant) and not k.value.value for k in n.keywords) or \
                    (n.args and isinstance(n.args[0], ast.Constant) and not n.args[0].value) or \
                    any(k.arg == 'timeout' and not (isinstance(k.value, ast.Constant) and k.value.value in (-1, None)) for k in n.keywords) or len(n.args) > 1
                unknown = any(k.arg == 'blocking' and not isinstance(k.value, ast.Constant) for k in n.keywords) or (n.args and not isinstance(n.args[0], ast.Constant))
                if unknown:
                    raise AnalysisError('%s: acquire with a computed blocking argument' % f.qualname)
                run.inst('LOCKSET.balance', f, 'acquire waits for the lock: ' + norm(n), not nonblocking,
                         '' if not nonblocking else ('%s takes the lock with %s and does not look at the answer: when another thread holds the lock the call returns at once, the access goes on '
                                                     'outside the critical section and the matching release() raises RuntimeError (or releases the other thread\'s hold)' % (f.qualname, norm(n))),
                         node=n, obligation=True)
    run.assume('RLock semantics; attribute loads/stores are atomic under the GIL')
    run.assume('an augmented assignment obj.x += v compiles to __get__ followed by __set__ on the same thread')
