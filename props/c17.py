"""C17 Factory/template charts and their to_code text behave like hand-written charts.

Structural part (behavioural equality of the three builds over all event sequences is translation validation by execution and is
NOT decided):
TEMPLATE.protocol   : the template-generated handler obeys the handler protocol H1-H3 the processor assumes: it returns the
                      registered callback's status, and exactly when that status == UNHANDLED it falls back to
                      (SUPER, registered parent) written to (status, chart.temp.fun); an unregistered signal yields UNHANDLED.
TABLE.registries    : the runtime lookups (signal_callback, parent_callback), the registration methods and to_code read/write the
                      same two registries with the same key structure: _lookup[state name][signal number], _parents[state name].
CODEGEN.fragments   : every text fragment to_code can emit is classified; assembled in ladder order with placeholder identifiers
                      (first arm handled/callback x later arm handled/callback x parent top/other) the text parses and has the
                      shape of a protocol-conforming handler: status starts UNHANDLED, one if/elif arm per signal comparing e.signal
                      with signals.<NAME>, the else arm assigns (SUPER, parent) to (status, chart.temp.fun), status is returned.
FACTORY.attributes  : every `self.<attr>[...]` in Factory subscripts an attribute whose values are subscriptable (the name->blueprint
                      table), and Factory.create/nest/start_at/to_code/catch wire names to the template and the registries.
"""
import ast
import itertools

from sa.model import AnalysisError, walk_shallow, dotted, norm
from sa.util import cfg_of, shallow_calls, local_defs, status_const, signal_const, const_str, compare_parts, guarded_by_edge
from sa.context import callgraph


def handler_shape(fn, parent_expected):
    """check a parsed `def name(chart, e)` against the protocol shape; returns list of problems"""
    probs = []
    if [a.arg for a in fn.args.args] != ['chart', 'e']:
        probs.append('parameters are not (chart, e)')
    body = [s for s in fn.body if not (isinstance(s, ast.Expr) and isinstance(s.value, ast.Constant))]
    if len(body) != 3:
        return probs + ['body is not: init-status, if-ladder, return']
    init, ladder, ret = body
    if not (isinstance(init, ast.Assign) and isinstance(init.targets[0], ast.Name) and status_const(init.value) == 'UNHANDLED'):
        probs.append('status does not start as UNHANDLED')
    sv = init.targets[0].id if isinstance(init, ast.Assign) and isinstance(init.targets[0], ast.Name) else 'status'
    if not (isinstance(ret, ast.Return) and isinstance(ret.value, ast.Name) and ret.value.id == sv):
        probs.append('the status is not returned')
    node = ladder
    arms = 0
    while isinstance(node, ast.If):
        cp = compare_parts(node.test)
        if not (cp and dotted(cp[0]) == 'e.signal' and cp[1] is ast.Eq and signal_const(cp[2])):
            probs.append('an arm does not test e.signal == signals.<NAME>')
        if not (len(node.body) == 1 and isinstance(node.body[0], ast.Assign) and isinstance(node.body[0].targets[0], ast.Name) and node.body[0].targets[0].id == sv):
            probs.append('an arm does not assign the status')
        else:
            v = node.body[0].value
            if not (status_const(v) == 'HANDLED' or (isinstance(v, ast.Call) and [norm(a) for a in v.args] == ['chart', 'e'])):
                probs.append('an arm assigns %s' % norm(v))
        arms += 1
        if len(node.orelse) == 1 and isinstance(node.orelse[0], ast.If):
            node = node.orelse[0]
        else:
            els = node.orelse
            ok = len(els) == 1 and isinstance(els[0], ast.Assign) and isinstance(els[0].targets[0], ast.Tuple) and isinstance(els[0].value, ast.Tuple) \
                and [norm(t) for t in els[0].targets[0].elts] == [sv, 'chart.temp.fun'] and status_const(els[0].value.elts[0]) == 'SUPER' \
                and norm(els[0].value.elts[1]) == parent_expected
            if not ok:
                probs.append('the else arm is not `status, chart.temp.fun = return_status.SUPER, %s` (got %s)' % (parent_expected, [norm(x) for x in els]))
            node = None
    if arms < 1:
        probs.append('no signal arm')
    return probs


def ladder_of(fn):
    """[(signal name, action)] of a generated handler's if/elif ladder, and (status, parent expression) of its else arm; None when the shape is not a ladder"""
    body = [s for s in fn.body if not (isinstance(s, ast.Expr) and isinstance(s.value, ast.Constant))]
    arms, node = [], next((s for s in body if isinstance(s, ast.If)), None)
    els = None
    while isinstance(node, ast.If):
        cp = compare_parts(node.test)
        if not (cp and dotted(cp[0]) == 'e.signal' and cp[1] is ast.Eq and signal_const(cp[2])):
            return None
        act = None
        if len(node.body) == 1 and isinstance(node.body[0], ast.Assign):
            v = node.body[0].value
            if status_const(v):
                act = status_const(v)
            elif isinstance(v, ast.Call) and [norm(a) for a in v.args] == ['chart', 'e']:
                act = 'call:' + norm(v.func)
        arms.append((signal_const(cp[2]), act))
        if len(node.orelse) == 1 and isinstance(node.orelse[0], ast.If):
            node = node.orelse[0]
        else:
            if len(node.orelse) == 1 and isinstance(node.orelse[0], ast.Assign) and isinstance(node.orelse[0].targets[0], ast.Tuple) and isinstance(node.orelse[0].value, ast.Tuple):
                a = node.orelse[0]
                pairs = dict(zip([norm(t) for t in a.targets[0].elts], a.value.elts))
                st = next((status_const(v) for k, v in pairs.items() if k != 'chart.temp.fun'), None)
                els = (st, norm(pairs['chart.temp.fun']) if 'chart.temp.fun' in pairs else None)
            node = None
    return arms, els


def codegen_eval(run, model, tc):
    """to_code is a pure function of the two registries: evaluate it (finite evaluator, nothing of miros is run) on a family of registry contents, parse the text it
    returns and compare the handler it describes with what the registries say - which is what the template handler does at run time (TABLE.registries)."""
    import collections
    from sa import pureeval
    run.rule('CODEGEN.eval', 'to_code evaluated on small registries: the text parses into a protocol-conforming handler whose arms are exactly the registered (signal -> callback) pairs, '
                             'lifecycle signals without a callback answer HANDLED, the else arm names the registered parent')
    names = {1: 'ENTRY_SIGNAL', 2: 'EXIT_SIGNAL', 3: 'INIT_SIGNAL', 11: 'A', 12: 'B', 13: 'C'}
    num = {v: k for k, v in names.items()}
    sig = pureeval.Obj(name_for_signal=lambda n: names[n])
    for k, v in names.items():
        setattr(sig, v, k)

    def cb(n):
        return pureeval.Obj(__name__=n)
    from sa.util import module_level_names
    modnames = module_level_names(tc.module)
    # module-level functions the text generator may name (`handled.__name__`) are stand-ins carrying their name
    modfuncs = {st.name: pureeval.Obj(__name__=st.name) for st in tc.module.tree.body if isinstance(st, ast.FunctionDef)}
    life = ('ENTRY_SIGNAL', 'INIT_SIGNAL', 'EXIT_SIGNAL')
    orders = [[], ['A'], ['A', 'B'], ['B', 'A'], ['B', 'C', 'A']]
    n_eval, bad = 0, None
    for parent in ('top', 's0'):
        for lc in itertools.product(('absent', 'handled', 'custom'), repeat=3):
            for others in orders:
                for life_first in (True, False):
                    reg = collections.OrderedDict()
                    lifeitems = [(num[nm], cb('handled' if how == 'handled' else 'on_' + nm.lower())) for nm, how in zip(life, lc) if how != 'absent']
                    otheritems = [(num[o], cb('on_' + o.lower())) for o in others]
                    for k, v in (lifeitems + otheritems if life_first else otheritems + lifeitems):
                        reg[k] = v
                    if not reg:
                        continue
                    me = pureeval.Obj(_lookup={'s1': dict(reg), 'other_state': {num['A']: cb('foreign')}}, _parents={'s1': cb(parent), 'other_state': cb('top')})
                    for arg in ('s1', cb('s1')):
                        n_eval += 1
                        try:
                            text = pureeval.call(tc.node, [me, arg], globals_=dict(pureeval.module_constants(model, tc.module), **dict(modfuncs, signals=sig, namedtuple=collections.namedtuple)), mutable=True, strict_locals=True, module_names=modnames)
                        except pureeval.Raised as ex:
                            text = None
                            probs = ['to_code raises %s' % ex.what]
                        if text is not None:
                            probs = []
                            try:
                                tree = ast.parse(text)
                                fn = tree.body[0] if tree.body else None
                            except (SyntaxError, TypeError) as ex:
                                fn = None
                                probs.append('the text does not parse: %s' % ex)
                            if fn is not None and not isinstance(fn, ast.FunctionDef):
                                probs.append('the text is not one function definition')
                                fn = None
                            if fn is not None:
                                pexp = 'chart.top' if parent == 'top' else parent
                                probs += handler_shape(fn, pexp)
                                if fn.name != 's1':
                                    probs.append('the function is called %s, not s1' % fn.name)
                                if [norm(d) for d in fn.decorator_list] != ['spy_on']:
                                    probs.append('not decorated with spy_on')
                                lad = ladder_of(fn)
                                if lad is None:
                                    probs.append('no if/elif ladder on e.signal')
                                else:
                                    arms, els = lad
                                    want = {}
                                    for k, v in reg.items():
                                        want[names[k]] = 'HANDLED' if v.__dict__['__name__'] == 'handled' else 'call:' + v.__dict__['__name__']
                                    for nm in life:
                                        want.setdefault(nm, 'HANDLED')
                                    got = {}
                                    for nm, act in arms:
                                        if nm in got:
                                            probs.append('two arms test %s (only the first can ever run)' % nm)
                                        got.setdefault(nm, act)
                                    if got != want:
                                        diff = sorted(set(got.items()) ^ set(want.items()), key=repr)
                                        probs.append('arms differ from the registry: %s' % diff)
                                    if els != ('SUPER', pexp):
                                        probs.append('else arm is %s, expected (SUPER, %s)' % (els, pexp))
                        if probs and bad is None:
                            bad = ({names[k]: v.__dict__['__name__'] for k, v in reg.items()}, parent, probs, text)
    run.inst('CODEGEN.eval', tc, 'to_code over %d registry contents (parent top/other x lifecycle callbacks absent/default/custom x up to three user signals in either registration order, by name and by function)' % n_eval,
             bad is None,
             '' if bad is None else ('for a state whose registry is %s with parent %s the text to_code returns is not the handler the registries describe: %s' % (bad[0], bad[1], '; '.join(bad[2][:3]))),
             obligation=True)
    run.floor('to_code evaluations', n_eval, 200)
    return True



def codegen_fragments(run, model, tc):
    lits = []
    # the accumulated text is the local that to_code returns
    code_vars = {r.value.id for r in walk_shallow(tc.node) if isinstance(r, ast.Return) and isinstance(r.value, ast.Name)}
    if len(code_vars) != 1:
        raise AnalysisError('to_code: the returned text variable was not identified')
    code_var = code_vars.pop()
    for n in walk_shallow(tc.node):
        if isinstance(n, (ast.Assign, ast.AugAssign)):
            tg = n.targets[0] if isinstance(n, ast.Assign) else n.target
            if isinstance(tg, ast.Name) and tg.id == code_var:
                v = n.value
                s_ = const_str(v) if const_str(v) is not None else (const_str(v.func.value) if isinstance(v, ast.Call) and isinstance(v.func, ast.Attribute) and v.func.attr == 'format' else None)
                if s_ is None:
                    raise AnalysisError('to_code: a fragment is not a string literal: %s' % norm(n))
                # positional format arguments that are locals bound only to string literals (keyword = "if" / "elif") are part of the fragment text
                variants = [s_]
                if isinstance(v, ast.Call) and '{}' in s_:
                    tdefs = local_defs(tc.node)
                    for a in v.args:
                        vals = None
                        if isinstance(a, ast.Name):
                            ds = tdefs.get(a.id, [])
                            if ds and all(not isinstance(d, tuple) and const_str(d) is not None for d in ds):
                                vals = sorted({const_str(d) for d in ds})
                        elif const_str(a) is not None:
                            vals = [const_str(a)]
                        nxt = []
                        for s2 in variants:
                            if vals is None:
                                # keep the hole, but past this position
                                nxt.append(s2.replace('{}', '\0', 1))
                            else:
                                nxt.extend(s2.replace('{}', x, 1) for x in vals)
                        variants = nxt
                    variants = [x.replace('\0', '{}') for x in variants]
                lits.extend(variants)
    run.floor('to_code: emitted fragments', len(lits), 10)
    classes = {}
    for s_ in set(lits):
        t = s_.strip()
        if t.startswith('@'):
            k = 'decorator'
        elif t.startswith('def '):
            k = 'def'
        elif t.startswith('if('):
            k = 'if'
        elif t.startswith('elif('):
            k = 'elif'
        elif t.startswith('else'):
            k = 'else'
        elif t.startswith('return'):
            k = 'return'
        elif 'temp.fun' in t:
            k = 'super'
        elif '(chart, e)' in t:
            k = 'callback'
        elif t.startswith('status =') and not s_.startswith('    '):
            k = 'init'
        elif t == 'status = return_status.HANDLED':
            k = 'handled'
        elif t.startswith('status ='):
            k = 'other-assign'
        else:
            raise AnalysisError('to_code: unclassified fragment %r' % s_)
        classes.setdefault(k, set()).add(s_)
    need = ('decorator', 'def', 'init', 'if', 'elif', 'else', 'return', 'super', 'callback', 'handled')
    if 'super' not in classes or 'other-assign' in classes:
        run.inst('CODEGEN.fragments', tc, 'to_code emits an else arm that moves the cursor to the parent', False,
                 'to_code emits no fragment of the form `status, chart.temp.fun = return_status.SUPER, <parent>` (found instead: %s): the generated handler '
                 'answers SUPER without telling the processor which state is its parent' % sorted(classes.get('other-assign', [])), obligation=True)
        return
    missing = [k for k in need if k not in classes]
    amb = [k for k, v in classes.items() if len(v) != 1]
    if missing or amb:
        raise AnalysisError('to_code: fragment classes missing %s / ambiguous %s' % (missing, amb))
    F = {k: next(iter(v)) for k, v in classes.items()}
    n_prog = 0
    for first, second, third, parent in itertools.product(('handled', 'callback'), ('handled', 'callback'), ('handled', 'callback'), ('chart.top', 'outer_state')):
        arms = [first, second, third]
        text = F['decorator'].lstrip('\n') + F['def'].format('some_state') + F['init']
        for i, a in enumerate(arms):
            text += (F['if'] if i == 0 else F['elif']).format(('ENTRY_SIGNAL', 'INIT_SIGNAL', 'EXIT_SIGNAL')[i])
            text += F['handled'] if a == 'handled' else F['callback'].format('cb_%d' % i)
        text += F['else'] + F['super'].format(parent) + F['return']
        n_prog += 1
        try:
            tree = ast.parse(text)
            fn = tree.body[0]
            probs = handler_shape(fn, parent) if isinstance(fn, ast.FunctionDef) else ['not a function definition']
            if isinstance(fn, ast.FunctionDef) and [norm(d) for d in fn.decorator_list] != ['spy_on']:
                probs.append('not decorated with spy_on')
        except SyntaxError as ex:
            probs = ['does not parse: %s' % ex]
        run.inst('CODEGEN.fragments', tc, 'assembled text (%s / parent %s) is a protocol-conforming handler' % ('+'.join(arms), parent), not probs,
                 '' if not probs else 'the text to_code emits for a state with arms %s and parent %s is not a handler of the shape the processor assumes: %s'
                 % (arms, parent, '; '.join(probs)), obligation=True)
    run.floor('assembled to_code programs', n_prog, 16)
    # to_code maps parent 'top' to chart.top and a missing/`handled` callback to HANDLED
    txt = norm(tc.node, 100000)
    ok = "'chart.top'" in txt and "== 'top'" in txt
    run.inst('CODEGEN.fragments', tc, "the top parent is emitted as chart.top", ok, 'top is no longer emitted as chart.top (a bare `top` is undefined in the generated text)', obligation=True)
    ok = ".callback == 'handled'" in txt and '.callback is None' in txt
    run.inst('CODEGEN.fragments', tc, 'missing and default callbacks are emitted as HANDLED', ok, 'the default `handled` callback is emitted as a call to an undefined name', obligation=True)


def template_eval(run, model, bh):
    """the handler state_method_template generates, evaluated with stub context managers for the two registries: for a plain-function callback, a bound-method
    callback and no callback at all, answering HANDLED / UNHANDLED / TRAN / IGNORED, the handler must call the callback once with the right arguments, return its
    answer, and exactly for UNHANDLED answer SUPER with the registered parent written to chart.temp.fun"""
    from sa import pureeval
    run.rule('TEMPLATE.eval', 'generated handler evaluated over callback kind {function, bound method, none} x answer {HANDLED, UNHANDLED, TRAN, IGNORED}: callback called once by its kind, '
                              'answer returned, UNHANDLED -> (SUPER, registered parent) into (status, chart.temp.fun)')
    RS = pureeval.Obj(SUPER=1, SUPER_SUB=2, UNHANDLED=3, HANDLED=4, IGNORED=5, ENTRY=6, EXIT=7, NULL=8, TRAN=9)
    PARENT = pureeval.Obj(__name__='the_parent')
    bad, n_ev = None, 0
    try:
        for kind in ('function', 'method', 'none'):
            for ans_name in ('HANDLED', 'UNHANDLED', 'TRAN', 'IGNORED'):
                if kind == 'none' and ans_name != 'UNHANDLED':
                    continue
                ans = getattr(RS, ans_name)
                calls = []
                if kind == 'method':
                    def cb(*a, _ans=ans):
                        calls.append(('method', a))
                        return _ans
                else:
                    def cb(*a, _ans=ans):
                        calls.append(('function', a))
                        return _ans
                asked = []

                def signal_callback(e_, name_, _cb=cb):
                    asked.append(('signal', e_, name_))
                    return pureeval.Obj(__enter__=lambda: _cb)

                def parent_callback(name_=None):
                    asked.append(('parent', name_))
                    return pureeval.Obj(__enter__=lambda: PARENT)
                OLD = pureeval.Obj(__name__='cursor_before')
                chart = pureeval.Obj(signal_callback=signal_callback, parent_callback=parent_callback, temp=pureeval.Obj(fun=OLD), state=pureeval.Obj(fun=OLD))
                e = pureeval.Obj(signal=11, signal_name='A')
                insp = pureeval.Obj(ismethod=lambda f, _k=kind: _k == 'method')
                n_ev += 1
                try:
                    got = pureeval.call(bh.node, [chart, e], globals_={'return_status': RS, 'inspect': insp, 'name': 'the_state'}, mutable=True, strict_locals=True)
                except pureeval.Raised as ex_:
                    got = 'raises ' + ex_.what
                want_ret = RS.SUPER if ans_name == 'UNHANDLED' else ans
                want_cursor = PARENT if ans_name == 'UNHANDLED' else OLD
                want_call = ('method', (e,)) if kind == 'method' else ('function', (chart, e))
                probs = []
                if got != want_ret:
                    probs.append('returns %r, expected %r' % (got, want_ret))
                if chart.temp.fun is not want_cursor:
                    probs.append('leaves chart.temp.fun = %s' % getattr(chart.temp.fun, '__dict__', {}).get('__name__', chart.temp.fun))
                if calls != [want_call]:
                    probs.append('calls the callback %s' % ([(k_, len(a_)) for k_, a_ in calls],))
                if not any(a_[0] == 'signal' and a_[1] is e and a_[2] == 'the_state' for a_ in asked):
                    probs.append('does not ask signal_callback(e, name)')
                if ans_name == 'UNHANDLED' and not any(a_[0] == 'parent' and a_[1] in ('the_state', None) for a_ in asked):
                    probs.append('does not ask parent_callback(name)')
                if probs and bad is None:
                    bad = (kind, ans_name, probs)
    except AnalysisError as ex_:
        run.note('the template handler is outside the evaluator\'s fragment (%s): decided structurally' % ex_)
        return False
    run.inst('TEMPLATE.eval', bh, 'generated handler over %d callback kinds x answers' % n_ev, bad is None,
             '' if bad is None else ('with a %s callback answering %s the generated handler %s: the templated chart does not behave like the hand-written one'
                                     % (bad[0], bad[1], '; '.join(bad[2]))), obligation=True)
    return True



def template_protocol_structural(run, model, bh, g, chart, ev):
    # ---- TEMPLATE.protocol
    rets = [n for n in walk_shallow(bh.node) if isinstance(n, ast.Return)]
    ok = len(rets) == 1 and isinstance(rets[0].value, ast.Name)
    sv = rets[0].value.id if ok else None
    run.inst('TEMPLATE.protocol', bh, 'returns its status variable', ok, 'the template handler does not return a single status variable', obligation=True)
    cbs = [n for n in g.nodes if n.kind == 'stmt' and isinstance(n.ast, ast.Assign) and isinstance(n.ast.targets[0], ast.Name) and n.ast.targets[0].id == sv
           and isinstance(n.ast.value, ast.Call) and isinstance(n.ast.value.func, ast.Name)]
    run.floor('template: callback invocations', len(cbs), 1)
    for n in cbs:
        args = [norm(a) for a in n.ast.value.args]
        ok = args in ([chart, ev], [ev])
        run.inst('TEMPLATE.protocol', bh, 'the callback receives the event: ' + norm(n.ast.value), ok, 'callback called with %s' % args, node=n.ast, obligation=True)
    fb = [t for t in g.nodes if t.kind == 'test' and compare_parts(t.ast) and isinstance(compare_parts(t.ast)[0], ast.Name) and compare_parts(t.ast)[0].id == sv
          and status_const(compare_parts(t.ast)[2])]
    ok = len(fb) == 1 and status_const(compare_parts(fb[0].ast)[2]) == 'UNHANDLED' and compare_parts(fb[0].ast)[1] in (ast.Eq, ast.Is)
    run.inst('TEMPLATE.protocol', bh, 'falls back to the parent exactly when the callback answered UNHANDLED', ok,
             '' if ok else 'the template handler\'s fallback test is %s: events a callback handled bubble to the parent, or declined events do not'
             % ([norm(t.ast) for t in fb]), obligation=True)
    if fb:
        sup = [n for n in g.nodes if n.kind == 'stmt' and isinstance(n.ast, ast.Assign) and isinstance(n.ast.targets[0], ast.Tuple) and guarded_by_edge(g, n, fb[0], 'true')]
        ok = len(sup) == 1 and isinstance(sup[0].ast.value, ast.Tuple) and [norm(t) for t in sup[0].ast.targets[0].elts] == [sv, chart + '.temp.fun'] \
            and status_const(sup[0].ast.value.elts[0]) == 'SUPER'
        run.inst('TEMPLATE.protocol', bh, 'fallback assigns (SUPER, parent) to (status, temp.fun)', ok,
                 '' if ok else 'the fallback is %s' % [norm(n.ast) for n in sup], obligation=True)
        if ok:
            pv = sup[0].ast.value.elts[1]
            withs = [n for n in walk_shallow(bh.node) if isinstance(n, ast.With) and any(x is sup[0].ast for x in ast.walk(n))]
            okp = bool(withs) and any(isinstance(it.context_expr, ast.Call) and norm(it.context_expr.func) == chart + '.parent_callback' and it.optional_vars is not None
                                      and norm(it.optional_vars) == norm(pv) for w in withs for it in w.items)
            run.inst('TEMPLATE.protocol', bh, 'the parent comes from the parent registry', okp, 'the parent written to temp.fun is %s' % norm(pv), node=sup[0].ast, obligation=True)
    # the callback comes from signal_callback(e, name)
    withs = [n for n in walk_shallow(bh.node) if isinstance(n, ast.With)]
    okc = any(isinstance(it.context_expr, ast.Call) and norm(it.context_expr.func) == chart + '.signal_callback' and norm(it.context_expr.args[0]) == ev
              for w in withs for it in w.items if isinstance(it.context_expr, ast.Call) and it.context_expr.args)
    run.inst('TEMPLATE.protocol', bh, 'the callback comes from the signal registry for this event', okc, 'signal_callback(e, name) is no longer consulted', obligation=True)


def check(run, model, tier):
    run.explanation = ('Protocol-shape analysis of the template-generated handler, key-structure agreement of the two registries between their '
                       'writers, the runtime readers and to_code, a complete enumeration of the text fragments to_code can emit (assembled with '
                       'placeholder identifiers, parsed, and checked against the handler shape the processor assumes), and attribute-type discipline '
                       'of Factory. Equality of behaviour for every event sequence is not decided; these are its structural necessary conditions.')
    for r, t in (('TEMPLATE.protocol', 'generated handler: callback status returned; UNHANDLED -> (SUPER, parent) into (status, temp.fun)'),
                 ('TABLE.registries', '_lookup[name][signal] and _parents[name]: writers, runtime readers and to_code agree'),
                 ('CODEGEN.fragments', 'all emitted fragments, assembled, parse into a protocol-conforming handler'),
                 ('FACTORY.attributes', 'Factory subscripts only its name->blueprint table; create/nest/catch/start_at/to_code wiring')):
        run.rule(r, t)
    hq = model.cls('HsmWithQueues')
    tmpl = model.func('hsm.state_method_template')
    base = list(tmpl.nested.values())
    if len(base) != 1:
        raise AnalysisError('state_method_template: expected one nested handler')
    bh = base[0]
    g = cfg_of(bh)
    run.touch(bh, g)
    chart, ev = bh.params[0], bh.params[1]
    # ---- TEMPLATE.protocol: decided by evaluating the generated handler with stub registries (finite evaluator); the structural reading is the fall-back
    tdec = template_eval(run, model, bh)
    if not tdec:
        template_protocol_structural(run, model, bh, g, chart, ev)
    run.rule('REG.per-instance', 'the callback / parent registries (and every other container the chart classes fill through self) belong to the instance, not to the class')
    from sa import ident as _ident
    _ident.check_per_instance_state(run, model, 'REG.per-instance', ['HsmEventProcessor', 'InstrumentedHsmEventProcessor', 'HsmWithQueues', 'ActiveObject', 'Factory'])
    # ---- TABLE.registries
    sc = hq.methods.get('signal_callback')
    pc = hq.methods.get('parent_callback')
    rs = hq.methods.get('register_signal_callback')
    rp = hq.methods.get('register_parent')
    tc = hq.methods.get('to_code')
    for nm, f in (('signal_callback', sc), ('parent_callback', pc), ('register_signal_callback', rs), ('register_parent', rp), ('to_code', tc)):
        if f is None:
            raise AnalysisError('HsmWithQueues.%s not found' % nm)
        run.touch(f)

    def regs_used(f):
        out = set()
        for ff in [f] + list(f.nested.values()):
            for n in walk_shallow(ff.node):
                if isinstance(n, ast.Attribute) and isinstance(n.value, ast.Name) and n.value.id == f.params[0] and n.attr.startswith('_') and not n.attr.startswith('__'):
                    out.add(n.attr)
        return out
    lookup_w, parents_w = regs_used(rs), regs_used(rp)
    if len(lookup_w) > 1:
        # the registry proper is the table that receives the callback itself; any further table the registration touches is a second source of truth
        fnp_ = rs.params[3] if len(rs.params) > 3 else None
        stores_ = set()
        for n_ in walk_shallow(rs.node):
            if isinstance(n_, ast.Assign) and isinstance(n_.value, ast.Name) and n_.value.id == fnp_:
                for t_ in n_.targets:
                    b_ = t_
                    while isinstance(b_, ast.Subscript):
                        b_ = b_.value
                    if isinstance(b_, ast.Attribute) and isinstance(b_.value, ast.Name) and b_.value.id == rs.params[0]:
                        stores_.add(b_.attr)
        if len(stores_) == 1:
            extra_ = sorted(lookup_w - stores_)
            run.inst('TABLE.registries', rs, 'the callback registry is the only table behind signal_callback', False,
                     'register_signal_callback keeps a second table beside %s (%s): the run-time lookup can answer from that table (a cache of resolved handlers, filled by an unsynchronised '
                     'check-then-store) while the registry - and the text to_code produces from it - says something else; a handler registered while the chart is resolving the same '
                     '(state, signal) pair is then never used' % (sorted(stores_)[0], ', '.join(extra_)), obligation=True)
            lookup_w = set(stores_)
    if len(lookup_w) != 1 or len(parents_w) != 1:
        raise AnalysisError('registration methods do not write exactly one registry each (%s, %s)' % (lookup_w, parents_w))
    LK, PR = lookup_w.pop(), parents_w.pop()
    ok = regs_used(sc) == {LK}
    run.inst('TABLE.registries', sc, 'signal_callback reads %s' % LK, ok, 'signal_callback reads %s, callbacks are registered in %s' % (sorted(regs_used(sc)), LK), obligation=True)
    ok = regs_used(pc) == {PR}
    run.inst('TABLE.registries', pc, 'parent_callback reads %s' % PR, ok, 'parent_callback reads %s, parents are registered in %s' % (sorted(regs_used(pc)), PR), obligation=True)
    ok = regs_used(tc) == {LK, PR}
    run.inst('TABLE.registries', tc, 'to_code reads %s and %s' % (LK, PR), ok,
             '' if ok else 'to_code reads %s; the runtime uses %s and %s: the generated text is built from a different table than the chart runs on' % (sorted(regs_used(tc)), LK, PR), obligation=True)
    # key structure: writers use <fn>.__name__ and the signal; readers use the name (string) and e.signal
    wkeys = [norm(n.slice) for n in walk_shallow(rs.node) if isinstance(n, ast.Subscript) and isinstance(n.ctx, ast.Store)]
    from sa.util import expand_locals as _xl
    ok = any(k == rs.params[2] for k in wkeys) and any('.__name__' in norm(_xl(n, rs.node, params=rs.params)) for n in walk_shallow(rs.node) if isinstance(n, ast.Subscript))
    run.inst('TABLE.registries', rs, 'callbacks stored under [state name][signal]', ok, 'register_signal_callback stores under %s' % wkeys, obligation=True)
    # the registration updates the table of the state in place: one item store.  Copying the state's table, adding to the copy and storing the copy back is a
    # read-modify-write of shared state with nothing that makes it atomic - two registrations for the same state (charts are built from several threads: the
    # active object registers from its own thread, the application from another) that overlap lose one handler
    run.rule('TABLE.update-in-place', 'register_signal_callback adds to the state\'s table in place (or under a lock): no unlocked copy / modify / store-back of a registry entry')
    rdefs_ = local_defs(rs.node)
    rmw = []
    for n in walk_shallow(rs.node):
        if isinstance(n, ast.Assign) and any(isinstance(t, ast.Subscript) and (dotted(t.value) or '') == rs.params[0] + '.' + LK.split('.')[-1] for t in n.targets) and isinstance(n.value, ast.Name):
            ds = [d for d in rdefs_.get(n.value.id, []) if isinstance(d, ast.AST)]
            copies = [d for d in ds if isinstance(d, ast.Call) and norm(d.func) in ('dict', 'copy', 'copy.copy', 'OrderedDict') and LK.split('.')[-1] in norm(d)
                      or (isinstance(d, ast.Call) and isinstance(d.func, ast.Attribute) and d.func.attr == 'copy' and LK.split('.')[-1] in norm(d))
                      or (isinstance(d, ast.Dict) and any(k is None for k in d.keys) and LK.split('.')[-1] in norm(d))]
            if copies:
                rmw.append((n, copies[0]))
    locked = any(isinstance(w_, ast.With) for w_ in walk_shallow(rs.node))
    okr = not rmw or locked
    run.inst('TABLE.update-in-place', rs, 'no unlocked copy/modify/store-back of a registry entry', okr,
             '' if okr else ('register_signal_callback builds a copy of the state\'s table (%s), adds to the copy and stores it back (%s) without a lock: when two registrations for the same '
                             'state overlap, the one that stores last overwrites the other\'s handler - the chart then lets that event bubble to the parent, unlike the hand-written chart'
                             % (norm(rmw[0][1])[:70], norm(rmw[0][0])[:70])), node=rmw[0][0] if rmw else None, obligation=True)
    # the stored callback is the very object the caller registered (a bound method keeps its own `self`), and the template calls it by its kind
    fnp = rs.params[3] if len(rs.params) > 3 else None
    stores_ = [n for n in walk_shallow(rs.node) if isinstance(n, ast.Assign) and any(isinstance(t, ast.Subscript) and norm(t.slice) == rs.params[2] for t in n.targets)]
    rebinds_ = [n for n in walk_shallow(rs.node) if isinstance(n, (ast.Assign, ast.AugAssign)) and
                any(isinstance(t, ast.Name) and t.id == fnp for t in (n.targets if isinstance(n, ast.Assign) else [n.target]))]
    ok = bool(stores_) and all(isinstance(n.value, ast.Name) and n.value.id == fnp for n in stores_) and not rebinds_
    run.inst('TABLE.registries', rs, 'the registered callback object itself is stored', ok,
             '' if ok else ('register_signal_callback does not store the callback it was given (%s): a bound method of another object loses its receiver and later runs with the chart as `self`'
                            % (norm(rebinds_[0]) if rebinds_ else ', '.join(norm(n.value) for n in stores_))), obligation=True)
    tmpl_ = model.func('hsm.state_method_template').nested.get('base_state_method')
    if tmpl_ is None:
        raise AnalysisError('state_method_template.base_state_method not found')
    from sa.boolflow import must_atoms as _ma
    gt_ = cfg_of(tmpl_)
    cbvars = {it.optional_vars.id for n in walk_shallow(tmpl_.node) if isinstance(n, ast.With) for it in n.items
              if isinstance(it.optional_vars, ast.Name) and 'signal_callback' in norm(it.context_expr)}
    n_cb = 0
    for n in gt_.nodes:
        if n.kind in ('entry', 'exit', 'xexit', 'def') or tdec:
            continue
        for c in n.calls():
            if isinstance(c.func, ast.Name) and c.func.id in cbvars:
                n_cb += 1
                atoms = _ma(gt_, n, tmpl_.node, params=tmpl_.params)
                is_m = any(l == 'inspect.ismethod(%s)' % c.func.id and op == 'Truthy' for (l, op, r) in atoms)
                not_m = any(l == 'inspect.ismethod(%s)' % c.func.id and op == 'Falsy' for (l, op, r) in atoms)
                nargs = len(c.args)
                ok = (is_m and nargs == 1) or (not_m and nargs == 2)
                run.inst('TEMPLATE.protocol', tmpl_, 'callback called by its kind: %s' % norm(c), ok,
                         '' if ok else ('the template handler calls the registered callback as %s without distinguishing bound methods (called with the event) from plain functions (called with '
                                        'chart and event): a handler registered as a bound method of a delegate object is called with the wrong arguments / the wrong self' % norm(c)),
                         node=c, obligation=True)
    run.floor('template: callback call sites', n_cb, 0 if tdec else 2)
    rkeys = [norm(n.slice) for n in walk_shallow(sc.node) if isinstance(n, ast.Subscript)]
    ok = any(k.endswith('.signal') for k in rkeys)
    run.inst('TABLE.registries', sc, 'callbacks looked up under [state name][e.signal]', ok, 'signal_callback looks up %s' % rkeys, obligation=True)
    # unregistered signal -> UNHANDLED
    dflt = [h for h in sc.nested.values()]
    ok = len(dflt) == 1 and all(isinstance(n.value, ast.Attribute) and status_const(n.value) == 'UNHANDLED' for n in walk_shallow(dflt[0].node) if isinstance(n, ast.Return))
    run.inst('TEMPLATE.protocol', sc, 'an unregistered signal answers UNHANDLED', ok, 'the default callback no longer answers UNHANDLED: unregistered events stop bubbling', obligation=True)
    from sa.util import expand_locals as _xl2
    wk = [norm(_xl2(n.slice, rp.node, params=rp.params)) for n in walk_shallow(rp.node) if isinstance(n, ast.Subscript) and isinstance(n.ctx, ast.Store)]
    ok = any('.__name__' in k for k in wk)
    run.inst('TABLE.registries', rp, 'parents stored under the state name', ok, 'register_parent stores under %s' % wk, obligation=True)
    # ---- CODEGEN: decided by evaluating to_code where the evaluator can follow it; the fragment enumeration below is the fall-back
    evaluated = False
    try:
        evaluated = codegen_eval(run, model, tc)
    except AnalysisError as ex_:
        run.note('to_code is outside the evaluator\'s fragment (%s): decided by enumerating and assembling its text fragments' % ex_)
    if not evaluated:
        codegen_fragments(run, model, tc)
    # ---- FACTORY.attributes
    fac = model.cls('Factory')
    cg = callgraph(model)
    n_sub = 0
    for f in fac.methods.values():
        run.touch(f)
        for n in walk_shallow(f.node):
            if isinstance(n, ast.Subscript):
                d = dotted(n.value)
                if d and d.startswith(f.params[0] + '.') and d.count('.') == 1:
                    attr = d.split('.', 1)[1]
                    n_sub += 1
                    tys = cg.types_of_field(fac, attr)
                    bad = bool(tys) and all((t in model.classes and '__getitem__' not in {m for k in model.mro(model.classes[t]) for m in k.methods}) for t in tys if t is not None) and None not in tys
                    unknown = not tys
                    ok = not bad and not unknown
                    run.inst('FACTORY.attributes', f, 'subscript of self.%s' % attr, ok,
                             '' if ok else ('Factory.%s subscripts self.%s, which holds %s - not the name->blueprint table: using the documented string form raises TypeError'
                                            % (f.name, attr, sorted(str(t) for t in tys) or 'nothing assigned in the class')), node=n, obligation=True)
    run.floor('Factory: subscripts of its own attributes', n_sub, 5)
    # wiring
    create, nest, start_at, tocode = (fac.methods.get(x) for x in ('create', 'nest', 'start_at', 'to_code'))
    bp = fac.nested_classes.get('StateMethodBlueprint')
    if not (create and nest and start_at and tocode and bp):
        raise AnalysisError('Factory API not found')
    bi = bp.methods.get('__init__')
    ok = any(isinstance(c.func, ast.Name) and c.func.id == 'state_method_template' and c.args and isinstance(c.args[0], ast.Name) and c.args[0].id == bi.params[1] for c in shallow_calls(bi.node))
    run.inst('FACTORY.attributes', bi, 'a blueprint builds its handler with state_method_template(name)', ok, 'blueprints no longer use the template', obligation=True)
    catch = bp.methods.get('catch')
    ok = catch is not None and any(isinstance(c.func, ast.Attribute) and c.func.attr == 'register_signal_callback' and [norm(a) for a in c.args][1:] == catch.params[1:] for c in shallow_calls(catch.node))
    run.inst('FACTORY.attributes', catch or bp.name, 'catch registers (signal, handler) for its own state method', ok, 'catch does not register the given signal/handler', obligation=True)
    ok = any(isinstance(c.func, ast.Attribute) and c.func.attr == 'register_parent' for c in shallow_calls(nest.node))
    run.inst('FACTORY.attributes', nest, 'nest registers the parent', ok, 'nest does not register a parent', obligation=True)
    ok = any(dotted(n.value) == nest.params[0] + '.top' for n in walk_shallow(nest.node) if isinstance(n, ast.Assign))
    run.inst('FACTORY.attributes', nest, 'parent None means top', ok, 'nest(parent=None) no longer means the top state', obligation=True)
    run.assume('H1-H3 are what the event processor assumes of a handler (C01-C03); behavioural equality of the three builds is not executed')
