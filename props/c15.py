"""C15 defer holds events back until recall, oldest first.

ENDS.defer     : defer adds its own event at the right of defer_queue, exactly once.
ENDS.recall    : recall, when something is deferred, removes from the *left* (oldest), re-posts exactly that element with
                 post_fifo exactly once and returns it; when nothing is deferred it removes nothing, posts nothing and
                 returns None.
LAYER.defer    : nothing else in the package removes from / adds to defer_queue (a step never looks at deferred events).
WRAP.once      : the spy wrappers of defer/recall run the wrapped method exactly once and hand back its result; the recall
                 wrapper peeks at the same end that recall removes from.
"""
import ast

from sa.model import AnalysisError, walk_shallow, dotted, norm
from sa.util import returned_values, cfg_of, local_defs, resolve_name, guarded_by_edge, shallow_calls
from sa.context import callgraph
from sa import queues, wrap

MUT = {'append', 'appendleft', 'pop', 'popleft', 'clear', 'rotate', 'remove', 'extend', 'extendleft', 'insert'}


def check(run, model, tier):
    run.explanation = ('End-label, path-count and who-may-touch analysis of HsmWithQueues.defer/recall and their wrappers: the deferral '
                       'buffer is written only by defer (right end) and read only by recall (left end, then post_fifo of exactly that '
                       'element), so deferred events keep their order and are invisible to steps, for every interleaving of the operations.')
    run.rule('ENDS.defer', 'defer appends its own event on the right exactly once')
    run.rule('ENDS.recall', 'recall: non-empty -> one popleft, one post_fifo of the popped value, returns it; empty -> nothing, returns None')
    run.rule('LAYER.defer', 'defer_queue is touched by defer and recall only')
    run.rule('WRAP.once', 'wrappers of defer/recall call exactly once, forward the result, peek at the removal end')
    hq = model.cls('HsmWithQueues')
    cg = callgraph(model)
    defer, recall = hq.methods.get('defer'), hq.methods.get('recall')
    if defer is None or recall is None:
        raise AnalysisError('HsmWithQueues.defer/recall not found')
    # ---- defer
    g = cfg_of(defer)
    run.touch(defer, g)
    dq = defer.params[0] + '.defer_queue'
    adds = queues.ops_on(g, dq, MUT)
    right = [n for n, c, m in adds if m == 'append']
    cnt = queues.count(g, right)
    ok = cnt == (1, 1) and len(adds) == len(right)
    run.inst('ENDS.defer', defer, 'appends once on the right', ok,
             '' if ok else 'defer touches the deferral buffer with %s; right-end appends on paths: %s' % ([m for _n, _c, m in adds], cnt), obligation=True)
    for n, c, m in adds:
        ok = len(c.args) == 1 and isinstance(c.args[0], ast.Name) and c.args[0].id == defer.params[1]
        run.inst('ENDS.defer', defer, 'defers its own event', ok, '' if ok else 'defer stores %s' % norm(c), node=c, obligation=True)
    # ---- recall
    g = cfg_of(recall)
    run.touch(recall, g)
    selfn = recall.params[0]
    dq = selfn + '.defer_queue'
    ops = queues.ops_on(g, dq, MUT)
    pops = [(n, c, m) for n, c, m in ops if m in ('pop', 'popleft')]
    others = [m for n, c, m in ops if m not in ('pop', 'popleft')]
    tests = []
    for t in g.nodes:
        if t.kind == 'test':
            rec, pol = queues.is_nonempty_test(t.ast, dq)
            if rec:
                tests.append((t, 'true' if pol else 'false'))
    if len(tests) != 1:
        raise AnalysisError('recall: expected one non-empty test of defer_queue, found %d' % len(tests))
    t, lab = tests[0]
    posts = [(n, c) for n in g.nodes if n.kind not in ('entry', 'exit', 'xexit', 'def') for c in n.calls()
             if isinstance(c.func, ast.Attribute) and c.func.attr in ('post_fifo', 'post_lifo') and dotted(c.func.value) == selfn]
    defs = local_defs(recall.node)
    for m, l in g.succ[t]:
        pc = queues.count(g, [n for n, _c, _m in pops], start=m)
        sc = queues.count(g, [n for n, _c in posts], start=m)
        if l == lab:
            ok = pc == (1, 1) and sc == (1, 1)
            run.inst('ENDS.recall', recall, 'non-empty: one removal and one re-post', ok,
                     '' if ok else 'with something deferred recall removes %s and posts %s times' % (pc, sc), obligation=True)
        else:
            ok = pc == (0, 0) and sc == (0, 0)
            run.inst('ENDS.recall', recall, 'empty: no removal, no post', ok,
                     '' if ok else 'with nothing deferred recall removes %s / posts %s times' % (pc, sc), obligation=True)
    for n, c, m in pops:
        ok = m == 'popleft' and not c.args and guarded_by_edge(g, n, t, lab)
        run.inst('ENDS.recall', recall, 'removes the oldest (left end) under the non-empty test', ok,
                 '' if ok else 'recall removes with %s: not the oldest deferred event' % norm(c), node=c, obligation=True)
    run.inst('ENDS.recall', recall, 'no other mutation of the deferral buffer', not others, 'recall also does %s on the buffer' % others, obligation=True)
    for n, c in posts:
        val = resolve_name(c.args[0], defs) if c.args else None
        # the posted value: a name whose definitions include the pop
        popped = False
        if c.args and isinstance(c.args[0], ast.Name):
            popped = any(any(d is pc for _n, pc, _m in pops) for d in defs.get(c.args[0].id, []))
        elif c.args:
            popped = any(c.args[0] is pc for _n, pc, _m in pops)
        ok = c.func.attr == 'post_fifo' and popped and all(g.dominates(pn, n) for pn, _pc, _m in pops)
        run.inst('ENDS.recall', recall, 're-posts the removed event to the back (post_fifo)', ok,
                 '' if ok else 'recall re-posts with %s' % norm(c), node=c, obligation=True)
    # returns: every return is the variable that holds the popped value; that variable is None when nothing is deferred
    # path rule on the reaching definitions of every returned value: after the removal the removed event is handed back, otherwise None
    ok = True
    n_ret = 0
    popnodes = [n for n, _c, _m in pops]
    for p_, lab_, vals in returned_values(g, recall.params):
        n_ret += 1
        for v, dn in vals:
            is_pop = v is not None and any(v is pc for _n, pc, _m in pops)
            is_none = isinstance(v, ast.Constant) and v.value is None
            # a None is fine only where no removal has happened before the point that produced it
            none_ok = is_none and dn is not None and not any(dn is pn or g.exists_path(pn, dn) for pn in popnodes)
            if not (is_pop or none_ok):
                ok = False
    run.inst('ENDS.recall', recall, 'returns the removed event, None when nothing is deferred', ok and n_ret >= 1,
             '' if ok else 'recall does not return the removed event / None on the empty path', obligation=True)
    # ---- LAYER: who touches defer_queue
    n_sites = 0
    for f in model.all_funcs():
        for c in shallow_calls(f.node):
            if isinstance(c.func, ast.Attribute) and c.func.attr in MUT:
                d = dotted(c.func.value)
                if d and d.endswith('.defer_queue'):
                    n_sites += 1
                    ok = f in (defer, recall)
                    run.inst('LAYER.defer', f, norm(c.func), ok, '' if ok else '%s modifies the deferral buffer outside defer/recall' % f.qualname, node=c, nontrivial=not ok)
        for n in walk_shallow(f.node):
            if isinstance(n, ast.Assign) and any(dotted(t) and dotted(t).endswith('.defer_queue') for t in n.targets) and f.name != '__init__':
                run.inst('LAYER.defer', f, 'rebinds defer_queue', False, 'the deferral buffer is replaced outside __init__', node=n)
    run.floor('defer_queue mutation sites', n_sites, 2)
    # ---- wrappers
    n = 0
    for nm, raw in (('defer', defer), ('recall', recall)):
        for fac, d in getattr(raw, 'decorator_chain', []):
            if fac == 'unknown':
                raise AnalysisError('unknown decorator on %s' % nm)
            info = wrap.analyse_wrapper(model, cg, fac)
            n += 1
            ok = info.count == (1, 1)
            run.inst('WRAP.once', info.inner, 'wrapper of %s calls it exactly once' % nm, ok,
                     '' if ok else 'the wrapper runs %s %s times on some path (%s)' % (nm, info.count, info.witness), obligation=True)
            for c, ok2, why in info.forward:
                run.inst('WRAP.once', info.inner, 'forwards ' + norm(c), ok2, why, node=c, obligation=True)
            if nm == 'recall':
                for c, how, ok2, why in info.results:
                    run.inst('WRAP.once', info.inner, 'returns what recall returned', bool(ok2), why or 'result %s' % how, node=c, obligation=True)
                # peek end == removal end
                peeks = [s for s in walk_shallow(info.inner.node) if isinstance(s, ast.Subscript) and dotted(s.value) and dotted(s.value).endswith('.defer_queue')]
                for s in peeks:
                    idx = s.slice.value if isinstance(s.slice, ast.Constant) else (-s.slice.operand.value if isinstance(s.slice, ast.UnaryOp) and isinstance(s.slice.operand, ast.Constant) else None)
                    want = 0 if all(m == 'popleft' for _n, _c, m in pops) else -1
                    run.inst('WRAP.once', info.inner, 'peeks at the end recall removes from', idx == want,
                             '' if idx == want else 'the RECALL spy line names defer_queue[%s] but recall removes from the other end' % idx, node=s, obligation=True)
                # no mutation of the buffer in the wrapper
                muts = [c for c in shallow_calls(info.inner.node) if isinstance(c.func, ast.Attribute) and c.func.attr in MUT
                        and dotted(c.func.value) and dotted(c.func.value).endswith('.defer_queue')]
                run.inst('WRAP.once', info.inner, 'wrapper does not modify the deferral buffer', not muts, 'the recall wrapper modifies the buffer', obligation=True)
    run.floor('wrappers on defer/recall', n, 2)
    run.assume('collections.deque semantics; post_fifo places at the back (C14)')
