"""C32 stripped() makes trace comparison timestamp-insensitive.

TABLE.timestamp-prefix : every timestamp the trace writer can produce (alphabet of its strftime directives and
                         literals, in its bracket layout) is inside the language of the prefix that the reader's
                         regex removes, and what remains is exactly the rest of the writer's line (the name
                         bracket is outside the prefix, even for an all-digit chart name).
SIBLING.strip-branches : the multi-line branch and the single-line branch of stripped() apply the same
                         normalisation: strip surrounding whitespace, then remove the prefix; the multi-line
                         branch drops lines that are empty after stripping.
Not decided: the "exactly when" over arbitrary perturbations of arbitrary traces (inputs).
"""
import ast
import re
import string

from sa.model import AnalysisError, walk_shallow, dotted, norm
from sa.util import cfg_of, shallow_calls, const_str, local_defs, resolve_name, node_of_call

# strftime directives whose output is digits only (C standard / python docs)
DIGIT_DIRECTIVES = {'Y': 4, 'm': 2, 'd': 2, 'H': 2, 'M': 2, 'S': 2, 'f': 6, 'j': 3, 'y': 2, 'I': 2, 'U': 2, 'W': 2, 'w': 1, 'G': 4, 'u': 1, 'V': 2}
OTHER_DIRECTIVES = {'a': 'Mon', 'A': 'Monday', 'b': 'Jan', 'B': 'January', 'p': 'AM', 'z': '+0000', 'Z': 'UTC', 'c': 'Mon Jan  1 00:00:00 2000',
                    'x': '01/01/00', 'X': '00:00:00', '%': '%'}


def render(fmt, digit):
    out = []
    i = 0
    while i < len(fmt):
        ch = fmt[i]
        if ch == '%' and i + 1 < len(fmt):
            d = fmt[i + 1]
            if d in DIGIT_DIRECTIVES:
                out.append(digit * DIGIT_DIRECTIVES[d])
            elif d in OTHER_DIRECTIVES:
                out.append(OTHER_DIRECTIVES[d])
            else:
                raise AnalysisError('unknown strftime directive %%%s in the trace writer' % d)
            i += 2
        else:
            out.append(ch)
            i += 1
    return ''.join(out)


def check(run, model, tier):
    run.explanation = ('Writer/reader agreement between the trace formatter (trace_tuple_to_formatted_string) and the prefix regex of '
                       'stripped(): the writer\'s format literals are read from the source, the complete alphabet of timestamps they can '
                       'produce is rendered (each digit directive with each digit 0-9) and decided against the reader\'s regex literal; '
                       'the two branches of stripped() are compared structurally on their CFGs.')
    run.rule('TABLE.timestamp-prefix', 'writer timestamp alphabet/layout is removed exactly by the reader regex; the remainder is the rest of the line')
    run.rule('SIBLING.strip-branches', 'both branches: strip -> remove prefix; multi-line drops empty lines')
    hq = model.cls('HsmWithQueues')
    writer = hq.methods.get('trace_tuple_to_formatted_string')
    stripped = model.func('hsm.stripped')
    if writer is None:
        raise AnalysisError('HsmWithQueues.trace_tuple_to_formatted_string not found')
    run.touch(writer)
    run.touch(stripped)
    # ---- writer literals
    fmt_calls = [c for c in shallow_calls(writer.node) if isinstance(c.func, ast.Attribute) and c.func.attr == 'format' and const_str(c.func.value) is not None]
    if len(fmt_calls) != 1:
        raise AnalysisError('trace writer: expected one "<literal>".format(...) call, found %d' % len(fmt_calls))
    layout = const_str(fmt_calls[0].func.value)
    args = fmt_calls[0].args
    st_calls = [c for c in shallow_calls(writer.node) if isinstance(c.func, ast.Attribute) and c.func.attr == 'strftime']
    tfmts = []
    if len(st_calls) == 1:
        sc = st_calls[0]
        for a in sc.args:
            if const_str(a) is not None:
                tfmts = [const_str(a)]
        if not tfmts:
            raise AnalysisError('trace writer: strftime format is not a literal')
        if not args or args[0] is not sc:
            raise AnalysisError('trace writer: the timestamp is not the first field of the layout')
    elif not st_calls and args:
        # the datetime object formatted directly: str(datetime) == isoformat(' '), which drops the fraction when microsecond == 0
        a0 = args[0]
        inner0 = a0.args[0] if isinstance(a0, ast.Call) and norm(a0.func) == 'str' and a0.args else a0
        if isinstance(inner0, ast.Attribute) and inner0.attr == 'datetime':
            tfmts = ['%Y-%m-%d %H:%M:%S.%f', '%Y-%m-%d %H:%M:%S']
        elif isinstance(inner0, ast.Call) and isinstance(inner0.func, ast.Attribute) and inner0.func.attr == 'isoformat' and isinstance(inner0.func.value, ast.Attribute) \
                and inner0.func.value.attr == 'datetime':
            sep = const_str(inner0.args[0]) if inner0.args else 'T'
            tfmts = ['%Y-%m-%d' + (sep or 'T') + '%H:%M:%S.%f', '%Y-%m-%d' + (sep or 'T') + '%H:%M:%S']
        else:
            raise AnalysisError('trace writer: the timestamp field %s is not a recognised way of rendering the record\'s datetime' % norm(a0))
    else:
        raise AnalysisError('trace writer: expected one strftime call, found %d' % len(st_calls))
    # ---- reader regex
    helper = stripped.nested.get('item_without_timestamp')
    if helper is None:
        cands = [f for f in stripped.nested.values()]
        helper = cands[0] if len(cands) == 1 else None
    if helper is None:
        raise AnalysisError('stripped(): the prefix-removing helper was not found')
    rxs = [(dotted(c.func), const_str(c.args[0]), c) for c in shallow_calls(helper.node) if dotted(c.func) in ('re.match', 're.search', 're.fullmatch', 're.sub') and c.args]
    if len(rxs) != 1 or rxs[0][1] is None:
        raise AnalysisError('stripped(): expected one regex literal in the helper')
    how, pattern, rcall = rxs[0]
    try:
        rx = re.compile(pattern)
    except re.error as ex:
        raise AnalysisError('reader regex does not compile: %s' % ex)

    def strip_prefix(line):
        if how == 're.sub':
            return rx.sub(const_str(rcall.args[1]) or '', line)
        m = rx.match(line) if how != 're.search' else rx.search(line)
        if m is None:
            return line
        return m.group(1)
    n = 0
    for tfmt, digit in [(tf, dg) for tf in tfmts for dg in string.digits]:
        ts = render(tfmt, digit)
        for name in ('75c8c', '12345', 'None', 'a b'):
            rest_fields = [name, 'SIG_1', 'state_a', 'state_b2']
            line = layout.format(ts, *rest_fields).rstrip('\n')
            # expected remainder: the layout with the first field and its separator removed
            idx = layout.index('{}')
            closing = layout[idx + 2:]
            sep_end = closing.index('[') if '[' in closing else 0
            expect = closing[sep_end:].format(*rest_fields).rstrip('\n')
            got = strip_prefix(line)
            ok = got == expect
            n += 1
            run.inst('TABLE.timestamp-prefix', helper, 'form %r digit %s name %r' % (tfmt, digit, name), ok,
                     '' if ok else 'writer line %r is stripped to %r, expected %r: the reader regex %r does not remove exactly the timestamp the '
                     'writer produces in its form %r' % (line, got, expect, pattern, tfmt), node=rcall, obligation=True)
            # leading spaces (the live trace indents) are part of the prefix
            got2 = strip_prefix('   ' + line)
            run.inst('TABLE.timestamp-prefix', helper, 'indented, form %r digit %s name %r' % (tfmt, digit, name), got2 == expect,
                     '' if got2 == expect else 'an indented writer line is stripped to %r, expected %r' % (got2, expect), node=rcall, obligation=True)
    run.floor('writer/reader samples decided', n, 40)
    # two lines that differ only in the timestamp must compare equal; lines that differ elsewhere must not
    tfmt = tfmts[0]
    a = layout.format(render(tfmt, '1'), 'n', 'S', 'x', 'y').rstrip('\n')
    b = layout.format(render(tfmts[-1], '7'), 'n', 'S', 'x', 'y').rstrip('\n')
    c = layout.format(render(tfmt, '1'), 'n', 'S', 'x', 'z').rstrip('\n')
    run.inst('TABLE.timestamp-prefix', helper, 'timestamp-only difference vanishes', strip_prefix(a) == strip_prefix(b),
             'two lines differing only in the timestamp still differ after stripping', node=rcall, obligation=True)
    run.inst('TABLE.timestamp-prefix', helper, 'other differences survive', strip_prefix(a) != strip_prefix(c),
             'two lines differing in their end state compare equal after stripping', node=rcall, obligation=True)
    # ---- SIBLING: branches of stripped()
    g = cfg_of(stripped)
    calls = [(n, c) for n in g.nodes if n.kind not in ('entry', 'exit', 'xexit', 'def') for c in n.calls()
             if isinstance(c.func, ast.Name) and c.func.id == helper.name]
    run.floor('prefix-removal call sites in stripped()', len(calls), 2)
    defs = local_defs(stripped.node)

    def is_strip_call(e):
        return isinstance(e, ast.Call) and isinstance(e.func, ast.Attribute) and e.func.attr == 'strip' and not e.args

    def stripped_before(node, argexpr):
        if is_strip_call(argexpr):
            return True
        if isinstance(argexpr, ast.Name):
            # an assignment `name = <...>.strip()` dominates the call and no other assignment to name lies between
            for m in g.nodes:
                if m.kind == 'stmt' and isinstance(m.ast, ast.Assign) and any(isinstance(t, ast.Name) and t.id == argexpr.id for t in m.ast.targets):
                    v = m.ast.value
                    if is_strip_call(v) and g.dominates(m, node):
                        others = [o for o in g.nodes if o is not m and o.kind in ('stmt', 'for') and
                                  ((isinstance(o.ast, ast.Assign) and any(isinstance(t, ast.Name) and t.id == argexpr.id for t in o.ast.targets))
                                   or (o.kind == 'for' and argexpr.id in {x.id for x in ast.walk(o.stmt.target) if isinstance(x, ast.Name)}))]
                        if not any(g.exists_path(m, o, avoiding=[node]) and g.exists_path(o, node, avoiding=[m]) for o in others):
                            return True
                    if isinstance(v, ast.Name) or is_strip_call(v) is False:
                        # alias of an already stripped value: target = log_stripped
                        if isinstance(v, ast.Name) and g.dominates(m, node) and stripped_before(m, v):
                            return True
        return False
    for node, c in calls:
        in_loop = any(node in g.loop_body(h) for h in g.loop_heads())
        ok = bool(c.args) and stripped_before(node, c.args[0])
        run.inst('SIBLING.strip-branches', stripped, ('multi-line' if in_loop else 'single-line') + ' branch strips before removing the prefix', ok,
                 '' if ok else 'the %s branch of stripped() removes the prefix from an unstripped line: surrounding whitespace survives there '
                 'but not in the other branch' % ('multi-line' if in_loop else 'single-line'), node=c, obligation=True)
        if in_loop:
            # guarded by a non-empty test of the stripped item
            tests = [t for t in g.nodes if t.kind == 'test' and g.dominates(t, node) and 'len(' in norm(t.ast) and any(t in g.loop_body(h) for h in g.loop_heads())]
            run.inst('SIBLING.strip-branches', stripped, 'multi-line branch drops blank lines', bool(tests),
                     '' if tests else 'blank lines are not dropped in the multi-line branch', node=c, obligation=True)
    run.assume('strftime digit directives produce ASCII digits only (C locale independent for %Y %m %d %H %M %S %f)')
