"""C32 stripped() makes trace comparison timestamp-insensitive.

TABLE.timestamp-prefix : every timestamp the trace writer can produce (alphabet of its strftime directives and
                         literals, in its bracket layout) is inside the language of the prefix that the reader's
                         regex removes, and what remains is exactly the rest of the writer's line (the name
                         bracket is outside the prefix, even for an all-digit chart name).
SIBLING.strip-branches : the multi-line branch and the single-line branch of stripped() apply the same
                         normalisation: strip surrounding whitespace, then remove the prefix; the multi-line
                         branch drops lines that are empty after stripping.
Not decided: the "exactly when" over arbitrary perturbations of arbitrary traces (inputs).
"""
import ast
import re
import string

from sa.model import AnalysisError, walk_shallow, dotted, norm
from sa.boolflow import must_atoms
from sa.util import cfg_of, shallow_calls, const_str, local_defs, resolve_name, node_of_call, regex_uses, unique_def, parents, node_of_ast

# strftime directives whose output is digits only (C standard / python docs)
DIGIT_DIRECTIVES = {'Y': 4, 'm': 2, 'd': 2, 'H': 2, 'M': 2, 'S': 2, 'f': 6, 'j': 3, 'y': 2, 'I': 2, 'U': 2, 'W': 2, 'w': 1, 'G': 4, 'u': 1, 'V': 2}
OTHER_DIRECTIVES = {'a': 'Mon', 'A': 'Monday', 'b': 'Jan', 'B': 'January', 'p': 'AM', 'z': '+0000', 'Z': 'UTC', 'c': 'Mon Jan  1 00:00:00 2000',
                    'x': '01/01/00', 'X': '00:00:00', '%': '%'}


def render(fmt, digit):
    out = []
    i = 0
    while i < len(fmt):
        ch = fmt[i]
        if ch == '%' and i + 1 < len(fmt):
            d = fmt[i + 1]
            if d in DIGIT_DIRECTIVES:
                out.append(digit * DIGIT_DIRECTIVES[d])
            elif d in OTHER_DIRECTIVES:
                out.append(OTHER_DIRECTIVES[d])
            else:
                raise AnalysisError('unknown strftime directive %%%s in the trace writer' % d)
            i += 2
        else:
            out.append(ch)
            i += 1
    return ''.join(out)


def check(run, model, tier):
    run.explanation = ('Writer/reader agreement between the trace formatter (trace_tuple_to_formatted_string) and the prefix regex of '
                       'stripped(): the writer\'s format literals are read from the source, the complete alphabet of timestamps they can '
                       'produce is rendered (each digit directive with each digit 0-9) and decided against the reader\'s regex literal; '
                       'the two branches of stripped() are compared structurally on their CFGs.')
    run.rule('TABLE.timestamp-prefix', 'writer timestamp alphabet/layout is removed exactly by the reader regex; the remainder is the rest of the line')
    run.rule('SIBLING.strip-branches', 'both branches: strip -> remove prefix; multi-line drops empty lines')
    hq = model.cls('HsmWithQueues')
    writer = hq.methods.get('trace_tuple_to_formatted_string')
    stripped = model.func('hsm.stripped')
    if writer is None:
        raise AnalysisError('HsmWithQueues.trace_tuple_to_formatted_string not found')
    run.touch(writer)
    run.touch(stripped)
    # ---- writer literals
    fmt_calls = [c for c in shallow_calls(writer.node) if isinstance(c.func, ast.Attribute) and c.func.attr == 'format' and const_str(c.func.value) is not None]
    if len(fmt_calls) != 1:
        raise AnalysisError('trace writer: expected one "<literal>".format(...) call, found %d' % len(fmt_calls))
    layout = const_str(fmt_calls[0].func.value)
    args = fmt_calls[0].args
    st_calls = [c for c in shallow_calls(writer.node) if isinstance(c.func, ast.Attribute) and c.func.attr == 'strftime']
    tfmts = []
    if len(st_calls) == 1:
        sc = st_calls[0]
        for a in sc.args:
            if const_str(a) is not None:
                tfmts = [const_str(a)]
        if not tfmts:
            raise AnalysisError('trace writer: strftime format is not a literal')
        first = args[0] if args else None
        if isinstance(first, ast.Name):
            # a local bound once to the rendered timestamp
            ds_ = [d_ for d_ in local_defs(writer.node).get(first.id, []) if isinstance(d_, ast.AST)]
            if len(ds_) == 1:
                first = ds_[0]
        if first is not sc:
            raise AnalysisError('trace writer: the timestamp is not the first field of the layout')
    elif not st_calls and args:
        # the datetime object formatted directly: str(datetime) == isoformat(' '), which drops the fraction when microsecond == 0
        a0 = args[0]
        inner0 = a0.args[0] if isinstance(a0, ast.Call) and norm(a0.func) == 'str' and a0.args else a0
        if isinstance(inner0, ast.Attribute) and inner0.attr == 'datetime':
            tfmts = ['%Y-%m-%d %H:%M:%S.%f', '%Y-%m-%d %H:%M:%S']
        elif isinstance(inner0, ast.Call) and isinstance(inner0.func, ast.Attribute) and inner0.func.attr == 'isoformat' and isinstance(inner0.func.value, ast.Attribute) \
                and inner0.func.value.attr == 'datetime':
            sep = const_str(inner0.args[0]) if inner0.args else 'T'
            tfmts = ['%Y-%m-%d' + (sep or 'T') + '%H:%M:%S.%f', '%Y-%m-%d' + (sep or 'T') + '%H:%M:%S']
        else:
            raise AnalysisError('trace writer: the timestamp field %s is not a recognised way of rendering the record\'s datetime' % norm(a0))
    else:
        raise AnalysisError('trace writer: expected one strftime call, found %d' % len(st_calls))
    # ---- one record, one line: stripped() removes the timestamp at the start of each *line*; a record handed to a sink (trace(), a live-trace callback that collects
    # into one log) without its line break is glued to the next record, whose timestamp then sits in the middle of a line and survives stripping
    run.rule('WRITER.line-per-record', 'every place that renders a trace record ends it with a line break: in the layout itself, or at each call site of the formatter')
    if not layout.endswith('\n'):
        bare = []
        for f_ in model.all_funcs():
            par_ = None
            for c_ in shallow_calls(f_.node):
                if isinstance(c_.func, ast.Attribute) and c_.func.attr == writer.name:
                    if par_ is None:
                        from sa.util import parents as _parents
                        par_ = _parents(f_.node)
                    up = par_.get(c_)
                    ok_ = isinstance(up, ast.BinOp) and isinstance(up.op, ast.Add) and any((const_str(x_) or '').endswith('\n') for x_ in (up.left, up.right))
                    if not ok_ and isinstance(up, ast.AugAssign) and isinstance(up.op, ast.Add) and isinstance(up.target, ast.Name):
                        # `s = "\n"` ... `s += formatter(record)`: the record starts on a line of its own
                        ds_ = [d_ for d_ in local_defs(f_.node).get(up.target.id, []) if isinstance(d_, ast.AST)]
                        ok_ = any(isinstance(d_, ast.Constant) and isinstance(d_.value, str) and d_.value.endswith('\n') for d_ in ds_)
                    if not ok_:
                        bare.append((f_, c_))
        for f_, c_ in bare:
            run.inst('WRITER.line-per-record', f_, 'the rendered record is terminated: ' + norm(c_)[:60], False,
                     'the trace layout %r has no line break and %s hands the rendered record on as it is (%s): in a log that collects several records - two charts sharing one live-trace '
                     'callback, a chart started twice - that record is glued to its neighbour, the second timestamp is no longer at the start of a line, and two logs that differ only '
                     'in timestamps no longer strip to equal lists' % (layout, f_.qualname, norm(c_)[:60]), node=c_, obligation=True)
        if not bare:
            run.inst('WRITER.line-per-record', writer, 'every call site of the formatter appends the line break', True, obligation=True)
    else:
        run.inst('WRITER.line-per-record', writer, 'the layout ends with a line break', True, obligation=True)
    # ---- reader regex: every regular expression applied by stripped() (in its body or in a helper nested in it)
    uses = []          # (function that contains the use, how, pattern, call, subject args)
    # ... or in a module-level function it calls (followed transitively; a decorator on such a function does not hide its body)
    helpers, todo_ = [], [stripped] + list(stripped.nested.values())
    seen_ = set()
    while todo_:
        fn_ = todo_.pop()
        if fn_.qualname in seen_:
            continue
        seen_.add(fn_.qualname)
        helpers.append(fn_)
        for c_ in [x for x in ast.walk(fn_.node) if isinstance(x, ast.Call) and isinstance(x.func, ast.Name)]:
            tgt = next((f2 for f2 in model.all_funcs() if f2.owner_class is None and f2.parent is None and f2.module is stripped.module and f2.name == c_.func.id), None)
            if tgt is not None:
                todo_.append(tgt)
    for fn_ in helpers:
        for how_, pat_, c_, rest_ in regex_uses(model, fn_):
            uses.append((fn_, how_, pat_, c_, rest_))
    # what stripped() hands out is the caller's own: a memoised helper that returns a container hands the *same* object to every caller with an equal log
    run.rule('STRIP.fresh-result', 'no function on the way from stripped() to its result is memoised while returning a mutable container')
    MEMO = ('lru_cache', 'cache', 'memoize', 'memoise', 'cached')
    n_memo = 0
    for fn_ in helpers:
        decos = [norm(d_) for d_ in fn_.node.decorator_list]
        memo = [d_ for d_ in decos if any(k_ in d_ for k_ in MEMO)]
        if not memo:
            continue
        n_memo += 1
        rets = [r_.value for r_ in walk_shallow(fn_.node) if isinstance(r_, ast.Return) and r_.value is not None]
        fdefs_ = local_defs(fn_.node)

        def mutable(e, depth=3):
            if isinstance(e, (ast.List, ast.Dict, ast.Set, ast.ListComp, ast.DictComp, ast.SetComp)):
                return True
            if isinstance(e, ast.Call) and isinstance(e.func, ast.Name) and e.func.id in ('list', 'dict', 'set', 'deque', 'sorted', 'bytearray'):
                return True
            if isinstance(e, ast.Name) and depth > 0:
                return any(isinstance(d_, ast.AST) and mutable(d_, depth - 1) for d_ in fdefs_.get(e.id, []))
            return False
        bad = [r_ for r_ in rets if mutable(r_)]
        run.inst('STRIP.fresh-result', fn_, '%s is memoised (%s): its results are immutable' % (fn_.name, ', '.join(memo)), not bad,
                 '' if not bad else ('%s is memoised (%s) and returns a mutable container (%s) that stripped() hands to its caller: every later stripped() of an equal log yields the same '
                                     'object, so a caller that consumes or edits what it was given (pop(0), sort, del) changes what the next comparison sees - two traces that differ only in '
                                     'timestamps stop comparing equal, and traces of different runs can compare equal' % (fn_.qualname, ', '.join(memo), norm(bad[0])[:80])),
                 node=bad[0] if bad else None, obligation=True)
    if not uses:
        raise AnalysisError('stripped(): no regular expression found (unknown way of removing the timestamp)')
    if len({(u[1], u[2]) for u in uses}) != 1:
        raise AnalysisError('stripped(): its branches use different regular expressions: %s' % sorted({u[2] for u in uses}))
    helper, how, pattern, rcall, _rest = uses[0]
    if how not in ('re.match', 're.search', 're.fullmatch', 're.sub'):
        raise AnalysisError('stripped(): unexpected regex operation %s' % how)
    # how the match is used: group(1) of the match object (else the line itself)
    for fn_, how_, pat_, c_, rest_ in uses:
        if how_ == 're.sub':
            continue
        mv = [k for k, v in local_defs(fn_.node).items() if any(x is c_ for x in v if not isinstance(x, tuple))]
        grp = [x for x in walk_shallow(fn_.node) if isinstance(x, ast.Call) and isinstance(x.func, ast.Attribute) and x.func.attr == 'group'
               and isinstance(x.func.value, ast.Name) and x.func.value.id in mv and len(x.args) == 1 and isinstance(x.args[0], ast.Constant) and x.args[0].value == 1]
        if not grp:
            raise AnalysisError('stripped(): the match of the timestamp regex is not used through .group(1) (unknown idiom)')
    try:
        rx = re.compile(pattern)
    except re.error as ex:
        raise AnalysisError('reader regex does not compile: %s' % ex)

    def strip_prefix(line):
        if how == 're.sub':
            return rx.sub(const_str(rcall.args[1]) or '', line)
        m = rx.match(line) if how != 're.search' else rx.search(line)
        if m is None:
            return line
        return m.group(1)
    n = 0
    for tfmt, digit in [(tf, dg) for tf in tfmts for dg in string.digits]:
        ts = render(tfmt, digit)
        for name in ('75c8c', '12345', 'None', 'a b'):
            rest_fields = [name, 'SIG_1', 'state_a', 'state_b2']
            line = layout.format(ts, *rest_fields).rstrip('\n')
            # expected remainder: the layout with the first field and its separator removed
            idx = layout.index('{}')
            closing = layout[idx + 2:]
            sep_end = closing.index('[') if '[' in closing else 0
            expect = closing[sep_end:].format(*rest_fields).rstrip('\n')
            got = strip_prefix(line)
            ok = got == expect
            n += 1
            run.inst('TABLE.timestamp-prefix', helper, 'form %r digit %s name %r' % (tfmt, digit, name), ok,
                     '' if ok else 'writer line %r is stripped to %r, expected %r: the reader regex %r does not remove exactly the timestamp the '
                     'writer produces in its form %r' % (line, got, expect, pattern, tfmt), node=rcall, obligation=True)
            # leading spaces (the live trace indents) are part of the prefix
            got2 = strip_prefix('   ' + line)
            run.inst('TABLE.timestamp-prefix', helper, 'indented, form %r digit %s name %r' % (tfmt, digit, name), got2 == expect,
                     '' if got2 == expect else 'an indented writer line is stripped to %r, expected %r' % (got2, expect), node=rcall, obligation=True)
    run.floor('writer/reader samples decided', n, 40)
    # two lines that differ only in the timestamp must compare equal; lines that differ elsewhere must not
    tfmt = tfmts[0]
    a = layout.format(render(tfmt, '1'), 'n', 'S', 'x', 'y').rstrip('\n')
    b = layout.format(render(tfmts[-1], '7'), 'n', 'S', 'x', 'y').rstrip('\n')
    c = layout.format(render(tfmt, '1'), 'n', 'S', 'x', 'z').rstrip('\n')
    run.inst('TABLE.timestamp-prefix', helper, 'timestamp-only difference vanishes', strip_prefix(a) == strip_prefix(b),
             'two lines differing only in the timestamp still differ after stripping', node=rcall, obligation=True)
    run.inst('TABLE.timestamp-prefix', helper, 'other differences survive', strip_prefix(a) != strip_prefix(c),
             'two lines differing in their end state compare equal after stripping', node=rcall, obligation=True)
    # ---- the whole function evaluated on small traces built from the writer's own layout: what the table and the branch comparison cannot see is what happens *between*
    # lines (a record dropped because it looks like its neighbour, a line joined to the next)
    run.rule('STRIP.eval', 'stripped() evaluated on traces of writer-format lines (equal and different timestamps, repeated records, blank and padded lines): the result is the list '
                           'of the non-blank lines without their timestamp; a single line gives that line without its timestamp')
    from sa import pureeval
    t1, t2 = render(tfmts[0], '1'), render(tfmts[0], '2')

    def wl(ts, sig, s0, s1):
        return layout.format(ts, 'c1', sig, s0, s1).rstrip('\n')
    recs = {'ab': ('GO', 'a', 'b'), 'bb': ('TICK', 'b', 'b'), 'ba': ('BACK', 'b', 'a')}
    traces = []
    for stamps in ((t1, t2, t2), (t1, t1, t1), (t2, t1, t1)):
        for kinds in (('ab', 'bb', 'ba'), ('ab', 'bb', 'bb'), ('bb', 'bb', 'bb'), ('ab', 'ba', 'ab')):
            lines = [wl(ts_, *recs[k_]) for ts_, k_ in zip(stamps, kinds)]
            want = [strip_prefix(l_) for l_ in lines]
            traces.append(('\n'.join(lines), want))
            traces.append(('\n' + '\n\n'.join('   ' + l_ + '  ' for l_ in lines) + '\n   \n', want))
    for k_ in recs:
        l_ = wl(t1, *recs[k_])
        traces.append((l_, strip_prefix(l_)))
        traces.append(('   ' + l_ + '  ', strip_prefix(l_)))
    re_obj = pureeval.Obj(match=re.match, search=re.search, fullmatch=re.fullmatch, sub=re.sub, compile=re.compile, findall=re.findall, split=re.split)
    bad_e = None
    n_e = 0
    try:
        for text, want in traces:
            try:
                got = pureeval.call(stripped.node, [text], globals_=dict(pureeval.module_constants(model, stripped.module), re=re_obj, __yield_returns__=True), mutable=True,
                                    strict_locals=True)
            except pureeval.Raised as ex_:
                got = 'raises ' + ex_.what
            n_e += 1
            if isinstance(got, tuple):
                got = list(got)
            if got != want and bad_e is None:
                bad_e = (text, want, got)
        run.inst('STRIP.eval', stripped, 'stripped(trace) over %d traces' % len(traces), bad_e is None,
                 '' if bad_e is None else ('stripped(%r) gives %r, expected %r: what is left after stripping depends on more than the text after the timestamps (records with equal '
                                           'timestamps, repeated records or blank lines change the result), so two traces that differ only in timestamps need not compare equal'
                                           % (bad_e[0], bad_e[2], bad_e[1])), obligation=True)
    except AnalysisError as ex_:
        run.note('stripped() is outside the evaluator\'s fragment (%s): decided by the table and branch rules only' % ex_)
    # ---- SIBLING: every application of the prefix removal receives a stripped line; inside an iteration (several lines) blank lines are dropped
    sites = []          # (function, call whose first subject argument is the line)
    for fn_, how_, pat_, c_, rest_ in uses:
        if fn_ is stripped:
            sites.append((stripped, c_, rest_[-1] if rest_ else None))
        else:
            # a nested helper: its parameter is the line; look at where stripped() calls it
            for cc in shallow_calls(stripped.node):
                if isinstance(cc.func, ast.Name) and cc.func.id == fn_.name and cc.args:
                    sites.append((stripped, cc, cc.args[0]))
            for x in ast.walk(stripped.node):
                if isinstance(x, (ast.ListComp, ast.GeneratorExp, ast.SetComp)):
                    for cc in ast.walk(x):
                        if isinstance(cc, ast.Call) and isinstance(cc.func, ast.Name) and cc.func.id == fn_.name and cc.args and not any(cc is s_[1] for s_ in sites):
                            sites.append((stripped, cc, cc.args[0]))
    run.floor('prefix-removal sites in stripped()', len(sites), 2)
    g = cfg_of(stripped)
    par = parents(stripped.node)

    def comp_of(node):
        """[(comprehension node, generator)] enclosing `node`, innermost first"""
        out, p = [], par.get(node)
        while p is not None:
            if isinstance(p, (ast.ListComp, ast.GeneratorExp, ast.SetComp)):
                out.append(p)
            p = par.get(p)
        return out

    def is_strip_call(e):
        return isinstance(e, ast.Call) and isinstance(e.func, ast.Attribute) and e.func.attr == 'strip' and not e.args

    sdefs = local_defs(stripped.node)

    def elements_stripped(it, depth=0):
        """are the elements of iterable expression `it` stripped strings?  True / False / None (unknown)"""
        if depth > 4:
            return None
        if isinstance(it, ast.Name):
            d = unique_def(sdefs, it.id)
            if d is None:
                return False if it.id in stripped.params else None
            return elements_stripped(d, depth + 1)
        if isinstance(it, (ast.GeneratorExp, ast.ListComp)):
            return stripped_value(it.elt, it, depth + 1)
        if isinstance(it, ast.Call) and isinstance(it.func, ast.Attribute) and it.func.attr in ('splitlines', 'split'):
            return False
        return None

    def stripped_value(e, at, depth=0):
        """is expression e (evaluated at AST node `at`) a stripped string?  True / False / None (unknown)"""
        if depth > 5:
            return None
        if is_strip_call(e):
            return True
        if isinstance(e, ast.Name):
            # a comprehension variable?
            for comp in ([at] if isinstance(at, (ast.ListComp, ast.GeneratorExp, ast.SetComp)) else []) + comp_of(at):
                for gen in comp.generators:
                    if isinstance(gen.target, ast.Name) and gen.target.id == e.id:
                        return elements_stripped(gen.iter, depth + 1)
            if e.id in stripped.params:
                return False
            # statement level: an assignment `name = <stripped>` dominates the use and nothing rebinds the name in between
            node = node_of_ast(g, at)
            if node is None:
                return None
            verdicts = []
            for m_ in g.nodes:
                if m_.kind == 'stmt' and isinstance(m_.ast, ast.Assign) and any(isinstance(t, ast.Name) and t.id == e.id for t in m_.ast.targets) and g.dominates(m_, node):
                    others = [o for o in g.nodes if o is not m_ and o.kind in ('stmt', 'for') and
                              ((o.kind == 'stmt' and isinstance(o.ast, ast.Assign) and any(isinstance(t, ast.Name) and t.id == e.id for t in o.ast.targets))
                               or (o.kind == 'for' and e.id in {x.id for x in ast.walk(o.stmt.target) if isinstance(x, ast.Name)}))]
                    if any(g.exists_path(m_, o, avoiding=[node]) and g.exists_path(o, node, avoiding=[m_]) for o in others):
                        continue
                    verdicts.append(stripped_value(m_.ast.value, m_.ast, depth + 1) if not (isinstance(m_.ast.value, ast.Name) and m_.ast.value.id == e.id) else None)
            if verdicts:
                return True if any(v is True for v in verdicts) else (False if all(v is False for v in verdicts) else None)
            # only a loop binds it
            if any(o.kind == 'for' and e.id in {x.id for x in ast.walk(o.stmt.target) if isinstance(x, ast.Name)} for o in g.nodes):
                return False
            return None
        return None

    def in_iteration(call):
        if comp_of(call):
            return True
        node = node_of_ast(g, call)
        return node is not None and any(node in g.loop_body(h) for h in g.loop_heads())

    def blank_dropped(call, subject):
        """the site is reached only for a non-empty line"""
        for comp in comp_of(call):
            for gen in comp.generators:
                for cond in gen.ifs:
                    if isinstance(subject, ast.Name) and any(isinstance(x, ast.Name) and x.id == subject.id for x in ast.walk(cond)):
                        return True
        node = node_of_ast(g, call)
        if node is None:
            return False
        for (l_, op_, r_) in must_atoms(g, node, stripped.node, params=stripped.params):
            if isinstance(subject, ast.Name) and ((l_ == 'len(%s)' % subject.id and ((op_ == 'NotEq' and r_ == '0') or (op_ == 'Gt' and r_ == '0') or (op_ == 'GtE' and r_ == '1')))
                                                  or (l_ == subject.id and op_ == 'Truthy') or (l_ == 'len(%s)' % subject.id and op_ == 'Truthy')
                                                  or (l_ == subject.id and op_ == 'NotEq' and r_ in ("''", '""'))):
                return True
        return False

    for fn_, call, subject in sites:
        multi = in_iteration(call)
        branch = 'multi-line' if multi else 'single-line'
        v = stripped_value(subject, call) if subject is not None else None
        if v is None:
            raise AnalysisError('stripped(): cannot tell whether the %s branch strips the line before removing the prefix (%s)' % (branch, norm(call)))
        run.inst('SIBLING.strip-branches', stripped, branch + ' branch strips before removing the prefix', v,
                 '' if v else 'the %s branch of stripped() removes the prefix from an unstripped line: surrounding whitespace survives there '
                 'but not in the other branch' % branch, node=call, obligation=True)
        if multi:
            ok = blank_dropped(call, subject)
            run.inst('SIBLING.strip-branches', stripped, 'multi-line branch drops blank lines', ok,
                     '' if ok else 'blank lines are not dropped in the multi-line branch', node=call, obligation=True)
    run.assume('strftime digit directives produce ASCII digits only (C locale independent for %Y %m %d %H %M %S %f)')
