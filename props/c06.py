"""C06 The fabric delivers each publication once to every subscriber and to no one else.

IDENT.registry     : subscribe() decides "already registered" by object identity and never uses a content-based list
                     operation (index/remove/count/in/==) with the queue: deques compare by content, so two distinct empty
                     queues are equal and a content lookup hits another subscriber's slot.
SUBSCRIBE.paths    : already registered -> the registry is not modified; not registered -> exactly one append of the queue;
                     unknown signal -> a new one-element list.
KIND.wiring        : the registry that subscribe(queue_type=k) writes is the registry the k delivery thread was started
                     with, together with the k fabric queue (resolved by dataflow through start()).
DELIVER.exact      : each delivery thread adds the event of the item it took to every element of registry[item's signal
                     name] exactly once and to nothing else; publish() puts exactly one item into each kind's queue.
ATOMIC.subscribe   : the "already registered?" tests and the registry modification they decide are one critical section
                     (active objects subscribe from their own threads).
ALIAS.thread-args  : attributes whose objects were handed to the delivery threads are never rebound outside __init__
                     (a rebind detaches subscribe/publish from what the threads hold).
Not decided: "exactly once" across delivery-thread interleavings.
"""
import ast

from sa.model import AnalysisError, walk_shallow, dotted, norm
from sa.util import cfg_of, shallow_calls, local_defs, guarded_by_edge, parents
from sa import fabric, queues

CONTENT_OPS = {'index', 'remove', 'count'}


def runner_params(w, reg):
    """(flag param, queue param, registry param) of the delivery thread function for registry attr `reg`"""
    th = w.threads[reg]
    ih = w.initiate
    spawn = [c for c in shallow_calls(ih.node) if isinstance(c.func, ast.Name) and c.func.id == 'Thread']
    if len(spawn) != 1:
        raise AnalysisError('thread helper: expected one Thread(...)')
    args = next((kw.value for kw in spawn[0].keywords if kw.arg == 'args'), None)
    if not isinstance(args, ast.Tuple):
        raise AnalysisError('thread helper: Thread args not a tuple')
    r = th['runner']
    roles = {}
    for i, a in enumerate(args.elts):
        p = r.params[i + 1] if i + 1 < len(r.params) else None
        if isinstance(a, ast.Name) and a.id in th['args']:
            src = dotted(th['args'][a.id])
        else:
            src = dotted(a)
        roles[p] = src
    flag = [p for p, s in roles.items() if s and 'task_event' in s]
    q = [p for p, s in roles.items() if s and s.split('.', 1)[-1] in th['queue']]
    regp = [p for p, s in roles.items() if s and s.split('.', 1)[-1] == reg]
    if not (len(flag) == len(q) == len(regp) == 1):
        raise AnalysisError('delivery thread parameters not identified: %s' % roles)
    return flag[0], q[0], regp[0]


def registry_mods(w):
    """(cfg of the helper, modification nodes, local names holding a per-signal list)"""
    h = w.helper
    g = cfg_of(h)
    regp = h.params[0]
    defs = local_defs(h.node)
    lists = [k for k, v in defs.items() if any((isinstance(x, ast.Subscript) and isinstance(x.value, ast.Name) and x.value.id == regp) or
                                               (isinstance(x, ast.Call) and isinstance(x.func, ast.Attribute) and x.func.attr in ('get', 'setdefault') and isinstance(x.func.value, ast.Name) and x.func.value.id == regp)
                                               for x in v if not isinstance(x, tuple))]
    appends = [n for n in g.nodes if n.kind not in ('entry', 'exit', 'xexit', 'def') and
               any(isinstance(c.func, ast.Attribute) and c.func.attr in ('append', 'insert', 'extend', 'appendleft') and isinstance(c.func.value, ast.Name)
                   and c.func.value.id in lists for c in n.calls())]
    stores = [n for n in g.nodes if n.kind == 'stmt' and isinstance(n.ast, ast.Assign) and
              any(isinstance(t, ast.Subscript) and isinstance(t.value, ast.Name) and t.value.id in lists for t in n.ast.targets)]
    news = [n for n in g.nodes if n.kind == 'stmt' and isinstance(n.ast, ast.Assign) and
            any(isinstance(t, ast.Subscript) and isinstance(t.value, ast.Name) and t.value.id == regp for t in n.ast.targets)]
    return g, appends + stores + news, lists


def atomic_subscribe(run, model, w):
    fab, sub, h = w.fab, w.subscribe, w.helper
    regp = h.params[0]
    g, mods, lists = registry_mods(w)
    locks = set()
    fi = fab.methods.get('__init__')
    for n in walk_shallow(fi.node):
        if isinstance(n, ast.Assign) and isinstance(n.value, ast.Call) and norm(n.value.func).split('.')[-1] in ('Lock', 'RLock'):
            for t in n.targets:
                d = dotted(t)
                if d and d.startswith(fi.params[0] + '.'):
                    locks.add(d.split('.', 1)[1])
    par = parents(sub.node)

    def lock_with(node):
        p_ = par.get(node)
        while p_ is not None and p_ is not sub.node:
            if isinstance(p_, ast.With):
                for it_ in p_.items:
                    d_ = dotted(it_.context_expr)
                    if d_ and d_.split('.')[-1] in locks:
                        return p_
            p_ = par.get(p_)
        return None
    helper_calls = [c for c in shallow_calls(sub.node) if isinstance(c.func, ast.Name) and c.func.id == h.name]
    mods_ast = [m.ast for m in mods]
    # every read of the registry that can decide the modification (subscript load, `in` test, .get) ...
    reads_ast = []
    for n in walk_shallow(h.node):
        if isinstance(n, ast.Subscript) and isinstance(n.value, ast.Name) and n.value.id == regp and isinstance(n.ctx, ast.Load):
            reads_ast.append(n)
        if isinstance(n, ast.Compare) and any(isinstance(op, (ast.In, ast.NotIn)) for op in n.ops) and any(isinstance(c_, ast.Name) and c_.id == regp for c_ in n.comparators):
            reads_ast.append(n)
        if isinstance(n, ast.Call) and isinstance(n.func, ast.Attribute) and isinstance(n.func.value, ast.Name) and n.func.value.id == regp and n.func.attr in ('get', 'setdefault', 'keys', 'items', 'values'):
            reads_ast.append(n)
    callers_locked = all(lock_with(c) is not None for c in helper_calls) and bool(helper_calls)
    # ... lies in the same with-block as every modification
    hpar = parents(h.node)

    def lock_with_h(node):
        p_ = hpar.get(node)
        while p_ is not None and p_ is not h.node:
            if isinstance(p_, ast.With):
                for it_ in p_.items:
                    d_ = dotted(it_.context_expr)
                    if d_ and d_.split('.')[-1] in locks:
                        return p_
            p_ = hpar.get(p_)
        return None
    ws = {id(lock_with_h(x)) for x in mods_ast + reads_ast}
    one_section = len(ws) == 1 and None not in [lock_with_h(x) for x in mods_ast + reads_ast] and bool(mods_ast)
    ok = callers_locked or one_section
    run.inst('ATOMIC.subscribe', sub, 'presence tests and registry modification in one critical section', ok,
             '' if ok else ('subscribe() decides "is this signal / this queue registered?" and then modifies the registry with no lock around both; active objects '
                            'subscribe from their own threads, so two of them subscribing to a signal nobody has yet both see it absent and both store a fresh '
                            'one-element list - the second store removes the first subscriber'), obligation=True)


def kind_independence(run, model, w, rule='KIND.wiring'):
    """the decision and the update for one subscription kind look only at that kind's registry (the helper's parameter)"""
    h = w.helper
    regs = set(w.registry.values())
    selfn = w.subscribe.params[0]
    bad = []
    # in the written-out form the selector itself binds the registry local: those reads *are* the selection, not a second look
    selecting = set()
    if getattr(w, 'inline', False):
        for n in walk_shallow(h.node):
            if isinstance(n, ast.Assign) and any(isinstance(t, ast.Name) and t.id == h.params[0] for t in n.targets):
                selecting |= {id(x) for x in ast.walk(n.value)}
    for n in walk_shallow(h.node):
        if id(n) in selecting:
            continue
        d = dotted(n) if isinstance(n, ast.Attribute) else None
        if d and d.startswith(selfn + '.') and d.split('.', 1)[1] in regs:
            bad.append(d)
        if isinstance(n, ast.Call) and isinstance(n.func, ast.Attribute) and dotted(n.func.value) == selfn and n.func.attr in ('subscribed', 'subscribe'):
            bad.append(norm(n.func) + '(...)')
    run.inst(rule, h, 'the decision for one kind reads only that kind\'s registry', not bad,
             '' if not bad else ('while registering a queue for one kind the helper also consults %s: a queue already subscribed with the other kind is taken for registered and its '
                                 'subscription of this kind is silently dropped (its events keep coming through the other delivery thread)' % sorted(set(bad))), obligation=True)


def check(run, model, tier):
    run.explanation = ('Identity-versus-content operator census on the subscription registry, per-path modification counts of subscribe(), '
                       'dataflow wiring of kind -> registry -> thread -> fabric queue, and loop-shape analysis of the two delivery threads. '
                       'Holds for all subscribe/publish sequences and for queues with equal contents because the rules are about how the code '
                       'compares and iterates, not about sampled queues.')
    run.rule('IDENT.registry', 'membership by identity only; no index/remove/count/in/== with the queue on the registry list')
    run.rule('SUBSCRIBE.paths', 'present -> no modification; absent -> exactly one append; new signal -> [queue]')
    run.rule('ATOMIC.subscribe', 'check-then-act on the registry is one critical section (lock created in __init__)')
    run.rule('KIND.wiring', 'registry written for kind k == registry given to the k thread, with the k fabric queue')
    run.rule('DELIVER.exact', 'delivery loop: for q in registry[event.signal_name]: q.add(item.event) once; publish: one put per kind')
    run.rule('ALIAS.thread-args', 'attributes handed to threads are not rebound outside __init__')
    run.rule('TRUTH.queue', 'a queue handed to the fabric is never tested for truth (an empty queue is falsy: whether it is registered would depend on pending events)')
    from sa import ident
    ident.check_queue_truth(run, model, 'TRUTH.queue', classes=('ActiveFabricSource',), floor=2)
    run.rule('DEFAULT.kind', 'subscribe paths replace queue_type by the default only where the caller passed None: a lifo subscription stays a lifo subscription')
    from sa.util import check_param_defaults as _cpd
    n_k = 0
    for cn_, mn_ in (('ActiveFabricSource', 'subscribe'), ('ActiveObject', 'subscribe'), ('ActiveObject', '_subscribe')):
        f_ = model.cls(cn_).methods.get(mn_)
        if f_ is not None:
            n_k += _cpd(run, 'DEFAULT.kind', f_, params={'queue_type'}, why='a subscription made with queue_type=\'lifo\' is registered as a fifo one (or the other way round)')
    run.floor('queue_type default sites on the subscribe paths', n_k, 1)
    w = fabric.wiring(model)
    fab = w.fab
    h = w.helper
    sub = w.subscribe
    run.touch(sub)
    run.touch(h)
    run.inst('KIND.wiring', sub, 'each kind is registered in the registry its own delivery thread reads', w.consistent,
             '' if w.consistent else ('subscribe(queue_type=k) writes registries %s but the delivery threads were started with %s: subscriptions of one kind are '
                                      'delivered by the other kind\'s thread, or by nobody' % (w.registry, sorted(w.threads))), obligation=True)
    if not w.consistent:
        return
    g = cfg_of(h)
    regp = h.params[0]
    queue_name = sub.params[1]
    defs = local_defs(h.node)
    # the local that holds the per-signal list
    lists = [k for k, v in defs.items() if any((isinstance(x, ast.Subscript) and isinstance(x.value, ast.Name) and x.value.id == regp) or
                                               (isinstance(x, ast.Call) and isinstance(x.func, ast.Attribute) and x.func.attr in ('get', 'setdefault') and isinstance(x.func.value, ast.Name) and x.func.value.id == regp)
                                               for x in v if not isinstance(x, tuple))]
    # ---- IDENT
    n_ops = 0
    for n in walk_shallow(h.node):
        if isinstance(n, ast.Call) and isinstance(n.func, ast.Attribute) and n.func.attr in CONTENT_OPS and \
                any(isinstance(a, ast.Name) and a.id == queue_name for a in n.args):
            n_ops += 1
            run.inst('IDENT.registry', h, 'content lookup ' + norm(n), False,
                     ('%s compares the subscribing queue with the registered ones by content (deque.__eq__): for two distinct queues with equal '
                      'contents (e.g. both empty) it finds the *other* queue\'s slot, so re-subscribing replaces/removes another subscriber' % norm(n)),
                     node=n, obligation=True)
        if isinstance(n, ast.Compare) and any(isinstance(op, (ast.In, ast.NotIn, ast.Eq, ast.NotEq)) for op in n.ops):
            left_is_q = isinstance(n.left, ast.Name) and n.left.id == queue_name
            right_is_list = any(isinstance(c, ast.Name) and c.id in lists for c in n.comparators) or \
                any(isinstance(c, ast.Subscript) and isinstance(c.value, ast.Name) and c.value.id == regp for c in n.comparators)
            if left_is_q and right_is_list:
                n_ops += 1
                run.inst('IDENT.registry', h, 'content membership ' + norm(n), False,
                         '%s tests membership by content: distinct queues with equal contents are confused' % norm(n), node=n, obligation=True)
    # identity test present
    id_tests = []
    for t in g.nodes:
        if t.kind != 'test':
            continue
        txt = norm(t.ast)
        if ('id(%s)' % queue_name) in txt or (' is %s' % queue_name) in txt or ('%s is ' % queue_name) in txt:
            id_tests.append(t)
    # a flag that is set on one side of the identity test stands for it: `found = False; for q in reg: if q is queue: found = True; break` ... `if not found:`
    if id_tests:
        from sa.hsmbuf import bool_locals
        for b in bool_locals(h.node):
            sets = [n for n in g.nodes if n.kind == 'stmt' and isinstance(n.ast, ast.Assign) and any(isinstance(t, ast.Name) and t.id == b for t in n.ast.targets)]
            if any(guarded_by_edge(g, s_, t, lab) for s_ in sets for t in id_tests for lab in ('true', 'false')):
                for t in g.nodes:
                    if t.kind == 'test' and t not in id_tests and any(isinstance(x, ast.Name) and x.id == b for x in ast.walk(t.ast)):
                        id_tests.append(t)
    run.inst('IDENT.registry', h, 'registration is decided by an identity test', len(id_tests) >= 1,
             '' if id_tests else 'subscribe no longer tests by identity whether the queue is already registered: re-subscription duplicates the queue '
             '(every publication is then delivered twice) or confuses equal queues', obligation=True)
    # ---- SUBSCRIBE.paths
    appends = [n for n in g.nodes if n.kind not in ('entry', 'exit', 'xexit', 'def') and
               any(isinstance(c.func, ast.Attribute) and c.func.attr in ('append', 'insert', 'extend', 'appendleft') and isinstance(c.func.value, ast.Name)
                   and c.func.value.id in lists for c in n.calls())]
    stores = [n for n in g.nodes if n.kind == 'stmt' and isinstance(n.ast, ast.Assign) and
              any(isinstance(t, ast.Subscript) and isinstance(t.value, ast.Name) and t.value.id in lists for t in n.ast.targets)]
    news = [n for n in g.nodes if n.kind == 'stmt' and isinstance(n.ast, ast.Assign) and
            any(isinstance(t, ast.Subscript) and isinstance(t.value, ast.Name) and t.value.id == regp for t in n.ast.targets)]
    removes = [n for n in g.nodes if n.kind not in ('entry', 'exit', 'xexit', 'def') and
               any(isinstance(c.func, ast.Attribute) and c.func.attr in ('remove', 'pop', 'clear') and isinstance(c.func.value, ast.Name)
                   and (c.func.value.id in lists or c.func.value.id == regp) for c in n.calls())]
    dels = [n for n in g.nodes if n.kind == 'stmt' and isinstance(n.ast, ast.Delete)]
    run.floor('registry append sites in subscribe', len(appends), 1)
    run.floor('new-signal registration sites in subscribe', len(news), 1)
    # creating an empty slot (`registry[name] = []`) registers nobody yet: it is completed by the append that must follow it
    empty_news = [n for n in news if isinstance(n.ast.value, ast.List) and not n.ast.value.elts]
    mods = appends + stores + [n for n in news if n not in empty_news]
    cnt = queues.count(g, mods)
    ok = cnt is not None and cnt[1] <= 1
    run.inst('SUBSCRIBE.paths', h, 'at most one registry modification per subscribe', ok,
             '' if ok else 'a path of subscribe modifies the registry %s times' % (cnt,), obligation=True)
    run.inst('SUBSCRIBE.paths', h, 'subscribe never removes', not removes and not dels, 'subscribe removes registry entries', obligation=True)
    for s in stores:
        run.inst('SUBSCRIBE.paths', h, 'slot overwrite ' + norm(s.ast), False,
                 'subscribe overwrites an existing registry slot (%s): whichever queue that slot held loses its subscription unless the slot was found by identity'
                 % norm(s.ast), node=s.ast, obligation=True)
    for a in appends:
        guarded = any(guarded_by_edge(g, a, t, lab) for t in id_tests for lab in ('true', 'false'))
        if not guarded:
            # search loop with else: `for k in reg: if k is queue: break` ... `else: reg.append(queue)` - the else branch runs exactly when no element was identical
            for L in [x for x in ast.walk(h.node) if isinstance(x, ast.For) and x.orelse]:
                in_else = any(any(y is c_ for y in ast.walk(st_)) for st_ in L.orelse for c_ in a.calls())
                brks = [y for y in ast.walk(ast.Module(body=L.body, type_ignores=[])) if isinstance(y, ast.Break)]
                id_brk = [i_ for i_ in ast.walk(ast.Module(body=L.body, type_ignores=[])) if isinstance(i_, ast.If) and any(t.ast is i_.test for t in id_tests)
                          and len(i_.body) == 1 and isinstance(i_.body[0], ast.Break) and not i_.orelse]
                if in_else and len(brks) == 1 and len(id_brk) == 1:
                    guarded = True
        what = [c for c in a.calls() if isinstance(c.func, ast.Attribute) and c.func.attr == 'append']
        arg_ok = all(len(c.args) == 1 and isinstance(c.args[0], ast.Name) and c.args[0].id == queue_name for c in what) and bool(what)
        run.inst('SUBSCRIBE.paths', h, 'append of the queue is decided by the identity test', guarded and arg_ok,
                 '' if guarded and arg_ok else 'the registry append is not controlled by the identity test / does not append the subscribing queue', node=a.ast, obligation=True)
    for nn in news:
        v = nn.ast.value
        ok = isinstance(v, ast.List) and len(v.elts) == 1 and isinstance(v.elts[0], ast.Name) and v.elts[0].id == queue_name
        if nn in empty_news:
            # the append that completes the empty slot may sit behind the identity test (vacuously true for an empty list)
            ok = queues.count(g, appends, start=nn) in ((1, 1), (0, 1))
        run.inst('SUBSCRIBE.paths', h, 'a new signal starts with [queue]', ok, '' if ok else 'new registry entry is %s' % norm(v), node=nn.ast, obligation=True)
    atomic_subscribe(run, model, w)
    # ---- KIND.wiring
    for kind, reg in sorted(w.registry.items()):
        th = w.threads[reg]
        run.inst('KIND.wiring', sub, '%s -> %s -> %s' % (kind, reg, th['runner'].name), True, nontrivial=True, obligation=True)
        ok = len(th['queue']) == 1
        run.inst('KIND.wiring', w.start, 'thread for %s gets one fabric queue (%s)' % (reg, th['queue']), ok, 'fabric queue of the thread not identified', obligation=True)
    kind_independence(run, model, w)
    qs = [w.threads[r]['queue'][0] for r in w.threads if w.threads[r]['queue']]
    run.inst('KIND.wiring', w.start, 'the two threads read different fabric queues', len(set(qs)) == 2,
             'both delivery threads read the same fabric queue: each publication is delivered by one kind only', obligation=True)
    hs = [w.threads[r]['handle'] for r in w.threads]
    run.inst('KIND.wiring', w.start, 'the two threads have different handles', len(set(hs)) == 2, 'both threads stored in one handle', obligation=True)
    run.inst('KIND.wiring', sub, 'default kind is fifo', w.default_kind == 'fifo', 'subscribe(queue_type=None) is not fifo', obligation=True)
    # ---- DELIVER.exact
    for reg, th in sorted(w.threads.items()):
        r = th['runner']
        flag, qp, rp = runner_params(w, reg)
        gr = cfg_of(r)
        run.touch(r, gr)
        rdefs = local_defs(r.node)
        gets = [(n, c) for n in gr.nodes if n.kind not in ('entry', 'exit', 'xexit', 'def') for c in n.calls()
                if isinstance(c.func, ast.Attribute) and c.func.attr == 'get' and dotted(c.func.value) == qp]
        if len(gets) != 1:
            raise AnalysisError('%s: expected one get() on its fabric queue' % r.qualname)
        item = [k for k, v in rdefs.items() if any(x is gets[0][1] for x in v)]
        if len(item) != 1:
            raise AnalysisError('%s: item local not identified' % r.qualname)
        item = item[0]
        loops = [hd for hd in gr.loop_heads() if hd.kind == 'for']
        ok_loop = False
        def _empty(d):
            return (isinstance(d, (ast.Tuple, ast.List)) and not d.elts) or (isinstance(d, ast.Call) and norm(d.func) in ('tuple', 'list', 'set', 'frozenset') and not d.args)
        loop_its = []
        for hd in loops:
            it0 = hd.stmt.iter
            cand = [it0]
            if isinstance(it0, ast.Name):
                ds = rdefs.get(it0.id, [])
                if ds and all(not isinstance(d, tuple) for d in ds) and any(not _empty(d) for d in ds):
                    # a local bound to the subscribers (or to nothing when nobody subscribed)
                    cand = [d for d in ds if not _empty(d)]
            for it in cand:
                loop_its.append((hd, it))
        for hd, it in loop_its:
            # registry[<event>.signal_name]
            if isinstance(it, ast.Subscript) and isinstance(it.value, ast.Name) and it.value.id == rp:
                key = it.slice
                kd = dotted(key)
                ev_ok = False
                if kd and kd.endswith('.signal_name'):
                    root = kd.split('.')[0]
                    if kd == item + '.event.signal_name':
                        ev_ok = True
                    else:
                        for d in rdefs.get(root, []):
                            if not isinstance(d, tuple) and dotted(d) == item + '.event':
                                ev_ok = True
                ok_loop = ev_ok
                run.inst('DELIVER.exact', r, 'iterates registry[item.event.signal_name]', ev_ok,
                         '' if ev_ok else 'the delivery loop iterates %s, not the subscribers of the item\'s own signal' % norm(it), node=hd.stmt, obligation=True)
                tv = hd.stmt.target.id if isinstance(hd.stmt.target, ast.Name) else None
                body = gr.loop_body(hd)
                adds = [(n, c) for n in body if n.kind not in ('entry', 'exit', 'xexit', 'def') for c in n.calls()
                        if isinstance(c.func, ast.Attribute) and c.func.attr in ('append', 'appendleft') and isinstance(c.func.value, ast.Name) and c.func.value.id == tv]
                start = [m for m, l in gr.succ[hd] if l == 'iter']
                cnt = queues.count(gr, [n for n, c in adds], start=start[0], end=hd) if start else None
                ok = cnt == (1, 1)
                run.inst('DELIVER.exact', r, 'adds once per subscriber', ok,
                         '' if ok else 'the delivery loop adds %s times per subscriber' % (cnt,), node=hd.stmt, obligation=True)
                # the delivery is conditional on nothing but "an item was taken" and "somebody subscribed to its signal" (and the thread's own run test)
                from sa.boolflow import must_atoms as _ma
                reach_ok = bool(gets) and (gr.exists_path(gets[0][0], hd) or gets[0][0] is hd)
                run.inst('DELIVER.exact', r, 'the subscriber loop is reached from the get()', reach_ok,
                         '' if reach_ok else 'no path leads from taking an item to the delivery loop: publications are taken from the fabric queue and dropped', node=hd.stmt, obligation=True)
                for n, c in adds:
                    extra = []
                    for (l_, op_, r_) in _ma(gr, n, r.node, params=r.params):
                        if l_ == item and ((op_ in ('IsNot', 'NotEq') and r_ == 'None') or op_ == 'Truthy'):
                            continue
                        if op_ == 'In' and (r_ == rp or r_.startswith(rp + '.') or r_.startswith(rp + '[')) and l_.endswith('signal_name'):
                            continue
                        if r_ == item and op_ in ('IsNot', 'NotEq') and l_ == 'None':
                            continue
                        if op_ == 'Truthy' and l_.endswith('.is_set()'):
                            continue
                        if op_ in ('Is', 'Eq', 'IsNot', 'NotEq') and ('True' in (l_, r_) or 'False' in (l_, r_)) and (l_.endswith('.is_set()') or r_.endswith('.is_set()')):
                            continue
                        extra.append('%s %s %s' % (l_, op_, r_))
                    run.inst('DELIVER.exact', r, 'delivery depends only on "item taken" and "signal has subscribers"', not extra,
                             '' if not extra else ('the delivery of a publication is additionally conditional on %s: publications for which that does not hold are taken from the fabric '
                                                   'queue and silently dropped' % '; '.join(sorted(extra))), node=c, obligation=True)
                for n, c in adds:
                    ok = len(c.args) == 1 and dotted(c.args[0]) in (item + '.event',) or \
                        (len(c.args) == 1 and isinstance(c.args[0], ast.Name) and any(not isinstance(d, tuple) and dotted(d) == item + '.event' for d in rdefs.get(c.args[0].id, [])))
                    run.inst('DELIVER.exact', r, 'delivers the item\'s event', ok, '' if ok else 'delivers %s' % norm(c), node=c, obligation=True)
            else:
                run.inst('DELIVER.exact', r, 'delivery loop over ' + norm(it), False,
                         'the delivery thread iterates %s instead of registry[item.event.signal_name]: queues that did not subscribe to the signal receive it' % norm(it),
                         node=hd.stmt, obligation=True)
        run.inst('DELIVER.exact', r, 'has a delivery loop over its own registry', ok_loop, 'no loop over registry[signal name] found', obligation=True)
        # adds outside the loop
        stray = [c for c in shallow_calls(r.node) if isinstance(c.func, ast.Attribute) and c.func.attr in ('append', 'appendleft', 'extend')
                 and not any(any(x is c for x in n.walk()) for hd in loops for n in gr.loop_body(hd) if n.kind not in ('entry', 'exit', 'xexit', 'def'))]
        run.inst('DELIVER.exact', r, 'no delivery outside the subscriber loop', not stray, 'the thread also adds %s' % [norm(c) for c in stray], obligation=True)
        # one get per iteration of the outer loop
        outer = [hd for hd in gr.loop_heads() if hd.kind == 'test']
        if len(outer) == 1:
            st = [m for m, l in gr.succ[outer[0]] if l == 'true']
            cnt = queues.count(gr, [gets[0][0]], start=st[0], end=outer[0]) if st else None
            run.inst('DELIVER.exact', r, 'one item taken per iteration', cnt == (1, 1), 'items taken per iteration: %s' % (cnt,), obligation=True)
    # publish: one put per kind (also C08)
    pub = fab.methods.get('publish')
    puts = [c for c in shallow_calls(pub.node) if isinstance(c.func, ast.Attribute) and c.func.attr == 'put']
    tg = sorted(dotted(c.func.value) or '?' for c in puts)
    want = sorted(pub.params[0] + '.' + w.threads[r]['queue'][0] for r in w.threads if w.threads[r]['queue'])
    gp = cfg_of(pub)
    cnt = queues.count(gp, [n for n in gp.nodes if n.kind not in ('entry', 'exit', 'xexit', 'def') and any(c in puts for c in n.calls())])
    ok = tg == want and cnt == (2, 2)
    run.inst('DELIVER.exact', pub, 'publish puts one item into each kind\'s queue', ok,
             '' if ok else 'publish puts into %s on paths %s; the delivery threads read %s' % (tg, cnt, want), obligation=True)
    # ---- ALIAS
    handed = set()
    for reg, th in w.threads.items():
        handed.add(reg)
        handed.update(th['queue'])
    n_bind = 0
    for f in fab.methods.values():
        for st in walk_shallow(f.node):
            if isinstance(st, (ast.Assign, ast.AugAssign)):
                tg2 = st.targets if isinstance(st, ast.Assign) else [st.target]
                for t in tg2:
                    d = dotted(t)
                    if d and d.startswith(f.params[0] + '.') and d.split('.', 1)[1] in handed:
                        n_bind += 1
                        ok = f.name == '__init__'
                        run.inst('ALIAS.thread-args', f, 'binds ' + d.split('.', 1)[1], ok,
                                 '' if ok else ('%s rebinds %s, an object that was handed to a running delivery thread: the thread keeps the old object, '
                                                'so later subscribe()/publish()/stop() calls talk to a queue or registry nobody reads'
                                                % (f.qualname, d.split('.', 1)[1])), node=st, obligation=True)
    run.floor('bindings of thread-shared fabric attributes', n_bind, 4)
    # subscriber lists only ever grow: the delivery threads iterate them without the lock
    run.rule('LAYER.registry-grows', 'outside the fabric\'s clear() nothing removes from, reorders or slice-replaces a subscriber list (delivery threads iterate the lists unlocked)')
    from sa.fabric import registry_shrink_sites, wiring as _wiring
    sites_ = registry_shrink_sites(model, _wiring(model))
    for f_, n_, txt_ in sites_:
        run.inst('LAYER.registry-grows', f_, 'shrinks a subscriber list: ' + txt_[:60], False,
                 ('%s shrinks a subscriber list of the fabric in place (%s). The delivery threads iterate these lists without the subscription lock: when the list loses an element '
                  'under a running iteration the iterator steps over the next subscriber, which is registered and running but never receives that publication'
                  % (f_.qualname, txt_[:80])), node=n_, obligation=True)
    if not sites_:
        run.inst('LAYER.registry-grows', 'activeobject.<package>', 'no function removes from a subscriber list', True, obligation=True)
    run.assume('list iteration visits each element once; deque/LockingDeque add methods are single atomic calls')
