"""C05 Posting to an active object always returns; the system reaches quiescence.

TOKEN.monotone  : the token repair loops only ever add tokens, so their guard must be `tokens < items` (not `!=`): with `!=`
                  two posters (or a poster and the consumer) interleaving inside the loop step past equality, fill the token
                  queue and block in put() - a necessary condition of "every post returns".
TOKEN.guarded   : every blocking put on the post path is guarded by "not full" or "tokens < items".
BOUND.tokens    : token capacity == deque capacity, so `tokens < items <= capacity` implies room for the put.
LOOPS.post-path : the only loops reachable from post_fifo/post_lifo (untimed path) are those repair loops; no lock, join or
                  other blocking call is reachable.
Not decided: fair termination itself (a liveness property of schedules); the rules are its structural necessary conditions.
"""
import ast

from sa.model import AnalysisError, norm
from sa.util import cfg_of
from sa.context import callgraph
from sa import queues

BLOCKING = {'join', 'acquire', 'wait', 'get', 'sleep'}


def check(run, model, tier):
    run.explanation = ('Guard and loop analysis of the wake-up token protocol on the call graph below ActiveObject.post_fifo/post_lifo '
                       '(untimed path): which loops and blocking calls a poster can reach, whether each blocking put has room by '
                       'construction, and whether each loop is monotone in the quantity its guard compares. These are necessary conditions of '
                       '"every post returns" under every interleaving; the liveness claim itself is not machine-checked.')
    run.rule('TOKEN.monotone', 'repair loops: body only adds tokens => guard must be tokens < items')
    run.rule('TOKEN.guarded', 'blocking token puts guarded by not-full or tokens<items')
    run.rule('BOUND.tokens', 'token capacity == deque capacity')
    run.rule('LOOPS.post-path', 'no other loop and no blocking call reachable from an untimed post')
    run.rule('TOKEN.repair', 'after every add the poster re-tests tokens < items: quiescence means the consumer waits on an EMPTY queue, so no item may be left without a token')
    queues.check_locking_deque(run, model, 'TOKEN.guarded', 'TOKEN.guarded', 'BOUND.tokens', rule_monotone='TOKEN.monotone', rule_repair='TOKEN.repair', rule_lock='TOKEN.guarded')
    cg = callgraph(model)
    ao = model.cls('ActiveObject')
    hq = model.cls('HsmWithQueues')
    ld = model.cls('LockingDeque')
    # functions on the untimed post path: HsmWithQueues.post_* (+wrappers) and LockingDeque.append/appendleft
    roots = []
    for nm in ('post_fifo', 'post_lifo'):
        roots.append(cg.entry(hq.methods[nm]))
    for nm in ('append', 'appendleft'):
        roots.append(ld.methods[nm])
    reach = [f for f in cg.reach(roots) if f.module.name in ('hsm', 'activeobject')]
    allowed_loops = 0
    for f in reach:
        if f.owner_class is not None and f.owner_class.name in ('SignalSource', 'OrderedDictWithParams', 'ActiveFabricSource'):
            continue   # by-name over-approximation of `.append` / `.clear`; not on the post path of an active object
        g = cfg_of(f)
        run.touch(f, g)
        for h in g.loop_heads():
            in_ld = f.owner_class is ld
            if in_ld:
                allowed_loops += 1
            run.inst('LOOPS.post-path', f, 'loop ' + h.text(), in_ld, '' if in_ld else 'a loop other than the token repair loops is reachable from an untimed post', node=h.ast, obligation=True)
        for n in g.nodes:
            if n.kind in ('entry', 'exit', 'xexit', 'def'):
                continue
            for c in n.calls():
                if isinstance(c.func, ast.Attribute) and c.func.attr in BLOCKING:
                    run.inst('LOOPS.post-path', f, 'blocking call ' + norm(c.func), False, 'a blocking call is reachable from an untimed post', node=c, obligation=True)
    run.floor('token repair loops on the post path', allowed_loops, 1)
    # the untimed branch of ActiveObject.post_*: `period is None` -> super().post_*(e)
    for nm in ('post_fifo', 'post_lifo'):
        f = ao.methods.get(nm)
        if f is None:
            raise AnalysisError('ActiveObject.%s not found' % nm)
        g = cfg_of(f)
        loops = g.loop_heads()
        run.inst('LOOPS.post-path', f, 'no loop in %s' % nm, not loops, 'loop in the post method', obligation=True)
    # quiescence needs the consumer to survive surplus wake-up tokens (racing posters produce them): it ends itself only for the stop item / a stopped fabric
    run.rule('CONSUMER.keeps-waiting', 'the consumer thread clears its own run flag only for the stop item at the head of the queue or when the fabric is stopped')
    re_, gre, flag_p, fab_p, q_p, selfn_ = queues.run_event_roles(model, cg)
    run.touch(re_, gre)
    n_cl = queues.check_consumer_self_stop(run, 'CONSUMER.keeps-waiting', re_, gre, flag_p, fab_p, selfn_)
    run.floor('run_event self-stop sites', n_cl, 1)
    run.assume('queue.Queue.put blocks only while the queue is full; qsize()/len() are atomic reads')
    run.assume('fair scheduling (the property\'s own hypothesis)')
