"""C28 Every statement using a thread-safe attribute releases its lock.

TABLE.augassign-tokens : the operator tokens the source-line classifier accepts as "augmented assignment
                         follows, keep the lock" are exactly Python's 13 augmented-assignment tokens, decided
                         over the complete finite universe of Python operator tokens (token.EXACT_TOKEN_TYPES):
                         a comparison/other token accepted means a plain read keeps the lock forever.
PROTO.keep-lock-branch : __get__ keeps the lock exactly on the classifier's true branch and releases it on the
                         other; the `_, _lock = ...` form is the only other consumer of the line.
LINE.classifier-scope  : (known limitation of the design) the classifier sees one physical source line, not the
                         statement's syntax: `y += obj.x` or a string containing `+=` keeps the lock.
"""
import ast
import re
import token

from sa.model import AnalysisError, walk_shallow, dotted, norm
from sa.util import local_defs, regex_uses, cfg_of, shallow_calls, const_str, guarded_by_edge, strip_not

AUG = {'+=', '-=', '*=', '/=', '//=', '%=', '@=', '&=', '|=', '^=', '>>=', '<<=', '**='}


def regex_literals(f, model=None):
    return [(how, pat, c) for how, pat, c, _rest in regex_uses(model, f) if how in ('re.search', 're.match', 're.findall', 're.fullmatch')]


def line_sources(get, g, classifier):
    """where the text handed to the classifier comes from: (classifier arguments, names of the inspect/linecache functions it is computed from, their call nodes)"""
    cargs = []
    for t_ in g.nodes:
        for c_ in (t_.calls() if t_.kind not in ('entry', 'exit', 'xexit', 'def') else []):
            if isinstance(c_.func, ast.Attribute) and dotted(c_.func.value) == get.params[0] and c_.func.attr == classifier.name and c_.args:
                cargs.append(c_.args[0])
    srcs = set()
    calls = []
    gdefs_ = local_defs(get.node)

    def sources(e, depth=5):
        for x in ast.walk(e):
            if isinstance(x, ast.Call):
                fn_ = norm(x.func)
                if fn_.startswith('inspect.') or fn_.startswith('linecache.') or fn_ in ('getframeinfo', 'getline', 'getlines', 'getsourcelines', 'findsource', 'getsource'):
                    srcs.add(fn_)
                    calls.append(x)
            if isinstance(x, ast.Name) and depth > 0:
                for d_ in gdefs_.get(x.id, []):
                    if isinstance(d_, tuple):          # one element of an unpacked call result
                        d_ = next((y_ for y_ in d_ if isinstance(y_, ast.AST)), None)
                    if isinstance(d_, ast.AST):
                        sources(d_, depth - 1)
    for a_ in cargs:
        sources(a_)
    return cargs, srcs, calls


REWRITERS = {'sub', 'subn', 'replace', 'split', 'rsplit', 'partition', 'rpartition', 'translate', 'splitlines'}


def line_rewrites(model, cls, get, g, classifier):
    """text-rewriting calls between inspect's frame info and the classifier: in the expressions the classifier argument is computed from, and in a record class that
    wraps the frame info (a namedtuple subclass with its own __new__/__init__)"""
    out = []
    cargs, _srcs, _calls = line_sources(get, g, classifier)
    gdefs_ = local_defs(get.node)

    def scan(e, depth=5):
        for x in ast.walk(e):
            if isinstance(x, ast.Call) and isinstance(x.func, ast.Attribute) and x.func.attr in REWRITERS:
                out.append((get, x))
            if isinstance(x, ast.Name) and depth > 0:
                for d_ in gdefs_.get(x.id, []):
                    if isinstance(d_, tuple):
                        d_ = next((y_ for y_ in d_ if isinstance(y_, ast.AST)), None)
                    if isinstance(d_, ast.AST):
                        scan(d_, depth - 1)
    for a_ in cargs:
        scan(a_)
    # record classes of the module that are built from the frame info
    used = {norm(c_.func) for c_ in shallow_calls(get.node) if any(isinstance(a_, ast.Starred) or 'getframeinfo' in norm(a_) for a_ in c_.args)}
    for k in model.classes.values():
        if k.module is not get.module or k.name not in used:
            continue
        for m in k.methods.values():
            for x in ast.walk(m.node):
                if isinstance(x, ast.Call) and isinstance(x.func, ast.Attribute) and x.func.attr in REWRITERS:
                    out.append((m, x))
    return out


def line_verbatim_rule(run, model, rule, cls, get, g, classifier, consequence):
    run.rule(rule, 'the text handed to the line classifier is the caller\'s source line as inspect delivered it: nothing rewrites it on the way (no re.sub / replace / split)')
    rw = line_rewrites(model, cls, get, g, classifier)
    for f_, x in rw:
        run.inst(rule, f_, 'the classified line is not rewritten: ' + norm(x)[:60], False,
                 '%s rewrites the source text before it is classified (%s): python source cannot be edited with a pattern - a `#`, a quote or an operator inside a string literal is '
                 'taken for syntax, and the part of the line that holds the operator may be cut away; %s' % (f_.qualname, norm(x)[:70], consequence), node=x, obligation=True)
    if not rw:
        run.inst(rule, get, 'the classified line reaches the classifier unchanged', True, obligation=True)


def check(run, model, tier):
    run.explanation = ('The lock hand-over of ThreadSafeAttribute depends on classifying the caller\'s source line. The '
                       'classifier\'s regex literal is read from the source and decided against the complete universe of '
                       'Python operator tokens (a finite set), so the verdict covers every statement form built from them: '
                       'augmented-assignment tokens must be accepted, every other token rejected. The branch structure of '
                       '__get__ is checked on its CFG.')
    run.rule('TABLE.augassign-tokens', 'accepted operator tokens == the 13 augmented-assignment tokens (universe: token.EXACT_TOKEN_TYPES)')
    run.rule('PROTO.keep-lock-branch', '__get__ releases the lock on every path where the classifier said atomic, keeps it otherwise')
    run.rule('LINE.classifier-scope', 'classification is per physical line of text, not per statement (design limitation)')
    cls = model.cls('ThreadSafeAttribute')
    get = cls.methods.get('__get__')
    if get is None:
        raise AnalysisError('ThreadSafeAttribute.__get__ not found')
    # user code must not run while the lock is held for the coming __set__: the value is fetched from / put into the instance's own namespace, never through the attribute protocol
    run.rule('PROTO.no-user-hook', 'between acquire and release the descriptor touches the instance only through its own namespace (__dict__ / vars): no getattr/setattr with a computed key, '
                                   'whose __getattr__/__setattr__ hooks are user code that may raise with the lock held')
    from props.c29 import own_namespace_rule
    own_namespace_rule(run, model, cls, 'PROTO.no-user-hook', writes_too=True)
    g = cfg_of(get)
    run.touch(get, g)
    # the classifier: the self-method called in a test of __get__ whose result decides release
    releases = [n for n in g.nodes if n.kind == 'stmt' and any(isinstance(c.func, ast.Attribute) and c.func.attr == 'release' for c in n.calls())]
    acquires = [n for n in g.nodes if n.kind == 'stmt' and any(isinstance(c.func, ast.Attribute) and c.func.attr == 'acquire' for c in n.calls())]
    run.floor('lock acquire sites in __get__', len(acquires), 1)
    run.floor('lock release sites in __get__', len(releases), 1)
    classifier = None
    ctest = None
    keep_label = None
    for t in g.nodes:
        if t.kind != 'test':
            continue
        inner, pol = strip_not(t.ast)
        if isinstance(inner, ast.Name):
            # a local bound once to the classifier's answer (`keep = self.is_not_atomic(line)` ... `if keep:`)
            from sa.util import local_defs as _ld
            ds_ = [d_ for d_ in _ld(get.node).get(inner.id, []) if isinstance(d_, ast.AST)]
            if len(ds_) == 1 and isinstance(ds_[0], ast.Call):
                inner = ds_[0]
        if isinstance(inner, ast.Call) and isinstance(inner.func, ast.Attribute) and dotted(inner.func.value) == get.params[0] \
                and inner.func.attr in cls.methods:
            # which branch holds the release?
            # (releases that lie after this test; one that lies before it belongs to an early way out - "no source line to classify" - and is judged below)
            rels_t = [r for r in releases if g.exists_path(t, r)]
            rel_true = bool(rels_t) and all(guarded_by_edge(g, r, t, 'true') for r in rels_t)
            rel_false = bool(rels_t) and all(guarded_by_edge(g, r, t, 'false') for r in rels_t)
            if rel_true or rel_false:
                classifier = cls.methods[inner.func.attr]
                ctest = t
                # classifier()==True  <=>  edge label `pol`; release must be on the not-classified branch
                keep_label = 'true' if pol else 'false'
                rel_label = 'true' if rel_true else 'false'
                ok = rel_label != keep_label
                run.inst('PROTO.keep-lock-branch', get, 'release on the atomic branch of ' + norm(t.ast), ok,
                         '' if ok else 'the lock is released when the classifier reports an augmented assignment and kept otherwise', node=t.ast, obligation=True)
    if classifier is None:
        raise AnalysisError('__get__: no test on a classifier method decides the release of the lock (unknown protocol shape)')
    for r in [r for r in releases if not g.exists_path(ctest, r)]:
        goes_on = g.exists_path(r, ctest)
        run.inst('PROTO.keep-lock-branch', get, 'a release before the classification leaves __get__: ' + norm(r.ast), not goes_on,
                 '' if not goes_on else '__get__ gives the lock back before the line is classified and carries on: the classified branches release or hand over a lock that is no longer held',
                 node=r.ast, obligation=True)
    # every path on the atomic branch releases exactly once; no release on the keep branch
    w = lambda n: 1 if n in releases else 0
    for lab in ('true', 'false'):
        succs = [m for m, l in g.succ[ctest] if l == lab]
        for m in succs:
            c = g.count_on_paths(w, start=m, end=g.exit)
            if c is None:
                continue
            exp = (0, 0) if lab == keep_label else (1, 1)
            run.inst('PROTO.keep-lock-branch', get, '%s branch releases %s' % (lab, exp), c == exp,
                     '' if c == exp else 'release count on the %s branch is %s, expected %s' % (lab, c, exp), node=ctest.ast, obligation=True)
    # ---- where the classified text comes from: the caller's *current* source line.  inspect.getframeinfo / getsourcelines / findsource revalidate the line cache against the
    # file on every call (linecache.checkcache); a bare linecache.getline does not, and hands out the text the module had when it was first read
    run.rule('PROTO.source-line', 'the line given to the classifier is the caller\'s current source line: taken from inspect.getframeinfo(<caller frame>) (or from linecache after checkcache)')
    cargs, srcs, _src_calls = line_sources(get, g, classifier)
    fresh_api = {s_ for s_ in srcs if s_.split('.')[-1] in ('getframeinfo', 'getsourcelines', 'findsource', 'getsource', 'getinnerframes', 'stack', 'getouterframes')}
    cached_api = {s_ for s_ in srcs if s_.split('.')[-1] in ('getline', 'getlines')}
    revalidated = any(isinstance(c_.func, ast.Attribute) and norm(c_.func).endswith('linecache.checkcache') for c_ in shallow_calls(get.node))
    if not cargs or not (fresh_api or cached_api):
        raise AnalysisError('__get__: where the classified source line comes from was not recognised (%s)' % sorted(srcs))
    ok_src = bool(fresh_api) or revalidated
    run.inst('PROTO.source-line', get, 'classified line comes from %s' % ', '.join(sorted(fresh_api | cached_api)), ok_src,
             '' if ok_src else ('the line that decides "keep the lock" is read with %s, which serves the text the file had when it was first cached: after the caller\'s module was edited and '
                                'reloaded, a plain read standing on a line that used to hold an augmented assignment is classified from the stale text, __get__ returns with the lock '
                                'held, no __set__ follows, and every other thread blocks on the attribute' % ', '.join(sorted(cached_api))), node=cargs[0], obligation=True)
    # ... and it is the line the frame is executing: with the default context of one line that is lines[0]; with a wider context it is lines[<frame info>.index] - the
    # window is not centred when the statement stands near the top or the bottom of its file, so a fixed position reads a neighbouring line there
    ctxs = []
    for c_ in shallow_calls(get.node):
        if norm(c_.func).split('.')[-1] == 'getframeinfo':
            cv = c_.args[1] if len(c_.args) > 1 else next((k_.value for k_ in c_.keywords if k_.arg == 'context'), None)
            ctxs.append(cv)
    subs = [n_ for n_ in walk_shallow(get.node) if isinstance(n_, ast.Subscript) and isinstance(n_.value, ast.Attribute) and n_.value.attr == 'lines' and isinstance(n_.ctx, ast.Load)]
    for cv in ctxs:
        try:
            cval = 1 if cv is None else eval(compile(ast.Expression(body=cv), '<ctx>', 'eval'), {'__builtins__': {}})
        except Exception:
            raise AnalysisError('__get__: the context argument of getframeinfo is not a constant (%s)' % norm(cv))
        for sb in subs:
            idx = sb.slice
            is_index_field = (dotted(idx) or '').endswith('.index')
            try:
                ival = eval(compile(ast.Expression(body=idx), '<idx>', 'eval'), {'__builtins__': {}})
            except Exception:
                ival = None
            ok_ = is_index_field or (cval == 1 and ival == 0)
            run.inst('PROTO.source-line', get, 'the classified line is the executing line: lines[%s] with context=%s' % (norm(idx), cval), ok_,
                     '' if ok_ else ('the frame is inspected with a context of %s lines and the classifier is given lines[%s]: that is the executing line only when the window could be centred on it; '
                                     'for a statement on the first or last line of its file it is a neighbouring line - a plain read next to an augmented assignment keeps the lock for good'
                                     % (cval, norm(idx))), node=sb, obligation=True)
    # ... and there may be no such line: inspect hands out code_context None (FrameData.lines None) for code without source text - exec(), python -c, the interactive
    # prompt.  Subscripting it raises TypeError; where that happens with the lock already taken and nothing to give it back, the calling thread keeps the lock
    run.rule('PROTO.source-available', 'the frame info\'s line list is subscripted only under a test that it is there (it is None for code without source), or with the lock not yet held')
    from sa.boolflow import must_atoms as _ma28
    n_sub = 0
    for sb in [n_ for n_ in walk_shallow(get.node) if isinstance(n_, ast.Subscript) and isinstance(n_.ctx, ast.Load) and isinstance(n_.value, ast.Attribute)
               and n_.value.attr in ('lines', 'code_context')]:
        n_sub += 1
        node_ = next((m_ for m_ in g.nodes if m_.kind not in ('entry', 'exit', 'xexit', 'def') and any(x_ is sb for x_ in m_.walk())), None)
        if node_ is None:
            raise AnalysisError('__get__: subscript of the line list not located in the CFG')
        vtxt = norm(sb.value)
        atoms = _ma28(g, node_, get.node, params=get.params)
        guarded = any(l_ == vtxt and (op_ == 'Truthy' or (op_ in ('IsNot', 'NotEq') and r_ == 'None')) for (l_, op_, r_) in atoms) or \
            any(r_ == vtxt and op_ in ('IsNot', 'NotEq') and l_ == 'None' for (l_, op_, r_) in atoms) or \
            any(l_ == 'len(%s)' % vtxt and (op_ == 'Truthy' or (op_ in ('Gt', 'NotEq') and r_ == '0') or (op_ == 'GtE' and r_ == '1')) for (l_, op_, r_) in atoms)
        # inside a try whose handlers / finally give the lock back the failure is harmless too
        protected = any(isinstance(t_, ast.Try) and any(x_ is sb for b_ in t_.body for x_ in ast.walk(b_)) and
                        any(isinstance(c_, ast.Call) and isinstance(c_.func, ast.Attribute) and c_.func.attr == 'release'
                            for part in ([h_.body for h_ in t_.handlers] + [t_.finalbody]) for st_ in part for c_ in ast.walk(st_))
                        for t_ in walk_shallow(get.node))
        held_ = any(g.dominates(a, node_) for a in acquires)
        ok_ = guarded or protected or not held_
        run.inst('PROTO.source-available', get, 'subscript of the line list %s is guarded' % norm(sb), ok_,
                 '' if ok_ else ('__get__ takes %s with the lock held and without testing that %s is there: inspect gives None for a caller without source text (exec, python -c, the '
                                 'interactive prompt), the subscript raises TypeError, and the statement ends with the calling thread still holding the attribute\'s lock - every '
                                 'other thread that touches the attribute blocks for good' % (norm(sb), vtxt)), node=sb, obligation=True)
    run.note('subscripts of the frame info line list in __get__: %d' % n_sub)
    line_verbatim_rule(run, model, 'PROTO.line-verbatim', cls, get, g, classifier,
                       'a plain read is then taken for an augmented assignment (lock kept for good) or the other way round')
    # acquire dominates the classification
    run.inst('PROTO.keep-lock-branch', get, 'acquire dominates classification', any(g.dominates(a, ctest) for a in acquires),
             'the lock is not held when the line is classified', node=ctest.ast, obligation=True)
    # ---- the hand-over flag (which tells __set__ that this thread already holds the lock) is written only inside the critical section
    from props.c27 import lock_nodes, held_states
    st_ = cls.methods.get('__set__')
    flag = None
    if st_ is not None:
        for n_ in walk_shallow(st_.node):
            if isinstance(n_, ast.If):
                i_, p_ = strip_not(n_.test)
                d_ = dotted(i_)
                if d_ and d_.startswith(st_.params[0] + '.'):
                    flag = d_.split('.', 1)[1]
    if flag:
        # the flag belongs with the lock it speaks about: one lock per descriptor, so one flag per descriptor
        run.rule('PROTO.flag-per-descriptor', 'the hand-over flag is plain state of the descriptor whose lock it describes (set through self), not storage shared by all descriptors')
        shared_store = None
        for node_ in cls.node.body:
            if isinstance(node_, ast.FunctionDef) and node_.name == flag:
                # a property: where does it keep the value?
                for x_ in ast.walk(node_):
                    if isinstance(x_, ast.Attribute) and isinstance(x_.value, ast.Name) and node_.args.args and x_.value.id == node_.args.args[0].arg:
                        bound_in_class = any(isinstance(b_, ast.Assign) and any(isinstance(t_, ast.Name) and t_.id == x_.attr for t_ in b_.targets) for b_ in cls.node.body)
                        if bound_in_class:
                            shared_store = x_
        run.inst('PROTO.flag-per-descriptor', get, 'the flag %s is kept per descriptor' % flag, shared_store is None,
                 '' if shared_store is None else ('the hand-over flag %s is a property that keeps its value in %s, an object bound once in the class body: all thread-safe attributes of all '
                                                  'classes share it, while each has a lock of its own. Reading another thread-safe attribute on an ordinary line between the two halves of '
                                                  '`a.x += ...` (in a helper called on the right-hand side, on a continuation line) sets the shared flag back; x.__set__ then acquires its '
                                                  'lock a second time and releases it once - the thread keeps x\'s lock' % (flag, norm(shared_store))),
                 node=shared_store, obligation=True)
    lockattr = None
    for n_ in g.nodes:
        if n_.kind in ('entry', 'exit', 'xexit', 'def'):
            continue
        for c_ in n_.calls():
            if isinstance(c_.func, ast.Attribute) and c_.func.attr == 'acquire':
                lockattr = (dotted(c_.func.value) or '').split('.')[-1]
    if flag:
        # the hand-over itself: a __get__ that keeps the lock must leave the flag False (so that the __set__ of the same statement does not acquire again), and one that
        # releases must not: each side of the classifier test is judged on every path to the exit
        selfn_ = get.params[0]
        run.rule('PROTO.handover', 'on the keep-lock branch of __get__ the hand-over flag is set False on every path, on the releasing branch never; __set__ acquires exactly when the flag is True')
        fwrites = [n_ for n_ in g.nodes if n_.kind == 'stmt' and isinstance(n_.ast, ast.Assign) and any(dotted(t_) == '%s.%s' % (selfn_, flag) for t_ in n_.ast.targets)]
        wf = [n_ for n_ in fwrites if isinstance(n_.ast.value, ast.Constant) and n_.ast.value.value is False]
        wt = [n_ for n_ in fwrites if isinstance(n_.ast.value, ast.Constant) and n_.ast.value.value is True]
        for lab in ('true', 'false'):
            for m in [m_ for m_, l_ in g.succ[ctest] if l_ == lab]:
                cf = g.count_on_paths(lambda n_: 1 if n_ in wf else 0, start=m, end=g.exit)
                ct = g.count_on_paths(lambda n_: 1 if n_ in wt else 0, start=m, end=g.exit)
                if cf is None:
                    continue
                if lab == keep_label:
                    ok_ = cf[0] >= 1 and ct == (0, 0)
                    why_ = ('__get__ keeps the lock for the write half of an augmented assignment but does not leave the hand-over flag False on every such path (False writes %s, True '
                            'writes %s): the __set__ of the same statement acquires the lock a second time and releases it once, so the statement ends with the lock still held' % (cf, ct))
                else:
                    ok_ = cf == (0, 0)
                    why_ = ('__get__ releases the lock but leaves the hand-over flag False (False writes %s): the next plain assignment skips its acquire and releases a lock it does '
                            'not hold' % (cf,))
                run.inst('PROTO.handover', get, '%s branch of %s: flag left %s' % (lab, norm(ctest.ast), 'False' if lab == keep_label else 'True'), ok_, '' if ok_ else why_,
                         node=ctest.ast, obligation=True)
    if flag and lockattr:
        selfn = get.params[0]
        acq = set(lock_nodes(g, selfn, lockattr, 'acquire'))
        rel = set(lock_nodes(g, selfn, lockattr, 'release'))
        states = held_states(g, acq, rel, 0)
        run.rule('PROTO.flag-in-section', 'the hand-over flag is written by __get__ only while the lock is held')
        n_w = 0
        for n_ in g.nodes:
            if n_.kind == 'stmt' and isinstance(n_.ast, ast.Assign) and any(dotted(t_) == '%s.%s' % (selfn, flag) for t_ in n_.ast.targets):
                n_w += 1
                ok_ = bool(states[n_]) and min(states[n_]) >= 1
                run.inst('PROTO.flag-in-section', get, 'write of %s: %s' % (flag, norm(n_.ast)), ok_,
                         '' if ok_ else ('__get__ writes the hand-over flag %s before it holds the lock: a reader entering __get__ while another thread is between the read and the write '
                                         'half of an augmented assignment resets that thread\'s flag; its __set__ then acquires the lock a second time and releases it once, so the '
                                         'statement ends with the lock still held and every other thread blocks on the attribute' % flag), node=n_.ast, obligation=True)
        run.floor('writes of the hand-over flag in __get__', n_w, 1)
        # __set__ ends the statement: it holds the lock on entry or takes it, and must reset the flag before giving the lock back
        gs = cfg_of(st_)
        s_self = st_.params[0]
        s_rel = set(lock_nodes(gs, s_self, lockattr, 'release'))
        n_ws = 0
        for n_ in gs.nodes:
            if n_.kind == 'stmt' and isinstance(n_.ast, ast.Assign) and any(dotted(t_) == '%s.%s' % (s_self, flag) for t_ in n_.ast.targets):
                n_ws += 1
                ok_ = not any(r_ is n_ or gs.exists_path(r_, n_) for r_ in s_rel)
                run.inst('PROTO.flag-in-section', st_, 'write of %s in __set__: %s' % (flag, norm(n_.ast)), ok_,
                         '' if ok_ else ('__set__ writes the hand-over flag %s after it has released the lock: between the release and the write another thread\'s __get__ can take the lock and '
                                         'mark its own augmented assignment (flag False); the late write flips it back, that thread\'s __set__ then acquires the re-entrant lock a second time and '
                                         'releases it once - the statement ends with the lock held and every other thread blocks on the attribute' % flag), node=n_.ast, obligation=True)
        run.floor('writes of the hand-over flag in __set__', n_ws, 1)
    # ---- the regex table
    lits = regex_literals(classifier, model)
    run.floor('regex literals in the line classifier', len(lits), 1)
    if len(lits) != 1:
        raise AnalysisError('line classifier has %d regex literals; the table rule expects one' % len(lits))
    how, pattern, call = lits[0]
    try:
        rx = re.compile(pattern)
    except re.error as ex:
        raise AnalysisError('classifier regex does not compile: %s' % ex)
    # the classifier returns "search is not None": confirm the polarity structurally
    src = norm(classifier.node)
    if 'is not None' not in src and 'is None' in src:
        raise AnalysisError('classifier polarity not recognised')
    universe = sorted(t for t in token.EXACT_TOKEN_TYPES if not t.isalnum())
    accepted = []
    for tok in universe:
        acc = rx.search('a %s b' % tok) is not None if how != 're.match' else rx.match(tok) is not None
        if acc:
            accepted.append(tok)
        want = tok in AUG
        # tokens that contain an augmented-assignment token (none in python) are not an issue
        msg = ''
        if acc and not want:
            msg = ('the classifier treats the token %r as an augmented assignment: a statement that merely reads the attribute '
                   'next to %r (e.g. `if obj.x %s 3:`) leaves __get__ holding the lock, no __set__ follows, other threads block' % (tok, tok, tok))
        if want and not acc:
            msg = 'augmented assignment %r is not recognised: the read releases the lock and the update is not atomic' % tok
        run.inst('TABLE.augassign-tokens', classifier, 'token ' + tok, acc == want, msg, node=call, obligation=True)
    run.floor('operator tokens decided', len(universe), 40)
    # ---- the classifier as a whole (not only its regex): evaluated over the same universe in the finite evaluator - what __get__ branches on is the *returned* value
    run.rule('TABLE.classifier-eval', 'the value the line classifier returns is truthy exactly for the 13 augmented-assignment tokens (function body evaluated on one line per operator token)')
    from sa import pureeval
    re_obj = pureeval.Obj(search=re.search, match=re.match, fullmatch=re.fullmatch, findall=re.findall, compile=re.compile)
    cmeths = {k_: f_.node for k_, f_ in cls.methods.items() if not (k_.startswith('__') and k_.endswith('__'))}

    def classify(fn_, line):
        me = pureeval.Obj()
        try:
            return bool(pureeval.call(fn_.node, [me, line], globals_={'re': re_obj, 'None': None}, strict_locals=True, methods=cmeths)), None
        except pureeval.Raised as ex_:
            return None, 'raises ' + ex_.what
    try:
        bad = None
        n_ev = 0
        for tok in universe:
            got, err = classify(classifier, '    obj.x %s 1' % tok)
            n_ev += 1
            want = tok in AUG
            if (err or got != want) and bad is None:
                bad = (tok, err or got, want)
        run.inst('TABLE.classifier-eval', classifier, '%s(line) over %d operator tokens' % (classifier.name, n_ev), bad is None,
                 '' if bad is None else ('%s(\'obj.x %s 1\') answers %r, expected %r: %s' % (classifier.name, bad[0], bad[1], bad[2],
                                         'the read half of an augmented assignment gives the lock back and the update is no longer atomic (lost updates)' if bad[2] else
                                         'a plain read is taken for an augmented assignment, __get__ keeps the lock and no __set__ follows')), obligation=True)
    except AnalysisError as ex_:
        run.note('the line classifier is outside the evaluator\'s fragment (%s): decided by the regex table and the structural polarity test only' % ex_)
    run.note('accepted tokens: %s' % ' '.join(accepted))
    # ---- line scope (design limitation, recorded as an open finding)
    line_based = False
    for n in walk_shallow(get.node):
        if isinstance(n, ast.Subscript) and isinstance(n.value, ast.Attribute) and n.value.attr == 'lines':
            line_based = True
    uses_ast = any(isinstance(c.func, ast.Attribute) and dotted(c.func) in ('ast.parse', 'tokenize.generate_tokens', 'dis.get_instructions')
                   for c in shallow_calls(get.node) + shallow_calls(classifier.node))
    if line_based and not uses_ast:
        run.inst('LINE.classifier-scope', get, 'classifies fdata.lines[0] as text', False,
                 'the classifier matches operator text anywhere on the physical line: `y += obj.x`, or a string/comment containing '
                 '`+=` on a line that reads the attribute, keeps the lock with no __set__ to release it')
    else:
        run.inst('LINE.classifier-scope', get, 'classification input', True, nontrivial=False)
    # the documented `_, _lock = obj.attr` form
    rq = cls.methods.get('request_for_lock')
    if rq is not None:
        for how2, pat2, c2 in regex_literals(rq, model):
            r2 = re.compile(pat2)
            ok = r2.search('_, _lock = obj.attr') is not None and r2.search('x = obj.attr') is None
            run.inst('PROTO.keep-lock-branch', rq, 'lock-request form recognised', ok, 'the `_, _lock = obj.attr` form is not recognised', node=c2)
        try:
            forms = [('_, _lock = obj.attr', True), ('    _, _lock   = self.x', True), ('x = obj.attr', False), ('obj.attr += 1', False), ('y = obj._lock_count', False)]
            bad = None
            for line, want in forms:
                got, err = classify(rq, line)
                if (err or got != want) and bad is None:
                    bad = (line, err or got, want)
            run.inst('TABLE.classifier-eval', rq, 'request_for_lock(line) over %d statement forms' % len(forms), bad is None,
                     '' if bad is None else 'request_for_lock(%r) answers %r, expected %r: the documented `_, _lock = obj.attr` form %s' % (
                         bad[0], bad[1], bad[2], 'no longer receives the lock' if bad[2] else 'is seen in a plain read, which then receives a tuple'), obligation=True)
        except AnalysisError as ex_:
            run.note('request_for_lock is outside the evaluator\'s fragment (%s)' % ex_)
        # the branch that serves the form hands out (value, lock)
        for t_ in g.nodes:
            if t_.kind != 'test':
                continue
            i_, p_ = strip_not(t_.ast)
            if isinstance(i_, ast.Call) and isinstance(i_.func, ast.Attribute) and i_.func.attr == rq.name and dotted(i_.func.value) == get.params[0]:
                lab_ = 'true' if p_ else 'false'
                rets = [n_ for n_ in g.nodes if n_.kind == 'stmt' and isinstance(n_.ast, ast.Return) and guarded_by_edge(g, n_, t_, lab_)]
                okr = bool(rets) and all(isinstance(r_.ast.value, ast.Tuple) and len(r_.ast.value.elts) == 2 and (dotted(r_.ast.value.elts[1]) or '').startswith(get.params[0] + '.') for r_ in rets)
                # and no way out of that branch without a return
                falls = [m_ for m_, l_ in g.succ[t_] if l_ == lab_]
                cnt = g.count_on_paths(lambda n_: 1 if n_ in rets else 0, start=falls[0], end=g.exit) if falls else None
                okr = okr and cnt is not None and cnt[0] >= 1
                run.inst('PROTO.keep-lock-branch', get, 'the lock-request branch returns (value, lock) on every path', okr,
                         '' if okr else 'on the `_, _lock = obj.attr` branch __get__ does not hand out the pair (value, lock): the documented form fails to unpack', node=t_.ast, obligation=True)
    run.assume('inspect.getframeinfo(...).lines[0] is the physical source line of the calling frame')
    run.assume('the finite universe of operator tokens is token.EXACT_TOKEN_TYPES of the running interpreter (3.12)')
