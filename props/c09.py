"""C09 lifo subscriptions put events at the front of an active object's queue.

ENDS.fabric-kind : the delivery thread of kind k adds to each subscriber queue at the end kind k denotes: 'lifo' at the
                   end the consumer removes from (front = the end next_rtc pops), 'fifo' at the opposite end.  The kind of
                   each thread is resolved by dataflow (subscribe's queue_type branch -> registry -> start() -> thread),
                   the consumer end is read from next_rtc.
"""
import ast

from sa.model import AnalysisError, norm
from sa.util import cfg_of
from sa import fabric, queues


def check(run, model, tier):
    run.explanation = ('End-label agreement between the fabric\'s delivery threads and the active object\'s consumer: which end "front" is '
                       'comes from the pop in next_rtc, which thread serves which subscription kind comes from dataflow through subscribe() '
                       'and start(). The verdict is about the add method each thread uses, so it covers every mix of pending events.')
    run.rule('ENDS.fabric-kind', 'lifo thread adds at the consumer end (front), fifo thread at the opposite end (back)')
    run.rule('DEFAULT.kind', 'subscribe paths replace queue_type by the default only where the caller passed None: a lifo subscription stays a lifo subscription')
    from sa.util import check_param_defaults as _cpd
    n_k = 0
    for cn_, mn_ in (('ActiveFabricSource', 'subscribe'), ('ActiveObject', 'subscribe'), ('ActiveObject', '_subscribe')):
        f_ = model.cls(cn_).methods.get(mn_)
        if f_ is not None:
            n_k += _cpd(run, 'DEFAULT.kind', f_, params={'queue_type'}, why='a subscription made with queue_type=\'lifo\' is registered as a fifo one (or the other way round)')
    run.floor('queue_type default sites on the subscribe paths', n_k, 1)
    w = fabric.wiring(model)
    if not w.consistent:
        run.inst('KIND.wiring', w.subscribe, 'each kind is registered in the registry its own delivery thread reads', False,
                 'subscribe(queue_type=k) writes %s but the threads read %s' % (w.registry, sorted(w.threads)), obligation=True)
        return
    E = queues.consumer_end(model)
    run.note('consumer end (front) = %s' % E)
    n = 0
    for kind, reg in sorted(w.registry.items()):
        r = w.threads[reg]['runner']
        g = cfg_of(r)
        run.touch(r, g)
        want = E if kind == 'lifo' else queues.OPPOSITE[E]
        for hd in g.loop_heads():
            if hd.kind != 'for' or not isinstance(hd.stmt.target, ast.Name):
                continue
            tv = hd.stmt.target.id
            for nd in g.loop_body(hd):
                if nd.kind in ('entry', 'exit', 'xexit', 'def'):
                    continue
                for c in nd.calls():
                    if isinstance(c.func, ast.Attribute) and isinstance(c.func.value, ast.Name) and c.func.value.id == tv and c.func.attr in queues.END:
                        n += 1
                        got = queues.END[c.func.attr]
                        ok = got == want
                        run.inst('ENDS.fabric-kind', r, '%s delivery uses %s' % (kind, c.func.attr), ok,
                                 '' if ok else ('the %s delivery thread adds with %s (the %s end); a %s subscription must place the event at the %s end, '
                                                'because the consumer (next_rtc) removes from the %s end' % (kind, c.func.attr, got, kind, want, E)),
                                 node=c, obligation=True)
    run.floor('delivery add sites', n, 2)
    from props.c06 import kind_independence
    run.rule('KIND.wiring', 'a subscription of kind k is registered in k\'s registry whatever the other kind\'s registry holds')
    kind_independence(run, model, w)
    for kind, reg in sorted(w.registry.items()):
        run.inst('KIND.wiring', w.subscribe, 'kind %s -> registry %s -> thread %s' % (kind, reg, w.threads[reg]['runner'].name), True, obligation=True)
    # "the back" / "the front" of an active object's queue are what LockingDeque.append / appendleft make of them: one deque operation at that end, existing order kept
    run.rule('ENDS.locking', 'LockingDeque.append/appendleft put the item at the same-named end of the deque with one operation, leaving the pending events in order')
    run.rule('BOUND.tokens', 'the wake-up token queue and the deque it mirrors have the same capacity for every object')
    queues.check_locking_deque(run, model, 'ENDS.locking', None, 'BOUND.tokens')
    run.rule('TOKEN.pairing', 'the consumer takes one wake-up token and at most one event per loop iteration (the precondition under which "token queue full" means "deque full" in append/appendleft)')
    from sa.context import callgraph
    queues.token_pairing(run, model, callgraph(model), 'TOKEN.pairing')
    run.rule('LAYER.queue-writers', 'only post_fifo/post_lifo, next_rtc, stop() (wake-up item) and the LockingDeque itself operate on the pending-event queue')
    queues.check_queue_writers(run, model, 'LAYER.queue-writers')
    run.rule('ENDS.queue-class', 'the pending and deferral queues are collections.deque objects (or subclasses that redefine none of deque\'s interface)')
    from sa.context import callgraph as _cgq
    queues.check_queue_classes(run, model, _cgq(model), 'ENDS.queue-class')
    run.assume('subscriber queues are deques or LockingDeques consumed from the left by next_rtc (C14)')
