"""C29 Thread-safe attribute values belong to their instance.

DESC.instance-storage : the data descriptor's __set__ stores the value in storage selected by its
                        `instance` parameter, and every value __get__ returns is read from storage
                        selected by `instance` (directly, or through a helper that receives it).
DESC.per-name         : the metaclass creates one descriptor per declared name with initial value 0.
"""
import ast

from sa.model import AnalysisError, walk_shallow, dotted, norm
from sa.util import local_defs, depends_on, mentions_name, cfg_of


def helper_returns_depend(model, cls, call, inst_name, seen=None):
    """call is self.helper(..instance..): do all the helper's returns depend on the matching parameter?"""
    seen = seen or set()
    if not (isinstance(call.func, ast.Attribute) and isinstance(call.func.value, ast.Name)):
        return False
    h = cls.methods.get(call.func.attr)
    if h is None or h.qualname in seen:
        return False
    seen.add(h.qualname)
    pnames = []
    for i, a in enumerate(call.args):
        if mentions_name(a, inst_name) and i + 1 < len(h.params):
            pnames.append(h.params[i + 1])
    for kw in call.keywords:
        if kw.arg and mentions_name(kw.value, inst_name):
            pnames.append(kw.arg)
    if not pnames:
        return False
    defs = local_defs(h.node)
    rets = [n for n in walk_shallow(h.node) if isinstance(n, ast.Return) and n.value is not None]
    if not rets:
        return False
    return all(value_depends(model, cls, h, r.value, pnames, defs, seen) for r in rets)


def value_depends(model, cls, f, expr, inst_names, defs, seen=None):
    if depends_on(expr, set(inst_names), defs):
        return True
    for n in ast.walk(expr):
        if isinstance(n, ast.Call):
            for nm in inst_names:
                if helper_returns_depend(model, cls, n, nm, seen):
                    return True
    return False


SURROGATES = {'id', 'hash', 'repr', 'str'}


def only_through_surrogate(expr, inst, defs, depth=4):
    """does `expr` use the instance only through id()/hash()/repr()/str() - a surrogate that is unique only among *live* objects?"""
    direct = False
    surrogate = False

    def scan(e, under, level):
        nonlocal direct, surrogate
        if isinstance(e, tuple):
            e = e[1]
        if not isinstance(e, ast.AST):
            return
        if isinstance(e, ast.Call) and isinstance(e.func, ast.Name) and e.func.id in SURROGATES:
            for a in e.args:
                scan(a, True, level)
            return
        if isinstance(e, ast.Name):
            if e.id == inst:
                if under:
                    surrogate = True
                else:
                    direct = True
            elif level < depth:
                for d in defs.get(e.id, []):
                    scan(d, under, level + 1)
            return
        for ch in ast.iter_child_nodes(e):
            scan(ch, under, level)
    scan(expr, False, 0)
    return surrogate and not direct


def rooted_at(e, name, defs, depth=4):
    """is the container expression e rooted at the local/parameter `name` (name, name.attr, name.__dict__, vars(name), a local bound to one of those)?"""
    while True:
        if isinstance(e, ast.Attribute):
            e = e.value
        elif isinstance(e, ast.Subscript):
            e = e.value
        elif isinstance(e, ast.Call) and isinstance(e.func, ast.Name) and e.func.id == 'vars' and e.args:
            e = e.args[0]
        else:
            break
    if isinstance(e, ast.Name):
        if e.id == name:
            return True
        if depth > 0:
            ds = [d for d in defs.get(e.id, []) if isinstance(d, ast.AST)]
            return bool(ds) and all(rooted_at(d, name, defs, depth - 1) for d in ds)
    return False


LOOKUPS = ('get', 'setdefault', 'pop', '__getitem__', '__setitem__', 'update')


def shared_lookups(model, cls, f, expr, defs, seen=None, depth=4):
    """keyed lookups (x[k], x.get(k), ...) reached from expr whose container is owned by the descriptor (rooted at self): one descriptor serves every
    instance of the class, and a mapping finds its keys by hash/==, so whatever the key is derived from, the slot is not *the instance's own*"""
    seen = seen if seen is not None else set()
    selfn = f.params[0]
    out = []

    def scan(e, level):
        if isinstance(e, tuple) or not isinstance(e, ast.AST):
            return
        for n in ast.walk(e):
            if isinstance(n, ast.Subscript) and rooted_at(n.value, selfn, defs):
                out.append(n)
            elif isinstance(n, ast.Call) and isinstance(n.func, ast.Attribute) and n.func.attr in LOOKUPS and rooted_at(n.func.value, selfn, defs) \
                    and not (isinstance(n.func.value, ast.Name) and n.func.value.id == selfn):
                out.append(n)
            elif isinstance(n, ast.Call) and isinstance(n.func, ast.Attribute) and isinstance(n.func.value, ast.Name) and n.func.value.id == selfn:
                h = cls.methods.get(n.func.attr)
                if h is not None and h.qualname not in seen:
                    seen.add(h.qualname)
                    hd = local_defs(h.node)
                    for r in walk_shallow(h.node):
                        if isinstance(r, ast.Return) and r.value is not None:
                            out.extend(shared_lookups(model, cls, h, r.value, hd, seen, depth))
            elif isinstance(n, ast.Name) and isinstance(n.ctx, ast.Load) and level < depth:
                for d in defs.get(n.id, []):
                    scan(d, level + 1)
    scan(expr, 0)
    return out


def namespace_depth(t, inst, defs):
    """how many keyed steps below the instance's own namespace the store target t lies: 0 for `instance.__dict__[k]` / `vars(instance)[k]` / `instance.attr`,
    1 for `instance.__dict__[k1][k2]`, `instance.__dict__.setdefault(k1, {})[k2]`, `instance.attr[k]` ..., None when t is not rooted at the instance"""
    keyed = 0
    e = t
    for _ in range(20):
        if isinstance(e, ast.Subscript):
            e = e.value
            keyed += 1
        elif isinstance(e, ast.Attribute) and e.attr == '__dict__':
            e = e.value                      # the namespace itself
        elif isinstance(e, ast.Attribute):
            e = e.value
            keyed += 1                       # instance.attr is a key of the namespace
        elif isinstance(e, ast.Call) and isinstance(e.func, ast.Name) and e.func.id == 'vars' and e.args:
            e = e.args[0]
        elif isinstance(e, ast.Call) and isinstance(e.func, ast.Attribute) and e.func.attr in ('get', 'setdefault', '__getitem__'):
            e = e.func.value
            keyed += 1
        elif isinstance(e, ast.Name) and e.id != inst and len([d for d in defs.get(e.id, []) if isinstance(d, ast.AST)]) == 1:
            e = [d for d in defs.get(e.id, []) if isinstance(d, ast.AST)][0]
        else:
            break
    if isinstance(e, ast.Name) and e.id == inst:
        return max(keyed - 1, 0)
    return None


def guarded_by_instance_none(f, ret, inst):
    """`if instance is None: return self` - class-level access idiom"""
    for n in walk_shallow(f.node):
        if isinstance(n, ast.If) and any(x is ret for s in n.body for x in ast.walk(s)):
            t = n.test
            if isinstance(t, ast.Compare) and isinstance(t.left, ast.Name) and t.left.id == inst \
                    and isinstance(t.ops[0], ast.Is) and isinstance(t.comparators[0], ast.Constant) and t.comparators[0].value is None:
                return True
    return False


def own_namespace_rule(run, model, cls, rule, writes_too=False):
    """the descriptor reaches an instance's stored value through the instance's own namespace (instance.__dict__ / vars(instance)).  getattr(instance, key[, default]) is the full
    attribute protocol instead: the class and its bases are searched and, when the key is not there yet, the class's own __getattr__ hook runs - with whatever it
    returns (another object's value) or raises (anything but AttributeError passes the default by)"""
    hooks = ('getattr', 'hasattr') + (('setattr', 'delattr') if writes_too else ())
    n = 0
    for f in cls.methods.values():
        others = set(f.params[1:])
        for c in ast.walk(f.node):
            if isinstance(c, ast.Call) and isinstance(c.func, ast.Name) and c.func.id in hooks and len(c.args) >= 2 and isinstance(c.args[0], ast.Name) and c.args[0].id in others \
                    and not isinstance(c.args[1], ast.Constant):
                n += 1
                if c.func.id in ('getattr', 'hasattr'):
                    why = ('%s reads the stored value with %s: a full attribute lookup on the user\'s object. For an instance that has not been assigned yet the key is missing and the '
                           'class\'s own __getattr__ hook answers - a proxy/parent-chain hook hands back another instance\'s value where 0 is expected, and a hook that raises anything '
                           'but AttributeError (KeyError from a dict-backed hook) aborts the statement while __get__ still holds the lock for the coming __set__'
                           % (f.qualname, norm(c)))
                else:
                    why = ('%s writes the stored value with %s: the user\'s __setattr__ hook runs between acquire and release; a hook that rejects unknown names raises there and the '
                           'lock is never given back' % (f.qualname, norm(c)))
                run.inst(rule, f, 'the stored value is reached through the instance\'s own namespace, not %s()' % c.func.id, False, why, node=c, obligation=True)
    if n == 0:
        run.inst(rule, cls.methods.get('__get__'), 'no getattr/hasattr%s on the instance with a computed key' % ('/setattr' if writes_too else ''), True, obligation=True)


def check(run, model, tier):
    run.explanation = ('Dataflow over the descriptor protocol methods of ThreadSafeAttribute: where __set__ puts its value '
                       'argument and where each value returned by __get__ comes from must be selected by the `instance` '
                       'parameter. One descriptor object is shared by all instances of the class (created once by the '
                       'metaclass), so storage on the descriptor itself is shared by every instance - for every program.')
    run.rule('DESC.instance-storage', '__set__ stores into / __get__ returns from storage that depends on the instance parameter')
    run.rule('DESC.per-name', 'metaclass installs one descriptor per name in _attributes, initial value 0')
    cls = model.cls('ThreadSafeAttribute')
    g = cls.methods.get('__get__')
    s = cls.methods.get('__set__')
    if g is None or s is None or len(g.params) < 3 or len(s.params) < 3:
        raise AnalysisError('ThreadSafeAttribute.__get__/__set__ not found with descriptor signatures')
    run.rule('DESC.own-namespace', 'the stored value is read from the instance\'s own namespace (__dict__ / vars), not through getattr: the class\'s __getattr__ hook must not answer for it')
    own_namespace_rule(run, model, cls, 'DESC.own-namespace')
    # ---- __set__
    selfn, inst, val = s.params[0], s.params[1], s.params[2]
    sdefs = local_defs(s.node)
    stores = []
    for n in walk_shallow(s.node):
        if isinstance(n, ast.Assign) and depends_on(n.value, {val}, sdefs):
            for t in n.targets:
                if not isinstance(t, ast.Name):
                    stores.append((n, t))
        elif isinstance(n, ast.Call):
            args = list(n.args) + [k.value for k in n.keywords]
            if any(depends_on(a, {val}, sdefs) for a in args):
                stores.append((n, n))
    run.floor('value stores in __set__', len(stores), 1)
    for n, t in stores:
        if isinstance(t, ast.Call):
            ok = any(mentions_name(a, inst) for a in list(t.args) + [k.value for k in t.keywords]) or \
                mentions_name(t.func, inst)
            why = 'the value is handed to %s without the instance: it cannot be stored per instance' % norm(t.func)
            if ok and shared_lookups(model, cls, s, t, sdefs):
                ok = False
                why = ('__set__ stores the value through %s: a mapping owned by the descriptor (one object for all instances of the class), where keys are found by hash/==: '
                       'instances that compare equal share one slot' % norm(t.func))
        else:
            ok = depends_on(t, {inst}, sdefs)
            why = ('__set__ stores the value in %s, which does not depend on `%s`: the descriptor is one object per class, '
                   'so every instance shares the value' % (norm(t), inst))
            if ok and not only_through_surrogate(t, inst, sdefs) and shared_lookups(model, cls, s, t, sdefs):
                ok = False
                why = ('__set__ stores the value in %s: a mapping owned by the descriptor (one object for all instances of the class) keyed by something derived from the '
                       'instance. A mapping finds keys by hash/==, not identity: two instances that compare equal (a class with value-based __eq__/__hash__) share one '
                       'slot, so assigning on one changes what the other reads' % norm(t))
            if ok:
                # may-depend is not enough: every definition of the container that can reach the store must be the instance's own; one that comes from the descriptor
                # (a namespace remembered on self by an earlier call) belongs to whichever instance that call was for
                def descriptor_defs(e, depth=4):
                    out = []
                    while isinstance(e, (ast.Attribute, ast.Subscript)):
                        if isinstance(e, ast.Attribute) and isinstance(e.value, ast.Name) and e.value.id == selfn:
                            out.append(e)
                        e = e.value
                    if isinstance(e, ast.Name) and e.id not in (selfn, inst) and depth > 0:
                        for d in sdefs.get(e.id, []):
                            d = d[1] if isinstance(d, tuple) else d
                            if isinstance(d, ast.AST):
                                if isinstance(d, ast.Attribute) and isinstance(d.value, ast.Name) and d.value.id == selfn:
                                    out.append(d)
                                else:
                                    out += descriptor_defs(d, depth - 1)
                    return out
                cont = t.value if isinstance(t, (ast.Subscript, ast.Attribute)) else t
                dd = [d for d in descriptor_defs(cont) if not (isinstance(t, ast.Subscript) and d is t.slice)]
                if dd:
                    ok = False
                    why = ('__set__ stores the value in %s, and on some path that container is %s - state of the descriptor, which is one object for all instances of the class: the '
                           'value lands in whichever instance the descriptor last remembered (`a.x += b.x` writes into b; a read on one instance followed by an assignment on '
                           'another writes into the first)' % (norm(t), norm(dd[0])))
            if ok:
                nd = namespace_depth(t, inst, sdefs)
                if nd is not None and nd >= 1:
                    ok = False
                    why = ('__set__ stores the value in %s: not in the instance\'s own namespace but in a container that the namespace points to. A second instance made as a shallow '
                           'copy of the first (copy.copy, __dict__.update) shares that container, so assigning on one instance changes what the other reads' % norm(t))
            if ok and only_through_surrogate(t, inst, sdefs):
                ok = False
                why = ('__set__ stores the value under a key derived from id()/hash() of the instance (%s) in storage owned by the descriptor: such a key is unique only among '
                       'live objects, so after an instance is garbage-collected a new instance allocated at the same address reads the dead one\'s value instead of 0' % norm(t))
        run.inst('DESC.instance-storage', s, 'store ' + norm(t), ok, '' if ok else why, node=n, obligation=True)
    # ---- __get__
    selfn, inst = g.params[0], g.params[1]
    gdefs = local_defs(g.node)
    rets = [n for n in walk_shallow(g.node) if isinstance(n, ast.Return) and n.value is not None]
    run.floor('value returns in __get__', len(rets), 1)
    for r in rets:
        if guarded_by_instance_none(g, r, inst):
            run.inst('DESC.instance-storage', g, 'return ' + norm(r.value), True, nontrivial=False, node=r)
            continue
        vals = r.value.elts if isinstance(r.value, ast.Tuple) else [r.value]
        # the first element is the value (the `_, _lock = obj.attr` form returns (value, lock))
        v = vals[0]
        ok = value_depends(model, cls, g, v, [inst], gdefs)
        why = '__get__ returns %s, which is not selected by `%s`: all instances read the same storage' % (norm(v), inst)
        if ok:
            sh = shared_lookups(model, cls, g, v, gdefs)
            if sh:
                ok = False
                why = ('__get__ returns a value looked up in %s: a mapping owned by the descriptor (shared by all instances of the class); the lookup is by hash/== of the key, '
                       'so instances that compare equal - or a key unique only among live objects - read each other\'s value' % norm(sh[0]))
        run.inst('DESC.instance-storage', g, 'return ' + norm(v), ok, '' if ok else why, node=r, obligation=True)
    # ---- "no instance" (class-level access) is decided by `instance is None`, never by the truth value of the instance: an instance may be falsy
    # (empty container, __bool__ False) and would then be treated as "no instance" and share the descriptor's own storage with every other falsy instance
    run.rule('DESC.none-test', 'the instance parameter is tested with `is None` / `is not None` only, never by truthiness')
    n_bool = 0
    for f_ in [x for x in cls.methods.values()]:
        pn = [p_ for p_ in f_.params[1:] if p_ == 'instance' or (f_.name in ('__get__', '__set__', '__delete__') and p_ == f_.params[1])]
        if not pn:
            continue
        inst_ = pn[0]

        def truthy_uses(e, boolctx):
            out = []
            if isinstance(e, ast.Name) and e.id == inst_ and boolctx:
                out.append(e)
            elif isinstance(e, ast.BoolOp):
                for v in e.values:
                    out += truthy_uses(v, True)
            elif isinstance(e, ast.UnaryOp) and isinstance(e.op, ast.Not):
                out += truthy_uses(e.operand, True)
            elif isinstance(e, ast.IfExp):
                out += truthy_uses(e.test, True) + truthy_uses(e.body, False) + truthy_uses(e.orelse, False)
            elif isinstance(e, ast.Call) and isinstance(e.func, ast.Name) and e.func.id == 'bool' and e.args:
                out += truthy_uses(e.args[0], True)
            else:
                for ch in ast.iter_child_nodes(e):
                    if isinstance(ch, ast.expr):
                        out += truthy_uses(ch, False)
            return out
        for n_ in walk_shallow(f_.node):
            uses = []
            if isinstance(n_, (ast.If, ast.While, ast.Assert)):
                uses = truthy_uses(n_.test, True)
            elif isinstance(n_, (ast.Assign, ast.Return, ast.Expr, ast.AugAssign)) and getattr(n_, 'value', None) is not None:
                uses = truthy_uses(n_.value, False)
            for u in uses:
                n_bool += 1
                run.inst('DESC.none-test', f_, 'truth value of `%s` in %s' % (inst_, norm(n_)), False,
                         '%s decides "is there an instance" by the truth value of `%s`: an instance that is falsy (an empty container, __bool__ returning False) is treated as the class-level '
                         'access and its value is kept in storage shared by all such instances' % (f_.qualname, inst_), node=n_, obligation=True)
    if n_bool == 0:
        run.inst('DESC.none-test', g, 'no truth-value test of the instance parameter', True, obligation=True)
    # ---- metaclass
    meta = model.cls('MetaThreadSafeAttributes')
    mi = meta.methods.get('__init__')
    if mi is None:
        raise AnalysisError('MetaThreadSafeAttributes.__init__ not found')
    found = 0
    for n in walk_shallow(mi.node):
        if isinstance(n, ast.Call) and isinstance(n.func, ast.Name) and n.func.id == 'setattr' and len(n.args) == 3:
            ctor = n.args[2]
            if isinstance(ctor, ast.Name):
                ds_ = [d for d in local_defs(mi.node).get(ctor.id, []) if not isinstance(d, tuple)]
                ctor = ds_[0] if len(ds_) == 1 else ctor
            if isinstance(ctor, ast.Call) and norm(ctor.func).endswith('ThreadSafeAttribute'):
                found += 1
                init0 = None
                for kw in ctor.keywords:
                    if kw.arg == 'initial_value':
                        init0 = kw.value
                if init0 is None and ctor.args:
                    init0 = ctor.args[0]
                ok = isinstance(init0, ast.Constant) and init0.value == 0 and type(init0.value) is int
                run.inst('DESC.per-name', mi, 'setattr(cls, name, ThreadSafeAttribute(initial 0))', ok,
                         '' if ok else 'a new attribute does not start at 0', node=n)
                # inside a loop over cls._attributes
                def over_attributes(it_):
                    if '_attributes' in norm(it_):
                        return True
                    if isinstance(it_, ast.Name):       # a local bound to (a copy / the set of) cls._attributes
                        ds2 = [d_ for d_ in local_defs(mi.node).get(it_.id, []) if isinstance(d_, ast.AST)]
                        return bool(ds2) and all('_attributes' in norm(d_) for d_ in ds2)
                    if isinstance(it_, ast.Call):
                        # a helper of the package that hands back the declared names: each non-empty return of it derives from _attributes
                        hn_ = it_.func.attr if isinstance(it_.func, ast.Attribute) else (it_.func.id if isinstance(it_.func, ast.Name) else None)
                        hs_ = [f_ for f_ in model.all_funcs() if f_.name == hn_ and f_.module is mi.module]
                        if len(hs_) == 1:
                            hd_ = local_defs(hs_[0].node)
                            rets_ = [r_.value for r_ in walk_shallow(hs_[0].node) if isinstance(r_, ast.Return) and r_.value is not None
                                     and not (isinstance(r_.value, (ast.List, ast.Tuple, ast.Set)) and not r_.value.elts)]

                            def derives(e_, depth=4):
                                if '_attributes' in norm(e_):
                                    return True
                                return depth > 0 and any(isinstance(x_, ast.Name) and any(isinstance(d_, ast.AST) and derives(d_, depth - 1) for d_ in hd_.get(x_.id, []))
                                                         for x_ in ast.walk(e_))
                            return bool(rets_) and all(derives(r_) for r_ in rets_)
                    return False
                par_ok = any(isinstance(p, ast.For) and over_attributes(p.iter) and any(x is n for x in ast.walk(p))
                             for p in walk_shallow(mi.node))
                if not par_ok:
                    # a while loop that drains a local container derived from _attributes (`pending = set(declared)` ... `while pending: name = pending.pop()`)
                    mdefs_ = local_defs(mi.node)

                    def from_attributes(e_, depth=4):
                        if '_attributes' in norm(e_):
                            return True
                        if depth <= 0:
                            return False
                        for x_ in ast.walk(e_):
                            if isinstance(x_, ast.Name):
                                if any(isinstance(d_, ast.AST) and from_attributes(d_, depth - 1) for d_ in mdefs_.get(x_.id, [])):
                                    return True
                        return False
                    for p in walk_shallow(mi.node):
                        if isinstance(p, ast.While) and any(x is n for x in ast.walk(p)) and from_attributes(p.test):
                            pops = [x for x in ast.walk(p) if isinstance(x, ast.Call) and isinstance(x.func, ast.Attribute) and x.func.attr in ('pop', 'popleft', 'popitem')
                                    and norm(x.func.value) in norm(p.test)]
                            if pops:
                                par_ok = True
                run.inst('DESC.per-name', mi, 'one descriptor per declared name', par_ok,
                         '' if par_ok else 'descriptor creation is not inside a loop over _attributes', node=n)
    run.floor('descriptor installation sites', found, 1)
    # the initial value is what an unassigned instance reads: __init__ keeps it and the read path falls back to it
    ci = cls.methods.get('__init__')
    if ci is not None:
        keeps = any(isinstance(n, ast.Assign) and any(dotted(t) and dotted(t).startswith('self.') for t in n.targets)
                    and mentions_name(n.value, 'initial_value') for n in walk_shallow(ci.node))
        run.inst('DESC.per-name', ci, 'initial value retained', keeps, '' if keeps else 'the initial value is dropped', nontrivial=False)
    run.assume('a class attribute implementing __get__ and __set__ is shared by all instances (Python descriptor protocol)')
