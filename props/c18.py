"""C18 Instrumentation never changes chart behaviour.

WRAP.once       : every decorator wrapper of the package calls the function it wraps exactly once on every normal
                  path (one documented exception: spy_on answers a REFLECTION query itself).
WRAP.forward    : the wrapper forwards its own parameters unchanged, and returns the wrapped function's result when
                  the wrapped function produces one.
WRAP.namespace  : the wrapper's own effects (everything except the wrapped call) stay inside the instrumentation
                  namespace {rtc.*, full.*, last_live_trace*, spied_on, state_name, state_fn, instrumented}; it never
                  writes state.*, temp.*, event.*, queue, defer_queue or the event object.
DELEGATE.once   : every host override of dispatch/start_at reaches the plain event processor exactly once on every
                  path, whichever way `instrumented` is set.
LIVE.snapshot   : the live-output wrappers iterate a snapshot of the step log (posts from other threads append to it while it is
                  being printed: iterating the live deque raises and kills the object's thread only when live output is on).
SIGSET.reflection: a REFLECTION query is sent to a handler only where a test that the chart is instrumented (and so the
                  handler is the spy wrapper that answers it) dominates the call.
"""
import ast

from sa.model import AnalysisError, walk_shallow, dotted, norm
from sa.util import expand_locals, cfg_of, shallow_calls, signal_const, guarded_by_edge, strip_not, local_defs
from sa.context import callgraph, effects
from sa import wrap
from sa.cfg import INF

EXPECTED_WRAPPERS = 17


def reflection_exception(info):
    """all zero-call paths of spy_on's inner function pass the true edge of `e.signal == signals.REFLECTION_SIGNAL`"""
    g = info.cfg
    tests = [t for t in g.nodes if t.kind == 'test' and any(signal_const(x) == 'REFLECTION_SIGNAL' for x in ast.walk(t.ast))]
    if len(tests) != 1:
        return False, None
    t = tests[0]
    avoid = set(info.callnodes)

    def ok(a, b, lab):
        return not (a is t and lab == 'true') and b not in avoid
    reach = g.reachable(g.entry, edge_ok=ok)
    return g.exit not in reach, t


def instrumented_guard(g, node, recv):
    """on every path on which `node` executes, <recv>.instrumented is known to be true there (path-sensitive propagation through the tests,
    whatever their shape: nesting, and/or/not, early returns; assignments of the flag inside the function are followed)"""
    from sa.boolflow import values_at
    k = recv + '.instrumented'
    vals = values_at(g, node, {k})
    return bool(vals) and all(v.get(k) is True for v in vals)


def detect_spy_decoration(run, model):
    """start_at decides from the initial state's handler whether the chart is spied on; if it is not, instrumentation is switched off (the instrumented
    processors send REFLECTION to handlers, and an undecorated handler answers REFLECTION like any unknown signal: by naming its parent - the search then starts
    one level too high).  The decision must rest on something only the spy_on wrapper has."""
    import re as _re
    from sa.util import expand_locals
    run.rule('DETECT.spy-decoration', 'instrumentation stays on at start only on evidence specific to the spy_on wrapper (its code/function name, or an attribute only spy_on sets), '
                                     'never on what every decorator provides (__wrapped__, __closure__, __dict__ ...)')
    outer = next((f for f in model.all_funcs() if f.name == 'spy_on_start' and f.owner_class is None), None)
    spy = next((f for f in model.all_funcs() if f.name == 'spy_on' and f.owner_class is None), None)
    if outer is None or spy is None or not outer.nested or not spy.nested:
        raise AnalysisError('spy_on / spy_on_start and their wrappers not found')
    inner = list(outer.nested.values())[0]
    wrapper_names = set(spy.nested)
    # attributes spy_on sets explicitly on the wrapper it returns
    own_attrs = set()
    for n in ast.walk(spy.node):
        if isinstance(n, ast.Assign):
            for t in n.targets:
                if isinstance(t, ast.Attribute) and isinstance(t.value, ast.Name) and t.value.id in wrapper_names:
                    own_attrs.add(t.attr)
    if len(inner.params) < 2:
        raise AnalysisError('spy_on_start wrapper does not take (self, initial_state)')
    hp = inner.params[1]
    offs = [n for n in ast.walk(inner.node) if isinstance(n, ast.Assign) and any(dotted(t) == inner.params[0] + '.instrumented' for t in n.targets)
            and isinstance(n.value, ast.Constant) and n.value.value is False]
    run.floor('spy_on_start: places that switch instrumentation off', len(offs), 1)
    specific, generic = [], []
    for t in [n for n in ast.walk(inner.node) if isinstance(n, (ast.If, ast.IfExp, ast.While))]:
        x = expand_locals(t.test, inner.node, params=inner.params)
        # a local that holds the answer of a call on the handler (`m = re.search(.., str(initial_state.__code__))`) stands for that call
        ldefs_ = local_defs(inner.node)
        extra_ = [d_ for y in ast.walk(x) if isinstance(y, ast.Name) and y.id != hp for d_ in ldefs_.get(y.id, []) if isinstance(d_, ast.AST)]
        if extra_:
            x = ast.Tuple(elts=[x] + extra_, ctx=ast.Load())
        if not any(isinstance(y, ast.Name) and y.id == hp for y in ast.walk(x)):
            continue
        lits = [y.value for y in ast.walk(x) if isinstance(y, ast.Constant) and isinstance(y.value, str)]
        attrs = {y.attr for y in ast.walk(x) if isinstance(y, ast.Attribute) and isinstance(y.value, ast.Name) and y.value.id == hp}
        attrs |= {y.args[1].value for y in ast.walk(x) if isinstance(y, ast.Call) and isinstance(y.func, ast.Name) and y.func.id in ('hasattr', 'getattr') and len(y.args) >= 2
                  and isinstance(y.args[0], ast.Name) and y.args[0].id == hp and isinstance(y.args[1], ast.Constant)}
        by_name = attrs & {'__code__', '__name__', '__qualname__'} and any(any(_re.search(l, w) for w in wrapper_names) for l in lits if l)
        by_attr = attrs & own_attrs
        if by_name or by_attr:
            specific.append(norm(x))
        else:
            generic.append((norm(x), sorted(attrs)))
    ok = bool(specific)
    run.inst('DETECT.spy-decoration', inner, 'evidence for "spied on": %s' % (specific or [g_[0] for g_ in generic]), ok,
             '' if ok else ('spy_on_start keeps the chart instrumented on the evidence of %s alone - attributes every decorator built with functools.wraps provides, not only spy_on (the wrapper '
                            'spy_on returns is %s%s): states wrapped by some other decorator are taken for spied ones, the instrumented processors then send REFLECTION to the raw handlers, '
                            'which answer it by naming their parent, and events are offered one level too high - the chart behaves differently from the same chart on the plain processor'
                            % ([g_[1] for g_ in generic], sorted(wrapper_names), (', which sets ' + ', '.join(sorted(own_attrs))) if own_attrs else '')), obligation=True)



def check(run, model, tier):
    run.explanation = ('Every piece of instrumentation in miros is a decorator wrapper or a selector override around the plain event '
                       'processor. For each of them the CFG is built and three facts are decided: the wrapped function runs exactly once '
                       'on every path with the caller\'s own arguments and its result is handed back; everything else the wrapper does '
                       'writes only instrumentation fields (effect analysis over attribute paths, transitive through self-calls); and the '
                       'REFLECTION query, which only the spy wrapper understands, is never sent to a handler that may be undecorated. '
                       'These hold for every chart and event sequence because they are properties of the wrappers, not of a run.')
    run.rule('WRAP.once', 'wrapped function called exactly once on every normal path (exception: spy_on REFLECTION branch)')
    run.rule('WRAP.forward', 'own parameters forwarded unchanged; result returned when the wrapped function has one')
    run.rule('WRAP.namespace', 'own effects within the instrumentation namespace only')
    run.rule('DELEGATE.once', 'host overrides of dispatch/start_at reach the plain processor exactly once on every path')
    run.rule('SIGSET.reflection', 'REFLECTION is sent only under a dominating instrumented==True test')
    cg = callgraph(model)
    fx = effects(model)
    facs = sorted(cg.factories, key=lambda f: f.qualname)
    run.floor('decorator wrappers', len(facs), EXPECTED_WRAPPERS)
    for fac in facs:
        info = wrap.analyse_wrapper(model, cg, fac)
        inner = info.inner
        run.touch(inner, info.cfg)
        apps = cg.applications_of(fac)
        cnt = info.count
        if cnt is None:
            raise AnalysisError('%s has no normal path' % inner.qualname)
        if cnt == (1, 1):
            run.inst('WRAP.once', inner, 'calls %s exactly once' % info.fnp, True, obligation=True)
        elif cnt[0] == 0 and cnt[1] == 1 and fac.qualname.endswith('.spy_on'):
            ok, t = reflection_exception(info)
            run.inst('WRAP.once', inner, 'calls %s once except on the REFLECTION branch' % info.fnp, ok,
                     '' if ok else 'spy_on skips the wrapped handler on a path other than the REFLECTION query: %s' % info.witness, obligation=True)
        else:
            if cnt[0] == 0:
                msg = ('the wrapper does not call the wrapped function on the path %s: with that configuration the wrapped operation '
                       'silently does not happen' % (info.witness,))
            elif cnt[1] == INF or cnt[1] > 1:
                msg = 'the wrapper can call the wrapped function more than once (%s times on some path): its actions run twice' % cnt[1]
            else:
                msg = 'wrapped call count on paths is %s' % (cnt,)
            run.inst('WRAP.once', inner, 'calls %s exactly once' % info.fnp, False, msg, obligation=True)
        for c, ok, why in info.forward:
            run.inst('WRAP.forward', inner, 'forwards its own parameters: ' + norm(c), ok,
                     '' if ok else 'the wrapper does not pass its own arguments through unchanged (%s)' % why, node=c, obligation=True)
        target_returns = any(wrap.returns_value(a.target) for a in apps)
        for c, how, ok, why in info.results:
            if ok is None:
                good = not target_returns if how == 'dropped' else False
                run.inst('WRAP.forward', inner, 'result of %s is %s' % (norm(c), how), good,
                         '' if good else 'the wrapped function returns a value but the wrapper drops it (%s)' % (why or how), node=c, obligation=True)
            else:
                run.inst('WRAP.forward', inner, 'result of %s is %s' % (norm(c), how), ok, why, node=c, obligation=True)
        # ---- effects of the wrapper itself
        recv = inner.params[0] if inner.params else None
        own = fx.own_writes(inner, skip_calls=info.calls)
        for h in inner.nested.values():
            own = own + fx.own_writes(h)
        bad = []
        # putting the search cursor back on the current state before an exception is passed on (`except: self.temp.fun = self.state.fun; raise`) restores the
        # processor's own invariant on the failure path; it is not an effect of instrumentation
        restoring = set()
        for t_ in ast.walk(inner.node):
            if isinstance(t_, ast.Try):
                for h_ in t_.handlers:
                    if h_.body and isinstance(h_.body[-1], ast.Raise) and h_.body[-1].exc is None:
                        hdefs_ = local_defs(inner.node)
                        for b_ in [y_ for st_ in h_.body for y_ in ast.walk(st_)]:
                            if isinstance(b_, ast.Assign) and len(b_.targets) == 1 and (dotted(b_.targets[0]) or '').endswith('.temp.fun'):
                                v_ = b_.value
                                if isinstance(v_, ast.Name):
                                    ds_ = [d_ for d_ in hdefs_.get(v_.id, []) if isinstance(d_, ast.AST)]
                                    v_ = ds_[0] if len(ds_) == 1 else v_
                                txt_ = norm(v_)
                                if (dotted(v_) or '').endswith('.state.fun') or ('state' in txt_ and 'fun' in txt_ and 'temp' not in txt_):
                                    restoring.update(id(x_) for x_ in ast.walk(b_))
        for root, path, node, how in own:
            if id(node) in restoring:
                continue
            if root == recv:
                if not wrap.in_namespace(path):
                    bad.append('%s.%s (%s)' % (root, path, how))
            else:
                bad.append('%s%s (%s)' % (root, '.' + path if path else '', how))
        # transitive: self-method calls other than the wrapped one
        for t, c, how in cg.edges.get(inner, []):
            if isinstance(t, str) or how == 'wrapped':
                continue
            if how in ('self', 'super', 'class'):
                for (path, org, ln, hw) in fx.writes(t):
                    if path.startswith('<'):
                        if path in ('<registered-callback>',):
                            continue
                        bad.append('%s via %s' % (path, org))
                    elif not wrap.in_namespace(path):
                        bad.append('%s via %s' % (path, org))
        run.inst('WRAP.namespace', inner, 'own effects inside the instrumentation namespace', not bad,
                 '' if not bad else 'the wrapper writes outside the instrumentation namespace: %s' % ', '.join(sorted(set(bad))), obligation=True)
    # ---- DELEGATE: host overrides of dispatch / start_at
    base = model.cls('HsmEventProcessor')
    n_del = 0
    for k in [c for c in model.classes.values() if base in model.mro(c)[1:]]:
        for nm in ('dispatch', 'start_at'):
            f = k.methods.get(nm)
            if f is None:
                continue
            g = cfg_of(f)
            run.touch(f, g)
            w = lambda n: len(wrap.delegation_calls(n, f))
            cnt = g.count_on_paths(w)
            n_del += 1
            ok = cnt == (1, 1)
            run.inst('DELEGATE.once', f, 'reaches the base %s exactly once on every path' % nm, ok,
                     '' if ok else 'override %s delegates to its base %s times on some path: the step is skipped or run twice for that configuration'
                     % (f.qualname, cnt), obligation=True)
            # the delegated call forwards the override's own arguments
            for n in g.nodes:
                for c, how in wrap.delegation_calls(n, f):
                    args = [a for a in c.args]
                    if how != 'super':
                        args = args[1:]
                    passed = [norm(a) for a in args] + ['%s=%s' % (kw.arg, norm(kw.value)) for kw in c.keywords]
                    want = f.params[1:]
                    defs = local_defs(f.node)
                    ok2 = len(args) == len(want) and not c.keywords
                    if ok2:
                        for a, p in zip(args, want):
                            if isinstance(a, ast.Name) and a.id == p and p not in defs:
                                continue
                            # Factory.start_at translates a state *name* to its method first
                            if isinstance(a, ast.Name) and f.owner_class.name == 'Factory':
                                continue
                            ok2 = False
                    elif c.keywords and len(c.keywords) == len(want) and all(isinstance(kw.value, ast.Name) and kw.value.id == p for kw, p in zip(c.keywords, want)):
                        ok2 = True
                    run.inst('DELEGATE.once', f, 'forwards (%s)' % ', '.join(passed), ok2,
                             '' if ok2 else 'the override passes (%s) to its base, its own parameters are (%s)' % (', '.join(passed), ', '.join(want)), node=c)
    run.floor('host overrides of dispatch/start_at', n_del, 6)
    # ---- a wrapper that loses an exception changes behaviour too: on the plain processor a handler that raises stops the step and the caller sees the exception
    from props.c24 import exceptions_propagate
    exceptions_propagate(run, model)
    # ---- SIGSET.reflection
    n_ref = 0
    log_ = getattr(model, 'inlined', [])
    spent = {q for q, _c, st_ in log_ if st_ == 'inlined'} & {q for q, _c, st_ in log_ if st_ == 'kept: never called'}
    for f in model.all_funcs():
        refl = [c for c in shallow_calls(f.node) if isinstance(c.func, ast.Name) and c.func.id in ('Event', 'HsmEvent')
                and any(signal_const(x) == 'REFLECTION_SIGNAL' for x in ast.walk(c))]
        if not refl:
            continue
        if f.qualname in spent:
            # a helper outside the pinned inventory whose every call inside the package was written out at the call site (where the sends are judged in their
            # context): what is left is an entry point nothing in the package uses
            continue
        g = cfg_of(f)
        recv = cg.receiver_var(f)
        for ev in refl:
            # the handler call that receives this event
            sends = [c for c in shallow_calls(f.node) if any(a is ev for a in c.args)]
            defs = local_defs(f.node)
            if not sends:
                names = [k for k, v in defs.items() if any(x is ev for x in v)]
                sends = [c for c in shallow_calls(f.node) if any(isinstance(a, ast.Name) and a.id in names for a in c.args)]
            for s in sends:
                n_ref += 1
                node = None
                for n in g.nodes:
                    if n.kind not in ('entry', 'exit', 'xexit', 'def') and any(x is s for x in n.walk()):
                        node = n
                if node is None:
                    raise AnalysisError('REFLECTION send not located in CFG of %s' % f.qualname)
                ok = recv is not None and instrumented_guard(g, node, recv)
                run.inst('SIGSET.reflection', f, 'REFLECTION sent by ' + norm(s.func), ok,
                         '' if ok else ('a REFLECTION query is sent to a state handler without a dominating test that the chart is instrumented: an '
                                        'undecorated handler receives a non-event (user code runs on it) and returns a status object where a name is expected'),
                         node=s, obligation=True)
    run.floor('REFLECTION send sites', n_ref, 4)
    # spy_on itself: when the chart is not instrumented the handler result is returned before any rtc access
    so = model.func('hsm.spy_on')
    inner = cg.factories.get(so)
    if inner is None:
        raise AnalysisError('spy_on is no longer a decorator factory')
    g = cfg_of(inner)
    rtc_nodes = [n for n in g.nodes if n.kind not in ('entry', 'exit', 'xexit', 'def') and any(isinstance(x, ast.Attribute) and x.attr == 'rtc' for x in n.walk())
                 and not any(isinstance(x, ast.Call) and norm(x.func) == 'hasattr' for x in n.walk())]
    ok = all(instrumented_guard(g, n, inner.params[0]) for n in rtc_nodes) and bool(rtc_nodes)
    run.inst('WRAP.namespace', inner, 'spy_on touches rtc only when the chart is instrumented', ok,
             '' if ok else 'spy_on accesses chart.rtc on a path where chart.instrumented is false (plain processors have no rtc)', obligation=True)
    # ---- live output on/off: the live wrappers must not be able to fail on a concurrently growing step log
    from props.c21 import live_spy_loops
    run.rule('LIVE.snapshot', 'live-output wrappers iterate a snapshot of the step log, once per line, after the step (other threads append to it)')
    live_spy_loops(run, model, cg, {f.name: f for f in cg.factories}, rule='LIVE.snapshot')
    # an exception that escapes from an after-step wrapper aborts next_rtc/complete_circuit (and kills an active object's thread): the trace formatter calls
    # strftime on the record's datetime, and a record built after the tuple ring was emptied by a long step carries datetime None
    run.rule('WRAP.no-raise', 'the after-step live-trace wrapper formats a record only when its datetime is not None')
    from sa.boolflow import must_atoms
    fmap = {f.name: f for f in cg.factories}
    fac_ = fmap.get('print_trace_after_rtc_if_live')
    if fac_ is None:
        raise AnalysisError('print_trace_after_rtc_if_live not found')
    inn_ = cg.factories[fac_]
    g_ = cfg_of(inn_)
    n_fmt = 0
    for n_ in g_.nodes:
        if n_.kind in ('entry', 'exit', 'xexit', 'def'):
            continue
        for c_ in n_.calls():
            if isinstance(c_.func, ast.Attribute) and c_.func.attr == 'trace_tuple_to_formatted_string' and c_.args:
                n_fmt += 1
                a_ = norm(expand_locals(c_.args[0], inn_.node, params=inn_.params))
                atoms = must_atoms(g_, n_, inn_.node, params=inn_.params)
                ok = any(l == a_ + '.datetime' and ((op in ('IsNot', 'NotEq') and r == 'None') or op == 'Truthy') for (l, op, r) in atoms)
                run.inst('WRAP.no-raise', inn_, 'formatting guarded by `record.datetime is not None`', ok,
                         '' if ok else ('the live-trace wrapper of next_rtc formats the newest trace record without checking that its datetime is set: for a step that makes more state-handler '
                                        'calls than the tuple ring holds, the record has datetime None, strftime raises TypeError out of next_rtc - with live trace on the chart stops '
                                        'mid-circuit (an active object\'s thread dies), with it off it does not'), node=c_, obligation=True)
    run.floor('after-step live-trace formatting sites', n_fmt, 1)
    # ---- handing a live line to the writer thread never blocks the chart's thread: the writer's queue is unbounded (or the put is non-blocking)
    run.rule('WRAP.no-block', 'the queue through which an active object hands live spy/trace lines to the writer thread is unbounded: the hand-over cannot block the chart')
    wc = model.cls('InstrumenationWriterClass', required=False) if 'required' in model.cls.__code__.co_varnames else model.cls('InstrumenationWriterClass')
    n_q = 0
    if wc is not None:
        qattrs = {}
        for f_ in wc.methods.values():
            for st_ in walk_shallow(f_.node):
                if isinstance(st_, ast.Assign) and isinstance(st_.value, ast.Call) and norm(st_.value.func).split('.')[-1] in ('Queue', 'LifoQueue', 'PriorityQueue', 'SimpleQueue'):
                    for t_ in st_.targets:
                        d_ = dotted(t_)
                        if d_ and d_.startswith(f_.params[0] + '.'):
                            qattrs[d_.split('.', 1)[1]] = (f_, st_.value)
        for f_ in wc.methods.values():
            for c_ in shallow_calls(f_.node):
                if isinstance(c_.func, ast.Attribute) and c_.func.attr == 'put' and dotted(c_.func.value) and dotted(c_.func.value).split('.', 1)[-1] in qattrs \
                        and f_.name not in ('stop',):
                    n_q += 1
                    qf, qc = qattrs[dotted(c_.func.value).split('.', 1)[-1]]
                    size = next((kw.value for kw in qc.keywords if kw.arg == 'maxsize'), qc.args[0] if qc.args else None)
                    bounded = size is not None and not (isinstance(size, ast.Constant) and (size.value is None or (isinstance(size.value, int) and size.value <= 0)))
                    nonblock = any(kw.arg == 'block' and isinstance(kw.value, ast.Constant) and kw.value.value is False for kw in c_.keywords)
                    ok = (not bounded) or nonblock
                    run.inst('WRAP.no-block', f_, 'hand-over %s into a queue created as %s' % (norm(c_.func), norm(qc)), ok,
                             '' if ok else ('%s puts every live spy/trace line into a bounded queue (%s) with a blocking put, on the chart\'s own thread: when the live-output consumer is '
                                            'slow, held up or dead, the instrumented chart stalls inside next_rtc after %s lines, while the same chart without live output (or without the '
                                            'spy decorator) runs on' % (f_.qualname, norm(qc), norm(size))), node=c_, obligation=True)
    run.floor('live-output hand-over sites', n_q, 1)
    detect_spy_decoration(run, model)
    run.assume('H4: state handlers cannot reach the processor\'s or the wrappers\' locals')
    run.assume('wrappers registered by users (live callbacks) are outside the quantifier')
