"""C04 An active object dispatches every posted event exactly once, in queue order.

Structural part only (the linearised exactly-once / in-order claim over all interleavings is not decided):
ENDS.post / ENDS.locking : fifo posts reach the back and lifo posts the front of the LockingDeque on every path (through
                           HsmWithQueues.post_* and LockingDeque.append/appendleft), the consumer removes from the front.
CONSUMER.run_event       : each iteration of the thread loop consumes exactly one wake-up token, then takes at most one step,
                           only when the queue is non-empty and its head is not the stop signal; the loop guard re-reads the
                           run flag; one task_done per token.
CONSUMER.next_rtc        : one pop <-> one dispatch of the popped event (shared with C14).
TOKEN.wakeup             : after every add a token was put or `tokens < items` is re-tested (no lost wake-up); puts are
                           guarded; repair loops monotone.
LAYER.step-owner         : of the package's thread roots only the object's own thread (run_event) reaches next_rtc /
                           dispatch / complete_circuit; fabric, timer and writer threads reach only the add methods - so the
                           package never runs two steps of one object at once.
ALIAS.queue              : the queue the thread waits on is the object posts go to (self.queue is bound once, in __init__).
"""
import ast

from sa.boolflow import must_atoms

from sa.model import AnalysisError, walk_shallow, dotted, norm
from sa.util import cfg_of, guarded_by_edge, strip_not, signal_const
from sa.context import callgraph
from sa import queues, threads


def check(run, model, tier):
    run.explanation = ('End-label, path-count, token-guard and thread-root reachability analysis of the active object\'s queue machinery. '
                       'It decides the necessary structure behind "exactly once, in queue order, no lost wake-up, steps never overlap": which '
                       'end every operation touches on every path, one token per wait and at most one step per token, a token or repair test '
                       'after every add, and that no other thread of the package can reach the step function. The token-potential argument '
                       '(tokens - items >= 0 restored by every poster, consumed only with an item) is stated in DESIGN.md, not machine-checked.')
    for r, t in (('ENDS.post', 'post_fifo back / post_lifo front relative to the consumer end'),
                 ('ENDS.locking', 'LockingDeque methods forward to the same-named end on every path'),
                 ('CONSUMER.run_event', 'per loop iteration: one wait, <=1 next_rtc under non-empty and not-stop tests, one task_done; guard reads run flag'),
                 ('CONSUMER.next_rtc', 'one pop <-> one dispatch of the popped event'),
                 ('TOKEN.wakeup', 'guarded puts, repair test after every add, monotone repair loops'),
                 ('LAYER.step-owner', 'only run_event (and the caller) reach next_rtc/dispatch/complete_circuit'),
                 ('ALIAS.queue', 'self.queue bound only in __init__'),
                 ('BOUND.tokens', 'token capacity == deque capacity')):
        run.rule(r, t)
    E = queues.consumer_end(model)
    queues.check_post_ends(run, model, 'ENDS.post', E)
    queues.check_next_rtc(run, model, 'CONSUMER.next_rtc', E)
    queues.check_dispatch_sites(run, model, 'CONSUMER.next_rtc', E)
    queues.check_locking_deque(run, model, 'ENDS.locking', 'TOKEN.wakeup', 'BOUND.tokens', rule_monotone='TOKEN.wakeup', rule_repair='TOKEN.wakeup', rule_lock='TOKEN.wakeup')
    cg = callgraph(model)
    ao = model.cls('ActiveObject')
    hq = model.cls('HsmWithQueues')
    # ---- ActiveObject.post_* untimed branch delegates once to HsmWithQueues.post_*
    from sa import wrap
    for nm in ('post_fifo', 'post_lifo'):
        f = ao.methods.get(nm)
        if f is None:
            raise AnalysisError('ActiveObject.%s not found' % nm)
        g = cfg_of(f)
        run.touch(f, g)
        # the test on `period` that separates the plain post from the timed one (whatever its spelling: which values of period count as "no period" is C10's
        # question): one side delegates exactly once on every path, the other never
        tests = [t for t in g.nodes if t.kind == 'test' and any(isinstance(x, ast.Name) and x.id == 'period' for x in ast.walk(t.ast))]
        if not tests:
            raise AnalysisError('%s: no test on `period` separates the plain post from the timed one' % f.qualname)
        dels = [n for n in g.nodes if wrap.delegation_calls(n, f)]
        verdicts = []
        for t in tests:
            cnts = {}
            for m, l in g.succ[t]:
                cnts[l] = g.count_on_paths(lambda n: len(wrap.delegation_calls(n, f)), start=m)
            verdicts.append((t, cnts))
        good = [v for v in verdicts if sorted(v[1].values()) == [(0, 0), (1, 1)]]
        run.inst('ENDS.post', f, 'one side of the test on `period` delegates exactly once to the queued chart, the other side never', bool(good),
                 '' if good else 'the plain/timed split of %s delegates to HsmWithQueues.%s %s times on the two sides of `%s`: an untimed post is lost or doubled, or a timed post also posts at once'
                 % (nm, nm, verdicts[0][1], norm(verdicts[0][0].ast)), obligation=True)
        for n in dels:
            for c, how in wrap.delegation_calls(n, f):
                args = c.args if how == 'super' else c.args[1:]
                ok = len(args) == 1 and isinstance(args[0], ast.Name) and args[0].id == f.params[1]
                run.inst('ENDS.post', f, 'delegates with its own event', ok, '' if ok else 'delegates with %s' % norm(c), node=c, obligation=True)
    # ---- CONSUMER.run_event
    re_ = ao.methods.get('run_event')
    if re_ is None:
        raise AnalysisError('ActiveObject.run_event not found')
    g = cfg_of(re_)
    run.touch(re_, g)
    selfn = re_.params[0]
    heads = [h for h in g.loop_heads() if h.kind == 'test']
    if len(heads) > 1:
        # the thread loop is the outermost one; what inner loops do to the token/step pairing is judged by the per-iteration counts below
        heads = [h for h in heads if not any(h in g.loop_body(o) for o in heads if o is not h)]
    if len(heads) != 1:
        raise AnalysisError('run_event: expected exactly one outermost while loop, found %d' % len(heads))
    h = heads[0]
    # the spawn site binds the parameters: (run flag, fabric flag, queue)
    spawn = [(f, c) for f, ts, c in cg.spawns if re_ in ts]
    if len(spawn) != 1:
        raise AnalysisError('run_event is not spawned from exactly one site')
    sf, sc = spawn[0]
    sargs = next((kw.value for kw in sc.keywords if kw.arg == 'args'), None)
    if not isinstance(sargs, ast.Tuple) or len(sargs.elts) != len(re_.params) - 1:
        raise AnalysisError('run_event spawn arguments not recognised')
    bind = dict(zip(re_.params[1:], [dotted(a) for a in sargs.elts]))
    flag_p = [p for p, a in bind.items() if a and a.endswith('activeobject_task_event')]
    fab_p = [p for p, a in bind.items() if a and a.endswith('fabric_task_event')]
    q_p = [p for p, a in bind.items() if a and a.endswith('.queue')]
    if not (len(flag_p) == len(fab_p) == len(q_p) == 1):
        raise AnalysisError('run_event parameters (run flag, fabric flag, queue) not identified from the spawn site: %s' % bind)
    flag_p, fab_p, q_p = flag_p[0], fab_p[0], q_p[0]
    inner, pol = strip_not(h.ast)
    ok = isinstance(inner, ast.Call) and isinstance(inner.func, ast.Attribute) and inner.func.attr == 'is_set' and dotted(inner.func.value) == flag_p and pol
    run.inst('CONSUMER.run_event', re_, 'loop guard reads the run flag', ok,
             '' if ok else 'the thread loop guard %s does not re-read the object\'s run flag: stop() cannot end the thread' % norm(h.ast), node=h.ast, obligation=True)
    body = g.loop_body(h)
    start = [m for m, l in g.succ[h] if l == 'true'][0]

    def nodes_calling(recv, meth):
        return [n for n in body if n.kind not in ('entry', 'exit', 'xexit', 'def') and
                any(isinstance(c.func, ast.Attribute) and c.func.attr == meth and dotted(c.func.value) == recv for c in n.calls())]
    waits = nodes_calling(q_p, 'wait') + nodes_calling(q_p, 'get') + nodes_calling(selfn + '.queue', 'wait')
    steps = nodes_calling(selfn, 'next_rtc')
    dones = nodes_calling(q_p, 'task_done') + nodes_calling(selfn + '.queue', 'task_done')
    run.floor('run_event wait sites', len(waits), 1)
    run.floor('run_event step sites', len(steps), 1)
    wc = queues.count(g, waits, start=start, end=h)
    sc_ = queues.count(g, steps, start=start, end=h)
    dc = queues.count(g, dones, start=start, end=h)
    run.inst('CONSUMER.run_event', re_, 'one token consumed per iteration', wc == (1, 1),
             '' if wc == (1, 1) else 'an iteration waits for %s tokens (must be exactly one: tokens and events are paired)' % (wc,), obligation=True)
    run.inst('CONSUMER.run_event', re_, 'at most one step per iteration', sc_ is not None and sc_[1] <= 1 and sc_[0] == 0 or sc_ == (1, 1),
             '' if sc_ and sc_[1] <= 1 else 'an iteration can take %s steps for one token' % (sc_,), obligation=True)
    run.inst('CONSUMER.run_event', re_, 'one task_done per token', dc == (1, 1),
             '' if dc == (1, 1) else 'task_done is called %s times per iteration' % (dc,), obligation=True)
    for s in steps:
        okw = any(g.dominates(w, s) for w in waits)
        run.inst('CONSUMER.run_event', re_, 'the wait dominates the step', okw, 'a step can run without a token having been taken', node=s.ast, obligation=True)
        tests = [t for t in body if t.kind == 'test']
        ne = False
        stop = False
        fab = False
        for t in tests:
            rec, p2 = queues.is_nonempty_test(t.ast, selfn + '.queue')
            if rec and guarded_by_edge(g, s, t, 'true' if p2 else 'false'):
                ne = True
            i2, p2 = strip_not(t.ast)
            if isinstance(i2, ast.Call) and isinstance(i2.func, ast.Attribute) and i2.func.attr == 'is_set' and dotted(i2.func.value) == fab_p \
                    and guarded_by_edge(g, s, t, 'true' if p2 else 'false'):
                fab = True
        atoms = must_atoms(g, s, re_.node, params=re_.params)
        stop = any(op in ('NotEq', 'IsNot') and ('STOP_ACTIVE_OBJECT_SIGNAL' in l or 'STOP_ACTIVE_OBJECT_SIGNAL' in r) for (l, op, r) in atoms)
        # the same three guards when they are folded into one boolean local (`runnable = fabric and non-empty and not stop`)
        for (l_, op_, r_) in atoms:
            e_ = None
            try:
                e_ = ast.parse('%s' % l_, mode='eval').body if op_ in ('Truthy', 'Falsy') else ast.parse('(%s) %s (%s)' % (l_, {'Eq': '==', 'NotEq': '!=', 'Lt': '<', 'LtE': '<=', 'Gt': '>', 'GtE': '>=', 'Is': 'is', 'IsNot': 'is not'}.get(op_, '=='), r_), mode='eval').body
            except SyntaxError:
                continue
            if op_ == 'Falsy':
                e_ = ast.UnaryOp(op=ast.Not(), operand=e_)
            rec_, p2_ = queues.is_nonempty_test(e_, selfn + '.queue')
            if rec_ and p2_:
                ne = True
            if l_ == '%s.is_set()' % fab_p and op_ == 'Truthy':
                fab = True
        run.inst('CONSUMER.run_event', re_, 'step only when the queue is non-empty', ne,
                 '' if ne else 'next_rtc is called without a dominating non-empty test of the queue', node=s.ast, obligation=True)
        run.inst('CONSUMER.run_event', re_, 'step only when the head is not the stop signal', stop,
                 '' if stop else 'the stop signal would be dispatched to the chart', node=s.ast, obligation=True)
        run.inst('CONSUMER.run_event', re_, 'step only while the fabric runs', fab,
                 '' if fab else 'a step can run after the fabric was stopped', node=s.ast, obligation=True)
    n_cl = queues.check_consumer_self_stop(run, 'CONSUMER.run_event', re_, g, flag_p, fab_p, selfn)
    run.floor('run_event self-stop sites', n_cl, 1)
    # ---- LAYER.step-owner
    hq_steps = set()
    for k in [hq] + model.subclasses(hq) + model.mro(hq):
        for nm in ('next_rtc', 'dispatch', 'complete_circuit'):
            f = k.methods.get(nm)
            if f is not None:
                hq_steps.add(f)
                hq_steps.add(cg.entry(f))
    roots = threads.spawn_roots(model, cg)
    run.floor('thread spawn sites', len(cg.spawns), 4)
    for sf, t, c in roots:
        reach = cg.reach([t])
        hit = sorted(x.qualname for x in reach if x in hq_steps)
        if t is re_:
            ok = bool(hit)
            run.inst('LAYER.step-owner', t, 'the object\'s own thread reaches the step function', ok, 'run_event no longer reaches next_rtc', obligation=True)
        else:
            ok = not hit
            run.inst('LAYER.step-owner', t, 'thread root %s cannot reach a step function' % t.qualname, ok,
                     '' if ok else 'thread root %s (spawned in %s) can reach %s: a second thread would run steps of the chart concurrently with its own thread'
                     % (t.qualname, sf.qualname, hit), node=None, obligation=True)
    # ---- ALIAS.queue
    n = 0
    for f in model.all_funcs():
        oc = f.owner_class
        if oc is None or hq not in model.mro(oc):
            continue
        for st in walk_shallow(f.node):
            if isinstance(st, ast.Assign) and any(dotted(t) == (f.params[0] if f.params else 'self') + '.queue' for t in st.targets):
                n += 1
                ok = f.name == '__init__'
                run.inst('ALIAS.queue', f, 'binds self.queue: ' + norm(st), ok,
                         '' if ok else 'self.queue is rebound outside __init__: the thread keeps waiting on the old object while posts go to the new one', node=st, obligation=True)
    run.floor('bindings of self.queue', n, 2)
    run.rule('LAYER.queue-writers', 'only post_fifo/post_lifo, next_rtc, stop() (wake-up item) and the LockingDeque itself operate on the pending-event queue')
    queues.check_queue_writers(run, model, 'LAYER.queue-writers')
    run.rule('ENDS.queue-class', 'the pending and deferral queues are collections.deque objects (or subclasses that redefine none of deque\'s interface)')
    from sa.context import callgraph as _cgq
    queues.check_queue_classes(run, model, _cgq(model), 'ENDS.queue-class')
    run.assume('callers outside the package do not call next_rtc/dispatch of a started active object from their own threads')
    run.assume('H4: handlers do not call dispatch re-entrantly')
