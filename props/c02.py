"""C02 Events bubble outward; handled or ignored events change nothing.

HSM-OUTCOME.search    : the outward search offers the caller's event exactly once per level to the state the cursor points at, re-asks
                        with EMPTY exactly when the answer was UNHANDLED (failed guard) and lets the re-asked answer steer the loop,
                        and leaves exactly when the answer is not SUPER; only handlers move the cursor.
HSM-OUTCOME.no-action : after the search every handler call and the transition machinery lie on the `answer >= TRAN` branch only, and on
                        the other outcomes the stored state is the state the chart was in when the event arrived.
HSM-OUTCOME.top       : the outermost state answers IGNORED to everything and has no effect; overrides delegate to it unless they handle
                        the event themselves.
HSM-CONTENT.O8-offer  : ghost depth on the active chain (zone domain, any nesting depth): offer number n goes to the ancestor of the current
                        state at depth n, and the guard fallback re-asks exactly the state that declined.
HSM-CURSOR.I1         : every method that moves the cursor leaves temp.fun == state.fun, so the search starts at the current state.
HSM-SIGSET            : the signals each processor method may send.
Not decided: what a user's handler returns (runtime).
"""
from sa import hsmrules


def check(run, model, tier):
    run.explanation = ('Shape analysis of the search loop and outcome switch of HsmEventProcessor.dispatch on its CFG (path counts per iteration, '
                       'guards by test polarity, reaching definitions of the offered-to state), effect-freeness of top, and the cursor invariant I1 of '
                       'every method that moves the cursor. For every chart, the processor itself runs no action and changes no state unless a '
                       'handler answered TRAN.')
    run.rule('HSM-OUTCOME.search', 'one offer per level to the cursor state; EMPTY re-ask iff UNHANDLED, its result steers; exit iff answer != SUPER')
    run.rule('HSM-OUTCOME.no-action', 'handler calls and trans_ only under answer >= TRAN; otherwise stored state == state at entry')
    run.rule('HSM-OUTCOME.top', 'top returns IGNORED, no effects; overrides delegate')
    run.rule('HSM-CURSOR.I1', 'temp.fun == state.fun at every normal exit of init/dispatch/is_in/child_state')
    run.rule('HSM-SIGSET', 'signals each processor method may send')
    run.rule('HSM-CONTENT.O8-offer', 'the n-th offer of the event goes to depth n of the active chain (current state, parent, ...); the EMPTY re-ask goes to the state that just declined')
    cc = hsmrules.record_content_obligations(run, model, 'dispatch', cursor_at_entry=False, kinds={'O8-offer'})
    run.floor('offer obligations in dispatch (event offer + guard fallback)', cc['O8-offer'], 2)
    run.rule('REG.per-instance', 'the callback / parent registries (and every other container the chart classes fill through self) belong to the instance, not to the class')
    from sa import ident as _ident
    _ident.check_per_instance_state(run, model, 'REG.per-instance', ['HsmEventProcessor', 'InstrumentedHsmEventProcessor', 'HsmWithQueues', 'ActiveObject', 'Factory'])
    hsmrules.outcome_rules(run, model)
    hsmrules.cursor_invariant(run, model, ['init', 'dispatch', 'is_in', 'child_state'])
    n = hsmrules.signal_sets(run, model, ['dispatch'])
    run.floor('handler-call sites in dispatch', n, 6)
    hsmrules.status_distinct_rule(run, model)
    # the search starts at the current state only if undecorated handlers are never sent a REFLECTION query (they answer it by naming their parent, which moves the cursor):
    # start_at must switch instrumentation off unless the handlers are spy_on wrappers
    from props.c18 import detect_spy_decoration
    detect_spy_decoration(run, model)
    run.assume('H1-H4 handler protocol (see C01); a handler that answers HANDLED/IGNORED/UNHANDLED has not called chart.trans')
    hsmrules.protocol_census(run, model)
