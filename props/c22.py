"""C22 is_in and child_state answer from the active state path and change nothing.

HSM-SIGSET        : both queries send only SEARCH_FOR_SUPER to handlers (no action can run).
HSM-QUERY.effects : their write set is the cursor (temp.fun) alone.
HSM-CURSOR.I1     : the cursor is restored from the state on every normal exit.
HSM-QUERY.walk    : the walk steps outward from the cursor with SUPER only while there is no match, ends when top answers IGNORED
                    or on a match; child_state seeds the cursor from the state.
HSM-QUERY.match   : handlers are compared with ==; the positive answer is set only in the match branch; child is the cursor before
                    the outward step; child_state asserts that the argument was found.
Not decided: child_state fails through `assert`, which vanishes under python -O.
"""
from sa import hsmrules


def check(run, model, tier):
    run.explanation = ('Signal-set, write-set, post-dominance and control-dependence analysis of the two query methods: for every chart and every '
                       'argument they can only walk the parent chain from the cursor, and leave the chart as they found it.')
    run.rule('HSM-SIGSET', 'queries send SUPER only')
    run.rule('HSM-QUERY.effects', 'queries write only temp.fun')
    run.rule('HSM-CURSOR.I1', 'cursor restored from the state at exit')
    run.rule('HSM-QUERY.walk', 'outward SUPER steps from the cursor; end on IGNORED or match')
    run.rule('HSM-QUERY.match', '== comparison; answer set only on a match; child = cursor before the step')
    n = hsmrules.signal_sets(run, model, ['is_in', 'child_state'])
    run.floor('handler-call sites in the queries', n, 2)
    # shape-independent rules first: a finding from them stands even if the walk has been rewritten into a shape
    # the shape-specific rules below do not recognise (they then refuse with ANALYSIS-ERROR instead of guessing)
    hsmrules.cursor_invariant(run, model, ['is_in', 'child_state', 'init', 'dispatch'])
    hsmrules.cursor_restored_on_failure(run, model, ['is_in', 'child_state'])
    hsmrules.query_rules(run, model)
    run.assume('between steps temp.fun == state.fun (I1, established by init and dispatch) so is_in starts at the current state')
    run.assume('H1: SUPER queries run no action')
    hsmrules.protocol_census(run, model)
