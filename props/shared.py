"""Rules that several properties rest on (a regression in one mechanism breaks all of them).  Two ways of sharing:

SHARED   : rule functions defined here, each with its rule id and the properties under which it runs (table at the end of each group of definitions; the driver
           `check` runs them before the property's own module, so that a later refusal of the shape-specific rules cannot hide their findings).
BORROWED : rule ids that live inline in the module of another property; that module's check() is run with a view of the Run (`_Borrow`) that lets only those ids through.

Rules defined here (see DESIGN 9.20, 9.22): TRACK.owner, RING.owners, QUEUE.internals, LIVE.snapshot, BOUND.buffers, TOKEN.pairing, SCAN.pop-on-match, STOP.liveness,
BOOK.outputs-only, HSM-CURSOR.I1 (generators), FACTORY.identity, REG.per-chart, ENDS.recall-guard, SINGLETON.module-binding, ATOMIC.decorator-once, STEP.guard-reset,
HOLDER.per-chart, ORDER.start-path, WRAP.no-lock, ATOMIC.no-memo, PROTO.caller-frame, DESC.no-capture, SPY.accessor-fresh.
"""
import ast

from sa.model import AnalysisError, walk_shallow, dotted, norm
from sa.context import callgraph

# methods that run on the chart's own thread only (the event processor and what handlers call from inside a step); every other public method may be called by any thread
CHART_THREAD = {'dispatch', 'next_rtc', 'start_at', 'recall', 'defer', 'complete_circuit', 'init', 'trans', 'trans_', 'run_event', 'top', 'init_rtc', '__init__'}
FOREIGN_API = {'post_fifo', 'post_lifo', 'publish', 'subscribe', 'cancel_event', 'cancel_events', 'stop', 'clear_spy', 'clear_trace', 'spy', 'trace', 'post_event'}
STEP_METHODS = {'dispatch', 'next_rtc', 'start_at', 'complete_circuit'}
MUTATORS = {'append', 'appendleft', 'extend', 'extendleft', 'clear', 'pop', 'popleft', 'remove', 'insert', 'rotate', 'reverse'}


def tracking_owner(run, model, rule):
    run.rule(rule, 'the deque that tracks the timed sources is created by the constructor (or on first use when missing); no other code replaces or empties it')
    ao = model.cls('ActiveObject')
    n = 0
    for f in [x for x in model.all_funcs() if x.owner_class is ao or (x.owner_class is not None and ao in model.mro(x.owner_class))]:
        if f.name == '__init__' or not f.params:
            continue
        selfn = _self_name(f)
        for st in ast.walk(f.node):
            hit = None
            if isinstance(st, ast.Assign) and any(isinstance(t, ast.Attribute) and t.attr == 'posted_events_queue' for t in st.targets):
                hit = st
            elif isinstance(st, ast.Call) and isinstance(st.func, ast.Attribute) and st.func.attr == 'clear' and isinstance(st.func.value, ast.Attribute) \
                    and st.func.value.attr == 'posted_events_queue':
                hit = st
            if hit is None:
                continue
            n += 1
            ok = _only_when_missing(f.node, hit, 'posted_events_queue')
            run.inst(rule, f, 'the tracking deque is (re)created only when it is missing: ' + norm(hit)[:60], ok,
                     '' if ok else ('%s replaces or empties the deque that tracks the timed sources (%s) although it may hold records of sources that are still running: their threads keep '
                                    'posting, and cancel_event / cancel_events / stop() can no longer find them' % (f.qualname, norm(hit)[:80])), node=hit, obligation=True)
    if n == 0:
        run.inst(rule, ao.methods.get('__init__'), 'no re-creation of the tracking deque outside the constructor', True, obligation=True)


def _self_name(f):
    g = f
    while g is not None:
        if g.cls is not None and g.params:
            return g.params[0]
        g = g.parent
    return f.params[0] if f.params else None


def _only_when_missing(fnode, stmt, attr):
    """stmt lies in the except-handler of `try: self.<attr>` or under `if not hasattr(self, '<attr>')`"""
    for t in ast.walk(fnode):
        if isinstance(t, ast.Try):
            body_is_probe = len(t.body) == 1 and isinstance(t.body[0], ast.Expr) and isinstance(t.body[0].value, ast.Attribute) and t.body[0].value.attr == attr
            if body_is_probe and any(any(x is stmt for x in ast.walk(h)) for h in t.handlers):
                return True
        if isinstance(t, ast.If) and any(x is stmt for b in t.body for x in ast.walk(b)):
            tt = t.test
            neg = False
            while isinstance(tt, ast.UnaryOp) and isinstance(tt.op, ast.Not):
                tt, neg = tt.operand, not neg
            if isinstance(tt, ast.Compare) and len(tt.ops) == 1 and isinstance(tt.comparators[0], ast.Constant) and tt.comparators[0].value is False \
                    and isinstance(tt.ops[0], (ast.Is, ast.Eq)):
                tt, neg = tt.left, not neg
            if neg and isinstance(tt, ast.Call) and isinstance(tt.func, ast.Name) and tt.func.id == 'hasattr' and len(tt.args) == 2 \
                    and isinstance(tt.args[1], ast.Constant) and tt.args[1].value == attr:
                return True
    return False


def _ring(expr):
    d = dotted(expr)
    if d:
        for r in ('rtc.spy', 'rtc.tuples'):
            if d.endswith('.' + r):
                return r
    return None


def _contexts(model):
    """function -> set of method names it runs under: its own name for methods, the names of the methods a decorator factory is applied to for wrappers (through nesting)"""
    cg = callgraph(model)
    under = {}
    for a in cg.applications:
        under.setdefault(a.inner, set()).add(a.raw.name)
    out = {}
    callers = {}
    for f in model.all_funcs():
        for c in ast.walk(f.node):
            if isinstance(c, ast.Call) and isinstance(c.func, ast.Attribute) and isinstance(c.func.value, ast.Name):
                callers.setdefault(c.func.attr, set()).add(f)
    for f in model.all_funcs():
        g, names = f, set()
        while g is not None:
            if g in under:
                names |= under[g]
            if g.cls is not None and g not in cg.factories:
                names.add(g.name)
            if g.parent is None and g.cls is None and g.name == 'spy_on':
                names.add('dispatch')          # handlers run inside steps
            g = g.parent
        out[f] = names
    # a plain helper method that the package calls only from chart-thread code runs on the chart's thread too (unless it is part of the API other threads use)
    for _ in range(3):
        for f in model.all_funcs():
            if f.cls is not None and f not in cg.factories and f.name not in FOREIGN_API and f.name not in CHART_THREAD and callers.get(f.name):
                cs = [c for c in callers[f.name] if c is not f]
                if cs and all(out.get(c) and out[c] <= CHART_THREAD for c in cs):
                    out[f] = set().union(*[out[c] for c in cs])
    return out


def ring_owners(run, model, rule):
    run.rule(rule, 'the step buffers rtc.spy / rtc.tuples: cleared or rebuilt only by the step wrappers and constructors; a buffer the chart\'s thread iterates directly is written '
                   'only on the chart\'s thread (posts, publishes, subscribes and clear_* come from other threads)')
    ctx = _contexts(model)
    cg = callgraph(model)
    live = {}        # ring -> [(func, node)]
    writers = {}     # ring -> [(func, node, kind)]
    for f in model.all_funcs():
        if f.module.name not in ('hsm', 'activeobject'):
            continue
        rebuilds = [c for c in walk_shallow(f.node) if isinstance(c, ast.Call) and isinstance(c.func, ast.Attribute) and c.func.attr == 'init_rtc']
        for n in walk_shallow(f.node):
            if isinstance(n, ast.For) and _ring(n.iter):
                live.setdefault(_ring(n.iter), []).append((f, n))
            elif isinstance(n, (ast.ListComp, ast.GeneratorExp, ast.SetComp, ast.DictComp)):
                for g_ in n.generators:
                    if _ring(g_.iter):
                        live.setdefault(_ring(g_.iter), []).append((f, n))
            elif isinstance(n, ast.Call) and isinstance(n.func, ast.Attribute) and n.func.attr in MUTATORS and _ring(n.func.value):
                writers.setdefault(_ring(n.func.value), []).append((f, n, n.func.attr))
            elif isinstance(n, ast.Assign):
                for t in n.targets:
                    if _ring(t):
                        writers.setdefault(_ring(t), []).append((f, n, 'rebuild'))
        if f.name != 'init_rtc':
            for c in rebuilds:
                for r in ('rtc.spy', 'rtc.tuples'):
                    writers.setdefault(r, []).append((f, c, 'rebuild'))

    def foreign(f):
        names = ctx.get(f, set())
        return bool(names) and not names <= CHART_THREAD
    n_inst = 0
    for r in ('rtc.spy', 'rtc.tuples'):
        for f, node, kind in writers.get(r, []):
            # (1) clearing / rebuilding the buffer of the step in progress
            if kind in ('clear', 'rebuild') and f.name not in ('init_rtc', '__init__'):
                names = ctx.get(f, set())
                ok = bool(names) and names <= CHART_THREAD
                n_inst += 1
                run.inst(rule, f, '%s is %s only by a step wrapper: %s' % (r, 'cleared' if kind == 'clear' else 'rebuilt', norm(node)[:50]), ok,
                         '' if ok else ('%s %s %s (%s): that method can be called while a step is in progress - from a handler of the step, or from another thread - and the lines / tuples '
                                        'the step has produced so far are gone: they never reach the full spy, the live output or the trace record of the step'
                                        % (f.qualname, 'clears' if kind == 'clear' else 'rebuilds', r, norm(node)[:60])), node=node, obligation=True)
            # (2) a writer on another thread while the chart's thread iterates the buffer itself
            if foreign(f) and live.get(r):
                lf, ln = live[r][0]
                n_inst += 1
                run.inst(rule, f, '%s, iterated directly by %s, has no writer on other threads: %s' % (r, lf.name, norm(node)[:50]), False,
                         '%s modifies %s (%s) and runs under %s, which other threads call; %s iterates that deque directly (%s): a post that lands during the loop raises '
                         '"RuntimeError: deque mutated during iteration" on the chart\'s thread - an active object\'s thread dies with its queue still full'
                         % (f.qualname, r, norm(node)[:50], sorted(ctx.get(f, set()) - CHART_THREAD), lf.qualname, norm(ln.iter if isinstance(ln, ast.For) else ln)[:50]), node=node, obligation=True)
    run.inst(rule, model.func('hsm.spy_on'), 'ring writers and direct iterations inventoried (%d writers, %d direct loops)' % (sum(len(v) for v in writers.values()), sum(len(v) for v in live.values())),
             True, nontrivial=True)
    run.floor('writers of the step buffers', sum(len(v) for v in writers.values()), 6)


def queue_internals(run, model, rule):
    run.rule(rule, 'the bookkeeping of the queue.Queue objects (unfinished_tasks, all_tasks_done, the heap list of a PriorityQueue) is changed only through put/get/task_done and clear()')
    bad = []
    for f in model.all_funcs():
        for n in ast.walk(f.node):
            if isinstance(n, ast.Attribute) and n.attr == 'unfinished_tasks' and isinstance(n.ctx, (ast.Store, ast.Del)):
                # taking the items that are being dropped off the count (`-= len(q.queue)`, `= q.unfinished_tasks - dropped`) keeps the item a thread holds counted
                relative = False
                for st_ in ast.walk(f.node):
                    if isinstance(st_, ast.AugAssign) and st_.target is n and isinstance(st_.op, ast.Sub):
                        relative = True
                    if isinstance(st_, ast.Assign) and any(t_ is n for t_ in st_.targets) and any(isinstance(y_, ast.Attribute) and y_.attr == 'unfinished_tasks' and isinstance(y_.ctx, ast.Load)
                                                                                              for y_ in ast.walk(st_.value)):
                        relative = True
                if relative:
                    continue
                bad.append((f, n, 'sets the count of unfinished tasks itself: a delivery thread that holds an item at that moment calls task_done() once more than the count allows - '
                                  'ValueError ends the thread, and every later publication of that kind is delivered to nobody'))
            elif isinstance(n, ast.AugAssign) and isinstance(n.target, ast.Attribute) and n.target.attr == 'unfinished_tasks':
                pass        # covered by the Store above
            elif isinstance(n, ast.Call) and isinstance(n.func, ast.Attribute) and n.func.attr in ('remove', 'insert', 'pop', 'sort', 'reverse', 'append', 'extend', '__setitem__', '__delitem__') \
                    and isinstance(n.func.value, ast.Attribute) and n.func.value.attr == 'queue' and 'queue' in (dotted(n.func.value.value) or '').lower():
                bad.append((f, n, 'edits the item list of a queue object with list.%s: for the fabric\'s PriorityQueue that list is a heap, and removing or inserting an element in the '
                                  'middle breaks the heap order - the items still waiting come out in the wrong priority / publication order' % n.func.attr))
            elif isinstance(n, (ast.Subscript,)) and isinstance(n.ctx, (ast.Store, ast.Del)) and isinstance(n.value, ast.Attribute) and n.value.attr == 'queue' \
                    and 'queue' in (dotted(n.value.value) or '').lower():
                bad.append((f, n, 'stores into / deletes from the item list of a queue object by index: for the fabric\'s PriorityQueue that list is a heap'))
    for f, n, why in bad:
        run.inst(rule, f, 'queue bookkeeping left to the queue: ' + norm(n)[:60], False, '%s %s' % (f.qualname, why), node=n, obligation=True)
    if not bad:
        run.inst(rule, model.func('activeobject.ActiveFabricSource.clear') if hasattr(model, 'func') else None, 'no code edits unfinished_tasks or a queue\'s item list in place', True, obligation=True)


def live_snapshot(run, model, rule):
    """the live-output wrappers run on the active object's thread after every step: they iterate a snapshot of the step log (posts from other threads append to it)"""
    from props.c21 import live_spy_loops
    cg = callgraph(model)
    run.rule(rule, 'live-output wrappers iterate a snapshot of the step log, once per line, after the step (other threads append to it: iterating the deque itself raises on '
                   'the object\'s thread and ends it)')
    live_spy_loops(run, model, cg, {f.name: f for f in cg.factories}, rule=rule)


def buffer_bounds(run, model, rule):
    """every deque is bounded by the object's own class constant, and the LockingDeque's token queue has the capacity of its deque"""
    from sa import queues
    run.rule(rule, 'every deque of the package is bounded by the object\'s own class constant; a wake-up token queue has the capacity of the deque it mirrors')
    queues.check_bounds(run, model, rule)
    queues.check_locking_deque(run, model, rule, None, rule)


def token_pairing(run, model, rule):
    from sa import queues
    run.rule(rule, 'the consumer thread takes one wake-up token and at most one event per iteration: "token queue full" means "deque full"')
    queues.token_pairing(run, model, callgraph(model), rule)


def tracking_pop_on_match(run, model, rule):
    """cancel_event / cancel_events take a record out of the tracking deque only once it has matched: a record that is popped first and put back when it does not match
    makes the deque one short while it is compared - a timed post on another thread sees room that is not there, is admitted, and its record then evicts another"""
    from sa.util import cfg_of, guarded_by_edge
    run.rule(rule, 'a record leaves the tracking deque only on the matched branch of the cancel scan (no pop-then-put-back: the deque must never be transiently short)')
    ao = model.cls('ActiveObject')
    n = 0
    for nm in ('cancel_event', 'cancel_events'):
        f = ao.methods.get(nm)
        if f is None:
            raise AnalysisError('ActiveObject.%s not found' % nm)
        g = cfg_of(f)
        tests = [t for t in g.nodes if t.kind == 'test' and any(isinstance(x, ast.Compare) and any(isinstance(y, ast.Attribute) and y.attr in ('uuid', 'signal_name', 'thread_id') for y in ast.walk(x))
                                                                 or (isinstance(x, ast.Compare) and any(isinstance(y, ast.Name) and y.id in f.params[1:] for y in ast.walk(x)))
                                                                 for x in ast.walk(t.ast))]
        for node in g.nodes:
            if node.kind in ('entry', 'exit', 'xexit', 'def'):
                continue
            for c in node.calls():
                if isinstance(c.func, ast.Attribute) and c.func.attr in ('pop', 'popleft', 'remove', 'clear') and (dotted(c.func.value) or '').endswith('.posted_events_queue'):
                    n += 1
                    ok = any(guarded_by_edge(g, node, t, lab) for t in tests for lab in ('true', 'false'))
                    run.inst(rule, f, 'removal from the tracking deque is decided by the match test: ' + norm(c)[:50], ok,
                             '' if ok else ('%s takes a record out of the tracking deque (%s) before it is compared: until it is put back the deque is one record short, a timed post made '
                                            'by another thread at that moment passes the admission test although the object tracks its maximum, its source starts, and the put-back '
                                            'then evicts a record' % (f.qualname, norm(c)[:50])), node=c, obligation=True)
    if n == 0:
        run.note('the cancel scans remove no record through pop/popleft/remove on the tracking deque itself: SCAN.pop-on-match has no instance')


def thread_liveness(run, model, rule):
    """`__thread_running()` decides whether start_at builds a new thread, whether subscribe/publish go to the fabric directly, and what stop() waits for: it must say
    "running" for as long as the object's thread is alive - also for a thread that has been asked to stop and is finishing its step"""
    from sa import pureeval
    run.rule(rule, 'the "is my thread running" predicate is true exactly while the thread object exists and is alive, whatever the run flag says (evaluated over thread x flag states)')
    ao = model.cls('ActiveObject')
    cands = [f for k, f in ao.methods.items() if 'thread_running' in k]
    if len(cands) != 1:
        run.note('no single "thread running" predicate method in ActiveObject (%d candidates): the liveness rule has nothing to evaluate' % len(cands))
        return
    f = cands[0]
    bad = None
    n = 0
    try:
        for thread in (None, 'alive', 'dead'):
            for flag in (True, False):
                t = None if thread is None else pureeval.Obj(is_alive=(lambda v=(thread == 'alive'): v))
                chart = pureeval.Obj(thread=t, activeobject_task_event=pureeval.Obj(is_set=(lambda v=flag: v)), name='ao')
                try:
                    got = pureeval.call(f.node, [chart], globals_=pureeval.module_constants(model, f.module), strict_locals=True)
                except pureeval.Raised as ex:
                    got = 'raises ' + ex.what
                want = thread == 'alive'
                n += 1
                if got is not want and bad is None:
                    bad = (thread, flag, got, want)
    except AnalysisError as ex:
        raise AnalysisError('%s cannot be followed by the evaluator (%s)' % (f.qualname, ex))
    run.inst(rule, f, '%s() over %d thread/flag states' % (f.name, n), bad is None,
             '' if bad is None else ('with the thread %s and the run flag %s %s() answers %r, expected %r: a thread that was told to stop but is still inside its step counts as '
                                     '"not running" - a start_at() at that moment builds a second thread (two threads step the chart, and the one stop() joins is not the old one), '
                                     'subscribe/publish are queued as meta events nobody will process' % (bad[0] or 'missing', 'set' if bad[1] else 'cleared', f.name, bad[2], bad[3])),
             obligation=True)


def book_fields_unread(run, model, rule):
    """state_name / state_fn are written by the spy wrapper on *every* handler call - offers, SUPER queries of is_in/child_state, REFLECTION - and set right again by
    dispatch/start_at at the end of a step: between those points they name whatever handler ran last.  They are outputs for the user; no code of the package may
    take them for "the current state" or "the state that is running"."""
    run.rule(rule, 'state_name / state_fn are outputs: nothing in the package reads them (the spy wrapper overwrites them on every handler call, including the queries)')
    n = 0
    from sa.normalise import baseline_names
    known = baseline_names()
    refs = {}
    for g_ in model.all_funcs():
        for y in ast.walk(g_.node):
            if isinstance(y, ast.Attribute):
                refs[y.attr] = refs.get(y.attr, 0) + 1
            elif isinstance(y, ast.Name):
                refs[y.id] = refs.get(y.id, 0) + 1
    for f in model.all_funcs():
        top_ = f
        while top_.parent is not None:
            top_ = top_.parent
        if top_.qualname not in known and not refs.get(top_.name):
            continue        # a new observer nothing in the package calls (describe(), a read-only property): what it shows the user is the user's business
        # a value that is only parked in a local nobody reads (what is left of a statistics call the normaliser dropped) influences nothing
        dead_values = set()
        # (loads in the test of a conditional whose branches hold nothing but `pass` - what stripping leaves of `if a is not b: self.stat += 1` - do not count)
        idle_ = set()
        for i_ in ast.walk(f.node):
            if isinstance(i_, ast.If) and all(isinstance(b_, ast.Pass) for b_ in i_.body + i_.orelse):
                idle_.update(id(y) for y in ast.walk(i_.test))
        loads_ = {y.id for y in ast.walk(f.node) if isinstance(y, ast.Name) and isinstance(y.ctx, ast.Load) and id(y) not in idle_}
        for st in walk_shallow(f.node):
            if isinstance(st, ast.Assign) and len(st.targets) == 1 and isinstance(st.targets[0], ast.Name) and st.targets[0].id not in loads_:
                dead_values.update(id(y) for y in ast.walk(st.value))
        for x in walk_shallow(f.node):
            if id(x) in dead_values:
                continue
            if isinstance(x, ast.Attribute) and x.attr in ('state_name', 'state_fn') and isinstance(x.ctx, ast.Load):
                n += 1
                run.inst(rule, f, 'no read of %s in the package' % x.attr, False,
                         '%s reads %s: that field names the handler the spy wrapper saw last - after an is_in()/child_state() query, a guard that asked is_in(), or any SUPER search it is '
                         'an enclosing state, not the current (or the running) one; what is computed from it (a parent for the outward search, the states of a trace record) is '
                         'then wrong' % (f.qualname, norm(x)), node=x, obligation=True)
            elif isinstance(x, ast.Call) and isinstance(x.func, ast.Name) and x.func.id == 'getattr' and len(x.args) >= 2 and isinstance(x.args[1], ast.Constant) \
                    and x.args[1].value in ('state_name', 'state_fn'):
                n += 1
                run.inst(rule, f, 'no read of %s in the package' % x.args[1].value, False, '%s reads %s through getattr' % (f.qualname, x.args[1].value), node=x, obligation=True)
    if n == 0:
        run.inst(rule, model.func('hsm.spy_on'), 'state_name / state_fn are written only', True, obligation=True)


def cursor_not_across_yield(run, model, rule):
    """I1 (between steps the search cursor temp.fun equals state.fun) is what dispatch starts from.  A *generator* that moves the cursor and hands control back to its
    consumer in between cannot promise to put it back: code after the loop of a generator does not run when the consumer stops early (break, any() short-circuit,
    an exception in the consumer)."""
    run.rule(rule, 'no generator moves the search cursor across a yield unless a try/finally around the yield restores it from state.fun')
    n = 0
    for f in model.all_funcs():
        if f.module.name != 'hsm':
            continue
        yields = [y for y in walk_shallow(f.node) if isinstance(y, (ast.Yield, ast.YieldFrom))]
        if not yields:
            continue
        moves = [c for c in walk_shallow(f.node) if (isinstance(c, ast.Call) and (dotted(c.func) or '').endswith('.temp.fun'))
                 or (isinstance(c, ast.Assign) and any((dotted(t) or '').endswith('.temp.fun') for t in c.targets))]
        if not moves:
            continue
        for y in yields:
            n += 1
            protected = False
            for t in walk_shallow(f.node):
                if isinstance(t, ast.Try) and t.finalbody and any(x is y for b in t.body for x in ast.walk(b)):
                    if any(isinstance(a, ast.Assign) and any((dotted(tg) or '').endswith('.temp.fun') for tg in a.targets) and (dotted(a.value) or '').endswith('.state.fun')
                           for b in t.finalbody for a in ast.walk(b)):
                        protected = True
            run.inst(rule, f, 'the cursor is restored even when the consumer of the generator stops early', protected,
                     '' if protected else ('%s is a generator that moves the search cursor (%s) and yields in between; the statement that puts the cursor back runs only when the generator '
                                           'is exhausted. A consumer that stops early - any() on the first match, a break - leaves temp.fun on an enclosing state between steps, and the next '
                                           'dispatch starts its search for the handling state there: inner states are skipped, the event is dropped or taken from an outer state with the '
                                           'wrong exits' % (f.qualname, norm(moves[0])[:50])), node=y, obligation=True)
    if n == 0:
        run.inst(rule, model.func('hsm.HsmEventProcessor.dispatch'), 'no generator in the processor moves the cursor', True, obligation=True)


def factory_identity(run, model, rule):
    """Factory.start_at accepts a state by name or as the state method itself.  A method object is the state: the processor finds its way by handler identity, and
    create(state=<same name>) builds a *new* method object, so looking a method up again by its __name__ can hand the processor a look-alike."""
    from sa import pureeval
    run.rule(rule, 'Factory.start_at passes a state given as a method object on unchanged and translates only names (evaluated with a registered look-alike of the same name)')
    fa = model.cls('Factory')
    f = fa.methods.get('start_at')
    if f is None:
        raise AnalysisError('Factory.start_at not found')
    helpers = {k: m.node for k, m in fa.methods.items() if k not in ('start_at', '__init__')}
    bad = None
    try:
        for kind in ('method with a registered name', 'method with an unregistered name', 'name'):
            registered = pureeval.Obj(__name__='s_registered')
            table = {'s_registered': pureeval.Obj(state_method=registered)}
            got = []
            base = pureeval.Obj(start_at=lambda x: got.append(x))
            chart = pureeval.Obj(states=table, top=pureeval.Obj(__name__='top'), name='f', __world__=True)
            if kind == 'name':
                arg, want = 's_registered', registered
            elif kind == 'method with a registered name':
                arg = pureeval.Obj(__name__='s_registered')
                want = arg
            else:
                arg = pureeval.Obj(__name__='hand_written')
                want = arg
            try:
                pureeval.call(f.node, [chart, arg], globals_=dict(pureeval.module_constants(model, f.module), super=lambda: base), mutable=True, methods=helpers, strict_locals=True)
            except pureeval.Raised as ex:
                got = ['raises ' + ex.what]
            if not (len(got) == 1 and got[0] is want) and bad is None:
                bad = (kind, 'the very object it was given' if got and got[0] is arg else ('the registered look-alike' if got and got[0] is registered else repr(got)))
    except AnalysisError as ex:
        raise AnalysisError('Factory.start_at cannot be followed by the evaluator (%s)' % ex)
    run.inst(rule, f, 'start_at(<state>) starts the processor at the state it was given', bad is None,
             '' if bad is None else ('Factory.start_at given a %s hands the processor %s: a state method whose name has been registered again (create(state=<same name>) after nest()) is '
                                     'replaced by the newer object of that name; the parent walk of init() ends by identity and never meets it, climbs to top and raises '
                                     'HsmTopologyException - or enters the wrong object' % bad), obligation=True)


def no_shared_class_containers(run, model, rule):
    """a mutable container bound in a class body is one object for all instances; `self.X[k] = v` / `self.X.append(v)` through an instance writes into it unless
    the instance has bound its own first - and a lazy `if not hasattr(self, 'X'): self.X = {}` never does once the class has the name"""
    run.rule(rule, 'no class of the package binds a mutable container at class level that its methods then fill through an instance (per-chart registries stay per chart)')
    n = 0
    for k in model.classes.values():
        if k.module.name not in ('hsm', 'activeobject', 'event'):
            continue
        for st in k.node.body:
            if not (isinstance(st, ast.Assign) and len(st.targets) == 1 and isinstance(st.targets[0], ast.Name)):
                continue
            v = st.value
            mutable = isinstance(v, (ast.Dict, ast.List, ast.Set)) or (isinstance(v, ast.Call) and isinstance(v.func, ast.Name) and
                                                                         v.func.id in ('dict', 'list', 'set', 'deque', 'OrderedDict', 'defaultdict', 'Counter'))
            if not mutable:
                continue
            name = st.targets[0].id
            sites = []
            for c in model.classes.values():
                if k not in model.mro(c):
                    continue
                for m in c.methods.values():
                    if not m.params:
                        continue
                    for x in ast.walk(m.node):
                        if isinstance(x, ast.Subscript) and isinstance(x.ctx, (ast.Store, ast.Del)) and dotted(x.value) == m.params[0] + '.' + name:
                            sites.append((m, x))
                        elif isinstance(x, ast.Call) and isinstance(x.func, ast.Attribute) and x.func.attr in ('append', 'update', 'setdefault', 'add', 'extend', 'pop', 'clear', 'insert') \
                                and dotted(x.func.value) == m.params[0] + '.' + name:
                            sites.append((m, x))
            if sites:
                n += 1
                m, x = sites[0]
                run.inst(rule, m, 'class-level container %s.%s is not filled through instances' % (k.name, name), False,
                         'class %s binds %s = %s in its body and %s fills it through the instance (%s): every chart of the class (and of its subclasses) writes into the one shared '
                         'object - a second chart that registers a state of the same name re-parents / re-wires the first chart\'s states' % (k.name, name, norm(v), m.qualname, norm(x)[:60]),
                         node=st, obligation=True)
    if n == 0:
        run.inst(rule, model.func('hsm.spy_on'), 'no class-level container is filled through an instance', True, obligation=True)


def recall_unconditional(run, model, rule):
    """recall() with something deferred always recalls: the spy wrapper writes its RECALL marker on "defer queue not empty" alone, and a chart that defers relies on
    getting its oldest deferred event back when it asks"""
    from sa.util import cfg_of
    from sa.boolflow import must_atoms
    run.rule(rule, 'recall() removes and re-posts the oldest deferred event under no other condition than "something is deferred"')
    hq = model.cls('HsmWithQueues')
    f = hq.methods.get('recall')
    if f is None:
        raise AnalysisError('HsmWithQueues.recall not found')
    g = cfg_of(f)
    dq = f.params[0] + '.defer_queue'
    n = 0
    for node in g.nodes:
        if node.kind in ('entry', 'exit', 'xexit', 'def'):
            continue
        for c in node.calls():
            if isinstance(c.func, ast.Attribute) and c.func.attr in ('popleft', 'pop') and dotted(c.func.value) == dq:
                n += 1
                extra = []
                for (l_, op_, r_) in must_atoms(g, node, f.node, params=f.params):
                    if l_ in ('len(%s)' % dq, dq) and (op_ == 'Truthy' or (op_ in ('NotEq', 'Gt') and r_ == '0') or (op_ == 'GtE' and r_ == '1')):
                        continue
                    if r_ in ('len(%s)' % dq,) and ((op_ in ('NotEq', 'Lt') and l_ == '0') or (op_ == 'LtE' and l_ == '1')):
                        continue
                    extra.append('%s %s %s' % (l_, op_, r_))
                run.inst(rule, f, 'the removal depends only on "something is deferred"', not extra,
                         '' if not extra else ('recall() takes the deferred event back only if also %s: when that does not hold the RECALL marker of the step is logged (its wrapper looks at '
                                               'the defer queue alone) but nothing is recalled or posted - the spy log records an operation the processor did not perform, and the event '
                                               'stays deferred' % '; '.join(sorted(extra))), node=c, obligation=True)
    run.floor('removals from the defer queue in recall()', n, 1)


def singleton_module_bindings(run, model, rule):
    """`signals = Signal()` at module level runs again when the module is executed again (importlib.reload, an autoreloader): Signal is then a *new* decorator with an
    empty slot, and the name would be bound to a second registry while everything imported earlier keeps the first.  The package guards these bindings."""
    run.rule(rule, 'a module-level name bound to a singleton (signals, return_status) is bound only when the module does not have it yet (re-execution of the module keeps the instance)')
    n = 0
    for m in model.modules.values():
        factories = {st.targets[0].id for st in m.tree.body if isinstance(st, ast.Assign) and len(st.targets) == 1 and isinstance(st.targets[0], ast.Name)
                     and isinstance(st.value, ast.Call) and norm(st.value.func).split('.')[-1] == 'SingletonDecorator'}
        if not factories:
            continue

        def scan(stmts, guarded):
            nonlocal n
            for st in stmts:
                if isinstance(st, ast.If):
                    scan(st.body, True)
                    scan(st.orelse, True)
                elif isinstance(st, ast.Try):
                    scan(st.body, True)
                    for h in st.handlers:
                        scan(h.body, True)
                elif isinstance(st, ast.Assign) and isinstance(st.value, ast.Call) and isinstance(st.value.func, ast.Name) and st.value.func.id in factories:
                    n += 1
                    run.inst(rule, m.name, 'module-level singleton binding %s is conditional on the name being absent' % norm(st)[:50], guarded,
                             '' if guarded else ('%s executes `%s` unconditionally at module level: when the module is executed again (importlib.reload, an autoreloading shell) %s is a '
                                                 'fresh decorator whose slot is empty, a second instance is built and bound here, while miros.%s, the other modules and user code keep the '
                                                 'first - names registered in one are unknown in the other and numbers no longer agree'
                                                 % (m.name, norm(st), st.value.func.id, st.targets[0].id if isinstance(st.targets[0], ast.Name) else '?')), node=st, obligation=True)
        scan(m.tree.body, False)
    run.floor('module-level singleton bindings', n, 2)


def singleton_decorator_once(run, model, rule):
    run.rule(rule, 'every SingletonDecorator object is initialised once: no __new__ that hands out an existing decorator (its __init__ would run again and empty the slot)')
    k = model.cls('SingletonDecorator')
    nw = k.methods.get('__new__')
    bad = None
    if nw is not None:
        for r in walk_shallow(nw.node):
            if isinstance(r, ast.Return) and r.value is not None:
                v = r.value
                if not (isinstance(v, ast.Call) and isinstance(v.func, ast.Attribute) and v.func.attr == '__new__'):
                    bad = r
    run.inst(rule, nw if nw is not None else k.methods.get('__init__'), 'construction of a decorator always yields a fresh object', bad is None,
             '' if bad is None else ('SingletonDecorator.__new__ can return an object that already exists (%s); python then runs __init__ on it again, which sets the cached instance back '
                                     'to None and replaces the lock - also under a thread that is inside the critical section: the next request builds a second "singleton"'
                                     % norm(bad)), node=bad, obligation=True)


SHARED = {
    'singleton_module_bindings': (singleton_module_bindings, 'SINGLETON.module-binding', ('C25', 'C26', 'C30')),
    'singleton_decorator_once': (singleton_decorator_once, 'ATOMIC.decorator-once', ('C30',)),
    'recall_unconditional': (recall_unconditional, 'ENDS.recall-guard', ('C15', 'C19')),
    'no_shared_class_containers': (no_shared_class_containers, 'REG.per-chart', ('C17',)),
    'factory_identity': (factory_identity, 'FACTORY.identity', ('C03', 'C17')),
    'cursor_not_across_yield': (cursor_not_across_yield, 'HSM-CURSOR.I1', ('C01', 'C02', 'C03', 'C22')),
    'book_fields_unread': (book_fields_unread, 'BOOK.outputs-only', ('C02', 'C17', 'C18', 'C20', 'C22', 'C23')),
    'thread_liveness': (thread_liveness, 'STOP.liveness', ('C12', 'C07')),
    'live_snapshot': (live_snapshot, 'LIVE.snapshot', ('C04', 'C05', 'C07', 'C09', 'C12')),
    'buffer_bounds': (buffer_bounds, 'BOUND.buffers', ('C13', 'C15')),
    'token_pairing': (token_pairing, 'TOKEN.pairing', ('C16',)),
    'tracking_pop_on_match': (tracking_pop_on_match, 'SCAN.pop-on-match', ('C31',)),
    'tracking_owner': (tracking_owner, 'TRACK.owner', ('C11', 'C12', 'C31')),
    'ring_owners': (ring_owners, 'RING.owners', ('C04', 'C05', 'C07', 'C09', 'C10', 'C11', 'C12', 'C18', 'C19', 'C20', 'C21', 'C31')),
    'queue_internals': (queue_internals, 'QUEUE.internals', ('C06', 'C07', 'C08', 'C09', 'C13')),
}


def guard_reset(run, model, rule):
    """a flag that is set before a step (a wrapped call, dispatch, next_rtc, a yield of a context manager), cleared after it and tested to refuse or skip work must be
    cleared in a `finally`: an exception raised by a user handler inside the step - which the caller may catch, going on to use the chart - otherwise leaves the flag set
    for the life of the object"""
    run.rule(rule, 'a guard flag set around a step and tested elsewhere is cleared in a finally block (a handler that raises must not leave it set for good)')
    n = 0
    tested = set()
    for f in model.all_funcs():
        for t in ast.walk(f.node):
            if isinstance(t, (ast.If, ast.While)):
                for x in ast.walk(t.test):
                    if isinstance(x, ast.Attribute) and isinstance(x.ctx, ast.Load):
                        tested.add(x.attr)
    for f in model.all_funcs():
        if f.module.name not in ('hsm', 'activeobject'):
            continue
        for node in ast.walk(f.node):
            for fld in ('body', 'orelse'):
                blk = getattr(node, fld, None)
                if not (isinstance(blk, list) and blk and all(isinstance(x, ast.stmt) for x in blk)) or (isinstance(node, ast.Try) and fld == 'finalbody'):
                    continue
                sets = {}
                for i, st in enumerate(blk):
                    if isinstance(st, ast.Assign) and len(st.targets) == 1 and isinstance(st.targets[0], ast.Attribute) and isinstance(st.value, ast.Constant) \
                            and isinstance(st.value.value, bool):
                        a = st.targets[0].attr
                        if st.value.value is True:
                            sets[a] = i
                        elif a in sets and a in tested:
                            between = blk[sets[a] + 1:i]
                            risky = [c for b in between for c in ast.walk(b) if isinstance(c, (ast.Call, ast.Yield, ast.YieldFrom))]
                            if risky:
                                n += 1
                                run.inst(rule, f, 'guard flag %s is cleared in a finally' % a, False,
                                         '%s sets %s, runs %s and clears the flag afterwards in straight-line code: if that step raises (a user handler fails, the processor reports '
                                         'an impossible chart) the flag stays set; every later step that tests it refuses or skips its work - events stay queued, transitions are '
                                         'not made, or a misleading error is raised - for the rest of the object\'s life' % (f.qualname, norm(st.targets[0]), norm(risky[0])[:50]),
                                         node=st, obligation=True)
                            sets.pop(a, None)
    if n == 0:
        run.inst(rule, model.func('hsm.HsmEventProcessor.dispatch'), 'no guard flag is set and cleared around a step in straight-line code', True, obligation=True)


SHARED['guard_reset'] = (guard_reset, 'STEP.guard-reset', ('C01', 'C02', 'C03', 'C04', 'C14', 'C15', 'C24'))


def holders_per_chart(run, model, rule):
    """`self.event`, `self.state`, `self.temp` are small per-chart holder objects made by the constructor: the processor and its wrappers read and write their fields.
    Re-binding one of them to something shared (the dispatched Event object, which the fabric hands to every subscriber) or to per-thread storage changes who sees what."""
    run.rule(rule, 'the per-chart holders event / state / temp are bound to a fresh Attribute() by constructors (or when missing) only: never to the dispatched event, never to thread-local storage')
    n = 0
    hep = model.cls('HsmEventProcessor')
    for f in model.all_funcs():
        if f.module.name != 'hsm' or not f.params or f.owner_class is None or hep not in model.mro(f.owner_class):
            continue
        for st in walk_shallow(f.node):
            if isinstance(st, ast.Assign) and len(st.targets) == 1 and isinstance(st.targets[0], ast.Attribute) and st.targets[0].attr in ('event', 'state', 'temp') \
                    and isinstance(st.targets[0].value, ast.Name) and st.targets[0].value.id == f.params[0]:
                v = st.value
                fresh = isinstance(v, ast.Call) and norm(v.func).split('.')[-1] == 'Attribute' and not v.args
                n += 1
                if not fresh:
                    what = 'a parameter of the call' if isinstance(v, ast.Name) and v.id in f.params else norm(v)
                    run.inst(rule, f, 'holder %s stays a per-chart Attribute()' % st.targets[0].attr, False,
                             '%s binds the chart\'s %s holder to %s: the fields the processor keeps there (event.ignored, the search cursor temp.fun, state.fun) then live on an object '
                             'other charts or other threads share or do not see - a chart that ignores a published event marks it ignored for a chart that is making a transition on '
                             'the same object (its trace record is dropped); a query on another thread walks from a stale cursor' % (f.qualname, st.targets[0].attr, what),
                             node=st, obligation=True)
    run.floor('bindings of the event/state/temp holders', n, 3)


def start_paths(run, model, rule):
    """fabric.start() and the writer's start() are check-then-act on a thread handle and set the run event the delivery threads, the writer and every active object
    share; the package calls them from one place, the start of an active object, fabric first.  A second call site (a publisher thread, the writer restarting itself)
    races with that one or sets the flag while the fabric is stopped."""
    run.rule(rule, 'fabric.start() and writer.start() are called only on the start path of an active object, fabric first')
    n = 0
    from sa.normalise import baseline_names
    known = baseline_names()
    refs = {}
    for g_ in model.all_funcs():
        for y in ast.walk(g_.node):
            if isinstance(y, ast.Attribute):
                refs[y.attr] = refs.get(y.attr, 0) + 1
            elif isinstance(y, ast.Name) and isinstance(y.ctx, ast.Load):
                refs[y.id] = refs.get(y.id, 0) + 1
    for f in model.all_funcs():
        if f.module.name != 'activeobject':
            continue
        top = f
        while top.parent is not None:
            top = top.parent
        on_start_path = 'start' in top.name.lower()
        if top.qualname not in known and not refs.get(top.name):
            continue        # a new entry point nothing in the package calls (__enter__ of a `with fabric:` convenience): the user's own, explicit start
        calls = []
        for c in walk_shallow(f.node):
            if isinstance(c, ast.Call) and isinstance(c.func, ast.Attribute) and c.func.attr == 'start':
                d = dotted(c.func.value) or ''
                if d.endswith('.fabric') or d.endswith('.writer') or (d == (f.params[0] if f.params else None) and f.owner_class is not None and
                                                                      f.owner_class.name in ('InstrumenationWriterClass', 'ActiveFabricSource')):
                    calls.append((c, 'fabric' if d.endswith('.fabric') or (f.owner_class is not None and f.owner_class.name == 'ActiveFabricSource' and not d.endswith('.writer')) else 'writer'))
        for c, what in calls:
            n += 1
            run.inst(rule, f, '%s.start() is called on the start path only: %s' % (what, norm(c)), on_start_path,
                     '' if on_start_path else ('%s calls %s: start() tests "thread alive?" and then creates one, without a lock, and sets the run event shared by the fabric, the writer '
                                               'and all active objects. Called from here it runs on whatever thread comes by - two publishers restart a stopped fabric at once and two '
                                               'delivery threads of one kind overtake each other; a writer that restarts itself sets the flag while the fabric is stopped, and active '
                                               'objects no longer halt' % (f.qualname, norm(c))), node=c, obligation=True)
        fab = [c for c, w in calls if w == 'fabric']
        wri = [c for c, w in calls if w == 'writer']
        if fab and wri:
            ok = fab[0].lineno < wri[0].lineno
            run.inst(rule, f, 'the fabric is started before the writer', ok,
                     '' if ok else ('%s looks at / starts the writer before it starts the fabric: the writer thread runs on the flag that fabric.start() sets, so a writer left over '
                                    'from before a fabric.stop() is taken for alive, leaves its loop before the flag is set again, and nobody restarts it - live spy and trace lines '
                                    'pile up unwritten' % f.qualname), node=wri[0], obligation=True)
    run.floor('start() calls on the fabric and the writer', n, 2)


def no_lock_across_step(run, model, rule):
    """user handlers run inside the wrapped step; a lock of the package held across it is held while arbitrary user code runs - posting into another chart that is doing
    the same in the other direction deadlocks, and only for instrumented charts"""
    run.rule(rule, 'no lock of the package is held across the wrapped step (user handlers run inside it)')
    cg = callgraph(model)
    n = 0
    for fac, inner in cg.factories.items():
        if inner.module.name not in ('hsm', 'activeobject') or not fac.params:
            continue
        for w in ast.walk(inner.node):
            if isinstance(w, ast.With):
                wrapped = [c for b in w.body for c in ast.walk(b) if isinstance(c, ast.Call) and isinstance(c.func, ast.Name) and c.func.id == fac.params[0]]
                if wrapped:
                    n += 1
                    run.inst(rule, inner, 'the wrapped call is not made inside a with-block: ' + norm(w.items[0].context_expr), False,
                             '%s calls the function it wraps inside `with %s`: the run-to-completion step, user actions included, runs with that lock held. Two instrumented charts '
                             'whose actions post into each other at the same moment take the two locks in opposite order and stop for good; the same charts without '
                             'instrumentation run through' % (inner.qualname, norm(w.items[0].context_expr)), node=w, obligation=True)
    if n == 0:
        run.inst(rule, model.func('hsm.spy_on'), 'no wrapper holds a lock across the call it wraps', True, obligation=True)


SHARED['holders_per_chart'] = (holders_per_chart, 'HOLDER.per-chart', ('C01', 'C02', 'C03', 'C20', 'C22'))
SHARED['start_paths'] = (start_paths, 'ORDER.start-path', ('C06', 'C08', 'C12', 'C13', 'C21'))
SHARED['no_lock_across_step'] = (no_lock_across_step, 'WRAP.no-lock', ('C05', 'C18'))


def singleton_no_memo(run, model, rule):
    """the once-only construction rests on the re-test of the slot under the lock; memoising helpers (functools.cached_property since 3.12, lru_cache, cache) do not lock:
    two first requests both miss, both construct"""
    run.rule(rule, 'the singleton is not built through a memoising decorator (cached_property / lru_cache / cache take no lock around the miss)')
    k = model.cls('SingletonDecorator')
    n = 0
    for st in k.node.body:
        if isinstance(st, ast.FunctionDef):
            memo = [d for d in st.decorator_list if norm(d.func if isinstance(d, ast.Call) else d).split('.')[-1] in ('cached_property', 'lru_cache', 'cache')]
            builds = [c for c in ast.walk(st) if isinstance(c, ast.Call) and (dotted(c.func) or '').endswith('.klass')]
            if memo and builds:
                n += 1
                run.inst(rule, k.methods.get(st.name) or k.methods.get('__call__'), 'construction is not memoised: %s' % st.name, False,
                         'SingletonDecorator.%s builds the instance (%s) under @%s: a thread that finds the cache empty while another is still constructing waits for the lock (if there '
                         'is one) and then constructs again - nothing re-tests the cache under the lock; the second object replaces the first, which its requester keeps'
                         % (st.name, norm(builds[0]), norm(memo[0])), node=st, obligation=True)
    if n == 0:
        run.inst(rule, k.methods.get('__call__'), 'no memoising decorator builds the instance', True, obligation=True)


def immediate_caller_frame(run, model, rule):
    """the line that decides "keep the lock" must be the line of the statement that performs *this* access: the frame directly above __get__.  Walking further up
    (past __getattr__ / __getattribute__ hooks, helpers, proxies) classifies a line whose augmented assignment - if it has one - will never call this descriptor's __set__."""
    run.rule(rule, 'the classified frame is the direct caller of __get__ (currentframe().f_back), not a frame found by walking further up the stack')
    cls = model.cls('ThreadSafeAttribute')
    get = cls.methods.get('__get__')
    bad = None
    for x in ast.walk(get.node):
        if isinstance(x, (ast.While, ast.For)) and any(isinstance(y, ast.Attribute) and y.attr == 'f_back' for y in ast.walk(x)):
            bad = x
        if isinstance(x, ast.Attribute) and x.attr == 'f_back' and isinstance(x.value, ast.Attribute) and x.value.attr == 'f_back':
            bad = x
        if isinstance(x, ast.Call) and norm(x.func).split('.')[-1] in ('stack', 'getouterframes', '_getframe') and not (
                norm(x.func).endswith('_getframe') and len(x.args) == 1 and isinstance(x.args[0], ast.Constant) and x.args[0].value == 1):
            bad = x
    run.inst(rule, get, 'the frame inspected is the immediate caller', bad is None,
             '' if bad is None else ('__get__ walks up the stack beyond its direct caller (%s): a plain read made inside an attribute hook or helper is classified by the line that used the '
                                     'hook - when that line is an augmented assignment (`meter.count += view.step`) the read keeps this attribute\'s lock, and no __set__ of this '
                                     'attribute follows to release it' % norm(bad)[:80]), node=bad, obligation=True)


def value_not_captured(run, model, rule):
    """one descriptor serves every instance: whatever __get__ keeps on the descriptor between calls is shared.  A closure that captured `instance` (a cached reader per
    call site) answers for the first instance ever read from that line"""
    run.rule(rule, 'nothing that captures the instance parameter (a lambda, a nested function, a bound reader) is stored on the descriptor')
    cls = model.cls('ThreadSafeAttribute')
    n = 0
    for f in (cls.methods.get('__get__'), cls.methods.get('__set__')):
        if f is None or len(f.params) < 2:
            continue
        selfn, inst = f.params[0], f.params[1]
        closures = {}
        for st in ast.walk(f.node):
            if isinstance(st, ast.Assign) and isinstance(st.value, ast.Lambda) and any(isinstance(y, ast.Name) and y.id == inst for y in ast.walk(st.value)):
                for t in st.targets:
                    if isinstance(t, ast.Name):
                        closures[t.id] = st.value
            if isinstance(st, ast.FunctionDef) and st is not f.node and any(isinstance(y, ast.Name) and y.id == inst for y in ast.walk(st)):
                closures[st.name] = st
        for st in ast.walk(f.node):
            if isinstance(st, ast.Assign):
                stored_on_self = any((isinstance(t, (ast.Subscript, ast.Attribute)) and (dotted(t.value if isinstance(t, ast.Subscript) else t) or '').startswith(selfn + '.')) for t in st.targets)
                if stored_on_self:
                    caps = [y for y in ast.walk(st.value) if (isinstance(y, ast.Name) and y.id in closures) or
                            (isinstance(y, ast.Lambda) and any(isinstance(z, ast.Name) and z.id == inst for z in ast.walk(y))) or (isinstance(y, ast.Name) and y.id == inst)]
                    if caps:
                        n += 1
                        run.inst(rule, f, 'the descriptor keeps nothing that holds the instance: ' + norm(st)[:60], False,
                                 '%s stores %s on the descriptor, and that value captures `%s`: the descriptor is one object for all instances of the class, so the next instance that '
                                 'comes by the same way is answered with the first one\'s value (a new instance reads a value where 0 is expected, `obj.x += 1` writes a number derived '
                                 'from another object)' % (f.qualname, norm(st.value)[:60], inst), node=st, obligation=True)
    if n == 0:
        run.inst(rule, cls.methods.get('__get__'), 'no closure over the instance is kept on the descriptor', True, obligation=True)


SHARED['singleton_no_memo'] = (singleton_no_memo, 'ATOMIC.no-memo', ('C30',))
SHARED['immediate_caller_frame'] = (immediate_caller_frame, 'PROTO.caller-frame', ('C27', 'C28'))
SHARED['value_not_captured'] = (value_not_captured, 'DESC.no-capture', ('C29',))


def accessors_fresh(run, model, rule):
    """spy_full() / spy_rtc() hand out the log as it is *now*: evaluated twice on a scratch chart whose ring buffer is full both times (same length, different lines) -
    the second answer must be the second content; both answers are new lists"""
    from sa import pureeval
    run.rule(rule, 'spy_full() and spy_rtc() return the current content of their ring buffer, also when its length did not change since the last call (a full ring keeps its length)')
    hq = model.cls('HsmWithQueues')
    n = 0
    for nm, ring in (('spy_full', 'full'), ('spy_rtc', 'rtc')):
        f = hq.methods.get(nm)
        if f is None:
            continue
        methods = {k: m.node for k, m in hq.methods.items() if k != nm and not k.startswith('__')}
        try:
            first, second = ['a', 'b', 'c'], ['b', 'c', 'd']
            chart = pureeval.Obj(instrumented=True, spied_on=True, full=pureeval.Obj(spy=list(first), trace=[]), rtc=pureeval.Obj(spy=list(first), tuples=[]), __world__=True)
            for st in hq.methods['__init__'].node.body if '__init__' in hq.methods else []:
                # new bookkeeping attributes of the accessors start as the constructor leaves them
                if isinstance(st, ast.Assign) and len(st.targets) == 1 and isinstance(st.targets[0], ast.Attribute) and isinstance(st.targets[0].value, ast.Name) \
                        and st.targets[0].attr not in vars(chart) and isinstance(st.value, (ast.List, ast.Dict, ast.Constant, ast.Tuple)):
                    setattr(chart, st.targets[0].attr, pureeval.ev(st.value, {}))
            g_ = pureeval.module_constants(model, f.module)
            r1 = pureeval.call(f.node, [chart], globals_=g_, mutable=True, methods=methods, strict_locals=True)
            getattr(chart, ring).spy[:] = second
            r2 = pureeval.call(f.node, [chart], globals_=g_, mutable=True, methods=methods, strict_locals=True)
        except (AnalysisError, pureeval.Raised) as ex:
            run.note('%s is outside the evaluator\'s fragment (%s)' % (nm, ex))
            continue
        n += 1
        ok = list(r1 or []) == first and list(r2 or []) == second
        run.inst(rule, f, '%s() follows the ring buffer when its length stays the same' % nm, ok,
                 '' if ok else ('%s() answered %s for the log %s and then %s for the log %s: once the ring buffer is full its length no longer changes, and the accessor keeps handing out '
                                'an old copy - spy() stops being the concatenation of the step logs' % (nm, r1, first, r2, second)), obligation=True)
    run.floor('spy accessors evaluated', n, 1)


SHARED['accessors_fresh'] = (accessors_fresh, 'SPY.accessor-fresh', ('C19',))


class _Borrow:
    """a view of the property's Run that lets another property's module report only a chosen set of its rules (everything else it says - other rules, floors, notes,
    assumptions - is dropped): the way to reuse a rule that lives inline in another module without moving it"""

    def __init__(self, run, allow, suffix):
        self._run = run
        self._allow = set(allow)
        self._suffix = suffix
        self.prop, self.tier, self.model = run.prop, run.tier, run.model
        self.explanation = ''
        self.findings = []
        self.analysis_error = None
        self.floor_failures = []

    def rule(self, rule, text):
        if rule in self._allow:
            self._run.rule(rule, text + self._suffix)

    def inst(self, rule, *a, **k):
        if rule in self._allow:
            return self._run.inst(rule, *a, **k)

    def touch(self, *a, **k):
        return self._run.touch(*a, **k)

    def floor(self, *a, **k):
        pass

    def assume(self, *a, **k):
        pass

    def note(self, *a, **k):
        pass


# rule ids borrowed from the module of another property: property -> [(module, {rule ids})]
BORROWED = {
    'C01': [('c22', {'HSM-CURSOR.I1'})],
    'C02': [('c22', {'HSM-CURSOR.I1'})],
    'C03': [('c18', {'WRAP.no-block'}), ('c22', {'HSM-CURSOR.I1'})],
    'C04': [('c18', {'WRAP.no-block'})],
    'C05': [('c18', {'WRAP.no-block'})],
    'C09': [('c04', {'ALIAS.queue'})],
    'C15': [('c14', {'CONSUMER.next_rtc'})],
    'C24': [('c14', {'CONSUMER.circuit', 'CONSUMER.next_rtc'})],
    'C26': [('c25', {'ATOMIC.registry'})],
    'C32': [('c21', {'LIVE.newness'})],
}


def run_borrowed(run, model, prop):
    import importlib
    for modname, rules in BORROWED.get(prop, []):
        mod = importlib.import_module('props.' + modname)
        b = _Borrow(run, rules, ' (rule of %s, a mechanism this property rests on too)' % modname.upper())
        try:
            mod.check(b, model, run.tier)
        except AnalysisError:
            pass        # the lending module refused on a shape of its own: its rule says nothing here


def run_shared(run, model, prop):
    run_borrowed(run, model, prop)
    for name, (fn, rule, props_) in SHARED.items():
        if prop in props_:
            fn(run, model, rule)
