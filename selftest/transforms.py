"""Whole-package behaviour-preserving transformations used as benign variants for every property."""
import ast
import glob
import os
class Renamer(ast.NodeTransformer):
    def visit_FunctionDef(self, node):
        # names bound in this function (not nested), excluding params/globals
        params = {a.arg for a in node.args.posonlyargs + node.args.args + node.args.kwonlyargs}
        if node.args.vararg: params.add(node.args.vararg.arg)
        if node.args.kwarg: params.add(node.args.kwarg.arg)
        bound=set(); glob_=set(); nested_names=set(); nested_defs=set()
        def walk(n, top=True):
            for ch in ast.iter_child_nodes(n):
                if isinstance(ch,(ast.FunctionDef,ast.ClassDef,ast.Lambda)):
                    if isinstance(ch,(ast.FunctionDef,ast.ClassDef)): nested_defs.add(ch.name)
                    for x in ast.walk(ch):
                        if isinstance(x, ast.Name): nested_names.add(x.id)
                    continue
                if isinstance(ch,(ast.Global,ast.Nonlocal)): glob_.update(ch.names)
                if isinstance(ch, ast.Name) and isinstance(ch.ctx,(ast.Store,ast.Del)): bound.add(ch.id)
                if isinstance(ch, ast.comprehension):
                    pass
                walk(ch, False)
        walk(node)
        # comprehension targets are their own scope: exclude names only bound in comprehensions? keep simple: exclude all comprehension targets
        comp=set()
        for x in ast.walk(node):
            if isinstance(x, ast.comprehension):
                for y in ast.walk(x.target):
                    if isinstance(y, ast.Name): comp.add(y.id)
        ren = {n: n+'_rn' for n in bound - params - glob_ - nested_names - nested_defs - comp if not n.startswith('__')}
        class R(ast.NodeTransformer):
            def visit_FunctionDef(s, n): return n
            def visit_ClassDef(s, n): return n
            def visit_Lambda(s, n): return n
            def visit_Name(s, n):
                if n.id in ren: n.id = ren[n.id]
                return n
        node.body=[R().visit(st) if not isinstance(st,(ast.FunctionDef,ast.ClassDef)) else st for st in node.body]
        # recurse into nested defs
        self.generic_visit(node)
        return node


def rename_locals(pkgdir):
    """append _rn to every local that is neither a parameter, a global, captured by a nested function nor a comprehension target"""
    for f in glob.glob(os.path.join(pkgdir, '*.py')):
        t = ast.parse(open(f).read())
        t = Renamer().visit(t)
        ast.fix_missing_locations(t)
        open(f, 'w').write(ast.unparse(t) + '\n')


def reformat(pkgdir):
    """regenerate every file from its AST: comments gone, layout and line numbers changed"""
    for f in glob.glob(os.path.join(pkgdir, '*.py')):
        text = ast.unparse(ast.parse(open(f).read())) + '\n'
        open(f, 'w').write(text)


class _Logger(ast.NodeTransformer):
    def visit_FunctionDef(self, node):
        self.generic_visit(node)
        call = ast.Expr(value=ast.Call(func=ast.Attribute(value=ast.Call(func=ast.Attribute(value=ast.Name(id='logging', ctx=ast.Load()), attr='getLogger', ctx=ast.Load()),
                                                                     args=[ast.Constant(value='miros')], keywords=[]), attr='debug', ctx=ast.Load()),
                                       args=[ast.Constant(value='enter ' + node.name)], keywords=[]))
        pos = 1 if (node.body and isinstance(node.body[0], ast.Expr) and isinstance(node.body[0].value, ast.Constant) and isinstance(node.body[0].value.value, str)) else 0
        # generators and functions starting with global/nonlocal keep those first
        while pos < len(node.body) and isinstance(node.body[pos], (ast.Global, ast.Nonlocal)):
            pos += 1
        node.body.insert(pos, call)
        return node


def add_logging(pkgdir):
    """a debug log line at the top of every function (import logging added)"""
    for f in glob.glob(os.path.join(pkgdir, '*.py')):
        t = ast.parse(open(f).read())
        t = _Logger().visit(t)
        pos = 1 if (t.body and isinstance(t.body[0], ast.Expr) and isinstance(t.body[0].value, ast.Constant)) else 0
        while pos < len(t.body) and isinstance(t.body[pos], ast.ImportFrom) and t.body[pos].module == '__future__':
            pos += 1
        t.body.insert(pos, ast.Import(names=[ast.alias(name='logging')]))
        ast.fix_missing_locations(t)
        open(f, 'w').write(ast.unparse(t) + '\n')


class _Annotator(ast.NodeTransformer):
    def visit_FunctionDef(self, node):
        self.generic_visit(node)
        for a in node.args.posonlyargs + node.args.args + node.args.kwonlyargs:
            if a.annotation is None and a.arg not in ('self', 'cls'):
                a.annotation = ast.Constant(value='object')
        return node


def annotate(pkgdir):
    """string type annotations on every parameter"""
    for f in glob.glob(os.path.join(pkgdir, '*.py')):
        t = ast.parse(open(f).read())
        t = _Annotator().visit(t)
        ast.fix_missing_locations(t)
        open(f, 'w').write(ast.unparse(t) + '\n')


def _terminates(stmts):
    return bool(stmts) and isinstance(stmts[-1], (ast.Return, ast.Raise, ast.Continue, ast.Break))


class _DedentElse(ast.NodeTransformer):
    def _fix(self, stmts):
        out = []
        for st in stmts:
            if isinstance(st, ast.If) and st.orelse and _terminates(st.body):
                rest = st.orelse
                st.orelse = []
                out.append(st)
                out.extend(self._fix(rest))
            else:
                out.append(st)
        return out

    def generic_visit(self, node):
        super().generic_visit(node)
        for f in ('body', 'orelse', 'finalbody'):
            v = getattr(node, f, None)
            if isinstance(v, list) and v and isinstance(v[0], ast.stmt):
                setattr(node, f, self._fix(v))
        return node


class _SwapBranches(ast.NodeTransformer):
    def visit_If(self, node):
        self.generic_visit(node)
        if node.orelse and not (len(node.orelse) == 1 and isinstance(node.orelse[0], ast.If)):
            t = node.test
            node.test = t.operand if (isinstance(t, ast.UnaryOp) and isinstance(t.op, ast.Not)) else ast.UnaryOp(op=ast.Not(), operand=t)
            node.body, node.orelse = node.orelse, node.body
        return node


class _FlipCompare(ast.NodeTransformer):
    FL = {ast.Eq: ast.Eq, ast.NotEq: ast.NotEq, ast.Lt: ast.Gt, ast.Gt: ast.Lt, ast.LtE: ast.GtE, ast.GtE: ast.LtE}

    def visit_Compare(self, node):
        self.generic_visit(node)
        if len(node.ops) == 1 and type(node.ops[0]) in self.FL and not isinstance(node.comparators[0], ast.Constant) \
                and not any(isinstance(n, ast.Call) for n in ast.walk(node)):
            return ast.copy_location(ast.Compare(left=node.comparators[0], ops=[self.FL[type(node.ops[0])]()], comparators=[node.left]), node)
        return node


def _apply(pkgdir, tr):
    for f in glob.glob(os.path.join(pkgdir, '*.py')):
        t = ast.parse(open(f).read())
        t = tr().visit(t)
        ast.fix_missing_locations(t)
        open(f, 'w').write(ast.unparse(t) + '\n')


def dedent_else(pkgdir):
    """`if c: ...; return x  else: B`  ->  `if c: ...; return x` followed by B (everywhere)"""
    _apply(pkgdir, _DedentElse)


def swap_branches(pkgdir):
    """`if c: A else: B` -> `if not c: B else: A` (everywhere except elif ladders)"""
    _apply(pkgdir, _SwapBranches)


def flip_compare(pkgdir):
    """`a == b` -> `b == a`, `a < b` -> `b > a` for call-free comparisons of two non-literals"""
    _apply(pkgdir, _FlipCompare)


GLOBAL = {'dedent-else': dedent_else, 'swap-branches': swap_branches, 'flip-compare': flip_compare, 'reformat': reformat, 'rename-locals': rename_locals, 'add-logging': add_logging, 'annotate': annotate}
