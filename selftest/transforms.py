"""Whole-package behaviour-preserving transformations used as benign variants for every property."""
import ast
import glob
import os
class Renamer(ast.NodeTransformer):
    def visit_FunctionDef(self, node):
        # names bound in this function (not nested), excluding params/globals
        params = {a.arg for a in node.args.posonlyargs + node.args.args + node.args.kwonlyargs}
        if node.args.vararg: params.add(node.args.vararg.arg)
        if node.args.kwarg: params.add(node.args.kwarg.arg)
        bound=set(); glob_=set(); nested_names=set(); nested_defs=set()
        def walk(n, top=True):
            for ch in ast.iter_child_nodes(n):
                if isinstance(ch,(ast.FunctionDef,ast.ClassDef,ast.Lambda)):
                    if isinstance(ch,(ast.FunctionDef,ast.ClassDef)): nested_defs.add(ch.name)
                    for x in ast.walk(ch):
                        if isinstance(x, ast.Name): nested_names.add(x.id)
                    continue
                if isinstance(ch,(ast.Global,ast.Nonlocal)): glob_.update(ch.names)
                if isinstance(ch, ast.Name) and isinstance(ch.ctx,(ast.Store,ast.Del)): bound.add(ch.id)
                if isinstance(ch, ast.comprehension):
                    pass
                walk(ch, False)
        walk(node)
        # comprehension targets are their own scope: exclude names only bound in comprehensions? keep simple: exclude all comprehension targets
        comp=set()
        for x in ast.walk(node):
            if isinstance(x, ast.comprehension):
                for y in ast.walk(x.target):
                    if isinstance(y, ast.Name): comp.add(y.id)
        ren = {n: n+'_rn' for n in bound - params - glob_ - nested_names - nested_defs - comp if not n.startswith('__')}
        class R(ast.NodeTransformer):
            def visit_FunctionDef(s, n): return n
            def visit_ClassDef(s, n): return n
            def visit_Lambda(s, n): return n
            def visit_Name(s, n):
                if n.id in ren: n.id = ren[n.id]
                return n
        node.body=[R().visit(st) if not isinstance(st,(ast.FunctionDef,ast.ClassDef)) else st for st in node.body]
        # recurse into nested defs
        self.generic_visit(node)
        return node


def rename_locals(pkgdir):
    """append _rn to every local that is neither a parameter, a global, captured by a nested function nor a comprehension target"""
    for f in glob.glob(os.path.join(pkgdir, '*.py')):
        t = ast.parse(open(f).read())
        t = Renamer().visit(t)
        ast.fix_missing_locations(t)
        open(f, 'w').write(ast.unparse(t) + '\n')


def reformat(pkgdir):
    """regenerate every file from its AST: comments gone, layout and line numbers changed"""
    for f in glob.glob(os.path.join(pkgdir, '*.py')):
        text = ast.unparse(ast.parse(open(f).read())) + '\n'
        open(f, 'w').write(text)


GLOBAL = {'reformat': reformat, 'rename-locals': rename_locals}
