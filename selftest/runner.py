"""Self-validation of the checkers (thorough tier): registered mutants of /repo/miros must be reported at the mutated
construct, registered behaviour-preserving variants must stay silent.  Runs on scratch copies under a temporary directory
(outside /repo and /verif), removed when done.  It can only downgrade a run to ANALYSIS-ERROR, never produce a VIOLATION."""


def attach(run, prop):
    try:
        from selftest import mutants
    except ImportError:
        run.selftest = {'status': 'no mutant corpus registered yet'}
        return
    mutants.validate(run, prop)


def main(argv):
    from selftest import mutants
    return mutants.main(argv)
