"""Self-validation of the checkers (thorough tier): registered mutants of /repo/miros must be reported (exit 1 with a VIOLATION line),
registered behaviour-preserving variants must stay silent (exit 0).  Every variant is applied to a scratch copy of the package under a
temporary directory (outside /repo and /verif), analysed with `check --repo <copy>`, and the copy is removed.  The self-validation can
only downgrade a run to ANALYSIS-ERROR (exit 2); it never produces a VIOLATION for the real tree."""
import ast
import concurrent.futures
import os
import shutil
import subprocess
import sys
import tempfile

HERE = os.path.dirname(os.path.dirname(os.path.abspath(__file__)))


def apply_edits(src_dir, dst_dir, edits):
    """edits: [(file, old, new)] exact-string replacements, each old must occur exactly once.  Returns None or a reason for skipping."""
    shutil.copytree(os.path.join(src_dir, 'miros'), os.path.join(dst_dir, 'miros'), ignore=shutil.ignore_patterns('__pycache__'))
    if isinstance(edits, str) and edits.startswith('patch:'):
        # an independently seeded change kept under /verif/seeded/<id>/patch.diff
        pr = subprocess.run(['patch', '-p1', '-s', '-f', '-d', dst_dir, '-i', edits[6:]], capture_output=True, text=True)
        if pr.returncode != 0:
            return 'seeded patch does not apply to this tree'
        return None
    if isinstance(edits, str):
        from selftest.transforms import GLOBAL
        GLOBAL[edits](os.path.join(dst_dir, 'miros'))
        return None
    for fname, old, new in edits:
        p = os.path.join(dst_dir, 'miros', fname)
        s = open(p, encoding='utf-8').read()
        if s.count(old) != 1:
            return 'anchor occurs %d times in %s' % (s.count(old), fname)
        s = s.replace(old, new)
        try:
            ast.parse(s)
        except SyntaxError as ex:
            return 'variant does not parse: %s' % ex
        open(p, 'w', encoding='utf-8').write(s)
    return None


def run_variant(args):
    prop, vid, kind, edits, repo = args
    tmp = tempfile.mkdtemp(prefix='miros_selftest_')
    try:
        why = apply_edits(repo, tmp, edits)
        if why:
            return (vid, kind, 'skipped', why)
        env = dict(os.environ)
        env['MIROS_VERIF_OUT'] = os.path.join(tmp, 'out')
        env['MIROS_VERIF_NO_SELFTEST'] = '1'
        pr = subprocess.run([os.path.join(HERE, 'check'), prop, '--tier', 'quick', '--repo', tmp], capture_output=True, text=True, env=env, timeout=300)
        out = pr.stdout
        viol = [l for l in out.splitlines() if l.startswith('VIOLATION')]
        finds = [l.strip() for l in out.splitlines() if l.strip().startswith('FINDING')]
        if pr.returncode == 2:
            return (vid, kind, 'analysis-error', (out.strip().splitlines() or ['?'])[-1][:200])
        fired = pr.returncode == 1 and bool(viol)
        return (vid, kind, 'fired' if fired else 'silent', '; '.join(finds)[:300])
    finally:
        shutil.rmtree(tmp, ignore_errors=True)


def validate(prop, repo=None, jobs=16):
    from selftest.mutants import CORPUS
    repo = repo or os.environ.get('MIROS_VERIF_REPO', '/repo')
    variants = list(CORPUS.get(prop, []))
    # independently seeded breaking changes of this property (see seeded/<id>/meta.json) must be reported
    import glob
    import json
    for mp in sorted(glob.glob(os.path.join(HERE, 'seeded', '*', 'meta.json'))):
        try:
            meta = json.load(open(mp))
        except Exception:
            continue
        if meta.get('status') == 'missed':
            # kept for the record (DESIGN 9.25): confirmed regression that no rule reports yet; not an expectation of the self-test
            continue
        if meta.get('breaks_property') == prop:
            variants.append({'id': 'seed-' + meta['id'], 'kind': 'mutant', 'what': 'seeded change: ' + meta.get('needs_to_manifest', '')[:120],
                             'edits': 'patch:' + os.path.join(os.path.dirname(mp), 'patch.diff')})
    # behaviour-preserving refactorings written by independent sub-agents (selftest/benign/): silent for the properties they touch
    try:
        bidx = json.load(open(os.path.join(HERE, 'selftest', 'benign', 'index.json')))
    except Exception:
        bidx = []
    for b in bidx:
        if prop in b.get('properties', []):
            variants.append({'id': 'refactor-' + b['id'], 'kind': 'benign', 'what': 'independent behaviour-preserving refactoring',
                             'edits': 'patch:' + os.path.join(HERE, 'selftest', 'benign', b['file'])})
    # two whole-package behaviour-preserving transformations are benign variants of every property
    variants.append({'id': 'global-reformat', 'kind': 'benign', 'what': 'every file regenerated from its AST (layout, comments, line numbers change)', 'edits': 'reformat'})
    variants.append({'id': 'global-rename-locals', 'kind': 'benign', 'what': 'every local variable of every function renamed', 'edits': 'rename-locals'})
    work = [(prop, v['id'], v['kind'], v['edits'], repo) for v in variants]
    results = []
    if work:
        with concurrent.futures.ThreadPoolExecutor(max_workers=jobs) as ex:
            results = list(ex.map(run_variant, work))
    return variants, results


def attach(run, prop):
    from sa.model import AnalysisError
    variants, results = validate(prop)
    summary = {'variants': len(variants), 'mutants_fired': 0, 'mutants_missed': [], 'benign_silent': 0, 'benign_fired': [], 'skipped': [], 'errors': [], 'details': []}
    desc = {v['id']: v['what'] for v in variants}
    for vid, kind, outcome, info in results:
        summary['details'].append({'id': vid, 'kind': kind, 'what': desc.get(vid, ''), 'outcome': outcome, 'info': info})
        if outcome == 'skipped':
            summary['skipped'].append('%s (%s)' % (vid, info))
        elif kind == 'mutant':
            if outcome == 'fired':
                summary['mutants_fired'] += 1
            else:
                summary['mutants_missed'].append('%s: %s (%s)' % (vid, desc.get(vid, ''), outcome))
        else:
            if outcome == 'silent':
                summary['benign_silent'] += 1
            else:
                summary['benign_fired'].append('%s: %s (%s: %s)' % (vid, desc.get(vid, ''), outcome, info))
    run.selftest = summary
    print('  self-validation: %d variants, %d mutants reported, %d benign variants silent, %d skipped'
          % (len(variants), summary['mutants_fired'], summary['benign_silent'], len(summary['skipped'])))
    if summary['mutants_missed'] or summary['benign_fired']:
        for m in summary['mutants_missed']:
            print('  SELFTEST mutant not reported: ' + m)
        for m in summary['benign_fired']:
            print('  SELFTEST benign variant not silent: ' + m)
        raise AnalysisError('checker self-validation failed for %s: %d mutants missed, %d benign variants not silent'
                            % (prop, len(summary['mutants_missed']), len(summary['benign_fired'])))


def main(argv):
    from selftest.mutants import CORPUS
    props = argv or sorted(CORPUS)
    bad = 0
    for p in props:
        variants, results = validate(p)
        for vid, kind, outcome, info in results:
            good = (kind == 'mutant' and outcome == 'fired') or (kind == 'benign' and outcome == 'silent')
            if outcome == 'skipped':
                mark = 'SKIP'
            else:
                mark = 'ok  ' if good else 'BAD '
                bad += 0 if good else 1
            print('%s %-4s %-28s %-7s %-15s %s' % (mark, p, vid, kind, outcome, info[:150]))
    return 1 if bad else 0
