"""Run bookkeeping: rule instances, findings, known-findings matching, evidence, exit codes."""
import json
import os
import sys
import time

from .model import AnalysisError, norm, repo_root

VERIF = os.path.dirname(os.path.dirname(os.path.abspath(__file__)))


class Finding:
    def __init__(self, rule, func, construct, site, message, detail=None):
        self.rule = rule
        self.func = func
        self.construct = construct
        self.site = site
        self.message = message
        self.detail = detail or {}

    @property
    def key(self):
        return '%s|%s|%s' % (self.rule, self.func, self.construct)

    def as_dict(self):
        return {'rule': self.rule, 'function': self.func, 'construct': self.construct, 'site': self.site,
                'message': self.message, 'key': self.key, 'detail': self.detail}


class Run:
    """Collects what one property check evaluated.  Every rule instance goes through `inst`."""

    def __init__(self, prop, tier, model):
        self.prop = prop
        self.tier = tier
        self.model = model
        self.t0 = time.time()
        self.instances = []       # dicts
        self.findings = []
        self.floors = {}
        self.assumptions = []
        self.analysed = {'functions': set(), 'cfg_nodes': 0, 'call_edges': 0}
        self.notes = []
        self.obligations = 0
        self.discharged = 0
        self.explanation = ''
        self.rules_text = {}
        self.selftest = None
        self.floor_failures = []
        self.analysis_error = None

    # --------------------------------------------------------------------- recording
    def rule(self, rule, text):
        self.rules_text[rule] = text

    def touch(self, func, cfg=None):
        self.analysed['functions'].add(func.qualname if hasattr(func, 'qualname') else str(func))
        if cfg is not None:
            self.analysed['cfg_nodes'] += len(cfg.nodes)

    def inst(self, rule, func, construct, ok, message='', node=None, detail=None, nontrivial=True, obligation=False):
        """Record one evaluated rule instance.  `construct` is a role or normalised text (never a line)."""
        if rule is None:
            return          # a shared rule family called by a property that does not claim this part
        fq = func.qualname if hasattr(func, 'qualname') else str(func)
        if node is not None and hasattr(func, 'site'):
            site = func.site(node)
        elif hasattr(func, 'site'):
            site = func.site()
        else:
            site = str(func)
        if not isinstance(construct, str):
            construct = norm(construct)
        rec = {'rule': rule, 'function': fq, 'construct': construct, 'site': site, 'verdict': 'ok' if ok else 'FAIL',
               'nontrivial': bool(nontrivial)}
        if message:
            rec['message'] = message
        self.instances.append(rec)
        if hasattr(func, 'qualname'):
            self.analysed['functions'].add(fq)
        if obligation:
            self.obligations += 1
            if ok:
                self.discharged += 1
        if not ok:
            self.findings.append(Finding(rule, fq, construct, site, message, detail))
        return ok

    def floor(self, what, count, minimum):
        """A rule that matches fewer instances than were confirmed by hand passes vacuously: refuse."""
        self.floors[what] = {'measured': count, 'floor': minimum}
        if count < minimum:
            # judged at the end: a finding that was located is reported as such; a pass below the floor is refused (exit 2)
            self.floor_failures.append('%s: %d instances found, confirmed floor is %d (anchor vanished or rule no longer matches)'
                                       % (what, count, minimum))

    def assume(self, text):
        if text not in self.assumptions:
            self.assumptions.append(text)

    def note(self, text):
        self.notes.append(text)

    # --------------------------------------------------------------------- finishing
    def finish(self):
        known = load_known()
        open_keys = {}
        for k in known.get('open', []):
            if k.get('property') == self.prop:
                open_keys[k['key']] = k
        new, listed = [], []
        for f in self.findings:
            (listed if f.key in open_keys else new).append(f)
        wall = time.time() - self.t0
        seen_inst = set()
        distinct_nontrivial = 0
        for r in self.instances:
            k = (r['rule'], r['function'], r['construct'])
            if k in seen_inst:
                continue
            seen_inst.add(k)
            if r['nontrivial']:
                distinct_nontrivial += 1
        samples = []
        per_rule = {}
        for r in self.instances:
            per_rule.setdefault(r['rule'], []).append(r)
        for rule, recs in per_rule.items():
            for r in recs[:3]:
                samples.append({k: r[k] for k in ('rule', 'function', 'construct', 'site', 'verdict')})
        for f in self.findings:
            samples.append(dict(f.as_dict(), verdict='FAIL'))
        cov = {
            'explanation': self.explanation or 'static analysis of %s/miros' % repo_root(),
            'evaluations': len(self.instances),
            'distinct_nontrivial': distinct_nontrivial,
            'rule': 'one evaluation = one rule instance (rule, function, construct) located in the current source; '
                    'non-trivial = the verdict needed a path, dataflow, call-graph or invariant computation '
                    '(not a mere presence test); distinct = distinct (rule, function, construct) triples',
            'samples': samples[:60],
            'obligations': self.obligations,
            'discharged': self.discharged,
            'rules': self.rules_text,
            'instances_per_rule': {k: len(v) for k, v in per_rule.items()},
            'floors': self.floors,
            'analysed': {'repo': repo_root(), 'model': self.model.stats() if self.model else {},
                         'functions': sorted(self.analysed['functions']),
                         'n_functions': len(self.analysed['functions']),
                         'cfg_nodes': self.analysed['cfg_nodes']},
            'findings_new': [f.as_dict() for f in new],
            'findings_known': [f.as_dict() for f in listed],
            'notes': self.notes,
            'exhaustive': True,
        }
        if self.selftest is not None:
            cov['selftest'] = self.selftest
        ev = {'property_id': self.prop, 'tier': self.tier, 'seed': int(os.environ.get('VERIF_SEED', '0') or 0),
              'level': 'other', 'coverage': cov, 'assumptions': self.assumptions, 'wall_s': round(wall, 3),
              'violations': len(new)}
        evdir = os.environ.get('MIROS_VERIF_OUT') or VERIF
        os.makedirs(os.path.join(evdir, 'evidence'), exist_ok=True)
        with open(os.path.join(evdir, 'evidence', self.prop + '.json'), 'w') as fh:
            json.dump(ev, fh, indent=1, sort_keys=False)
        print('property %s tier=%s: %d rule instances (%d distinct non-trivial), %d obligations/%d discharged, '
              '%d functions, %.2fs' % (self.prop, self.tier, len(self.instances), distinct_nontrivial,
                                       self.obligations, self.discharged, len(self.analysed['functions']), wall))
        for what, fl in self.floors.items():
            print('  floor %-40s measured %d >= %d' % (what, fl['measured'], fl['floor']))
        for f in listed:
            k = open_keys[f.key]
            print('KNOWN-FINDING: property=%s %s [%s] %s at %s: %s' % (self.prop, k.get('id', ''), f.rule, f.func, f.site,
                                                                      k.get('what', f.message)))
        if not new and (self.floor_failures or self.analysis_error):
            msg = self.analysis_error or self.floor_failures[0]
            print('ANALYSIS-ERROR property=%s %s' % (self.prop, msg))
            return 2
        if new and (self.floor_failures or self.analysis_error):
            print('  note: the analysis was incomplete (%s); the findings below were located before that point'
                  % (self.analysis_error or self.floor_failures[0]))
        if new:
            evdir = os.environ.get('MIROS_VERIF_OUT') or VERIF
            os.makedirs(os.path.join(evdir, 'reports'), exist_ok=True)
            for i, f in enumerate(new):
                path = os.path.join(evdir, 'reports', '%s_%d.json' % (self.prop, i))
                with open(path, 'w') as fh:
                    json.dump({'property': self.prop, 'tier': self.tier, 'finding': f.as_dict(),
                               'rule_text': self.rules_text.get(f.rule, ''), 'repo': repo_root(),
                               'replay': './check %s --tier %s' % (self.prop, self.tier)}, fh, indent=1)
                print('  FINDING [%s] %s at %s\n      construct: %s\n      %s' % (f.rule, f.func, f.site, f.construct, f.message))
                print('VIOLATION property=%s replay=%s' % (self.prop, path))
            return 1
        return 0


_known_cache = None


def load_known():
    global _known_cache
    if _known_cache is None:
        p = os.path.join(VERIF, 'known_findings.json')
        if os.path.exists(p):
            with open(p) as fh:
                _known_cache = json.load(fh)
        else:
            _known_cache = {'open': [], 'fixed': []}
    return _known_cache
