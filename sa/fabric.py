"""Wiring of the active fabric, resolved by dataflow (not by the spelling of names):
kind ('fifo'/'lifo')  -> registry attribute written by subscribe(queue_type=kind)
registry attribute    -> (delivery thread function, fabric queue attribute, thread handle attribute) from start()
"""
import ast

from .model import AnalysisError, walk_shallow, dotted, norm
from .util import cfg_of, shallow_calls, const_str, guarded_by_edge, compare_parts


class Wiring:
    pass


def call_args(call, func):
    """parameter name -> argument expression for a call of package function `func` (positional + keyword)"""
    out = {}
    params = func.params
    # nested helpers have no self; methods called through self.x have
    offset = 1 if func.cls is not None else 0
    for i, a in enumerate(call.args):
        if i + offset < len(params):
            out[params[i + offset]] = a
    for kw in call.keywords:
        if kw.arg:
            out[kw.arg] = kw.value
    return out


def wiring(model):
    fab = model.cls('ActiveFabricSource')
    sub = fab.methods.get('subscribe')
    start = fab.methods.get('start')
    if sub is None or start is None:
        raise AnalysisError('ActiveFabricSource.subscribe/start not found')
    w = Wiring()
    w.fab, w.subscribe, w.start = fab, sub, start
    selfn = sub.params[0]
    # ---- subscribe: which registry per kind
    g = cfg_of(sub)
    # registries are the dict-valued fields of the fabric (assigned {} / dict() in __init__)
    dict_fields0 = set()
    init0 = fab.methods.get('__init__')
    for n in walk_shallow(init0.node):
        if isinstance(n, ast.Assign) and (isinstance(n.value, ast.Dict) or (isinstance(n.value, ast.Call) and norm(n.value.func) in ('dict', 'OrderedDict', 'defaultdict'))):
            for t in n.targets:
                d = dotted(t)
                if d and d.startswith(init0.params[0] + '.'):
                    dict_fields0.add(d.split('.', 1)[1])
    helper = None
    w.inline = False
    for h in sub.nested.values():
        helper = h
    if not sub.nested:
        # the registry work is written out in subscribe() itself: the local that the selector binds to one of the registries plays the helper's parameter
        regl = set()
        for n in g.nodes:
            if n.kind == 'stmt' and isinstance(n.ast, ast.Assign) and len(n.ast.targets) == 1 and isinstance(n.ast.targets[0], ast.Name):
                dv = dotted(n.ast.value)
                if dv and dv.startswith(selfn + '.') and dv.split('.', 1)[1] in dict_fields0:
                    regl.add(n.ast.targets[0].id)
        if len(regl) == 1:
            from .util import FuncView
            helper = FuncView(sub, sub.node)
            helper.params = [regl.pop()]
            w.inline = True
    if helper is None or (len(sub.nested) != 1 and not w.inline):
        raise AnalysisError('subscribe: expected exactly one nested registry helper')
    w.helper = helper
    qt = sub.params[3] if len(sub.params) > 3 else None
    def sel_cmp(e):
        """the comparison `queue_type == 'lifo'|'fifo'` that e is, or that e is a conjunction of together with `queue_type is not None` only"""
        if isinstance(e, ast.Compare) and isinstance(e.left, ast.Name) and e.left.id == qt and len(e.ops) == 1 and isinstance(e.ops[0], ast.Eq) and const_str(e.comparators[0]) in ('lifo', 'fifo'):
            return e
        if isinstance(e, ast.BoolOp) and isinstance(e.op, ast.And):
            cs = [sel_cmp(v) for v in e.values]
            rest = [v for v, c_ in zip(e.values, cs) if c_ is None]
            if sum(1 for c_ in cs if c_ is not None) == 1 and all(isinstance(v, ast.Compare) and isinstance(v.left, ast.Name) and v.left.id == qt and isinstance(v.ops[0], ast.IsNot)
                                                                   and isinstance(v.comparators[0], ast.Constant) and v.comparators[0].value is None for v in rest):
                return next(c_ for c_ in cs if c_ is not None)
        return None
    tests = [t for t in g.nodes if t.kind == 'test' and sel_cmp(t.ast) is not None]
    if len(tests) != 1:
        raise AnalysisError('subscribe: the queue_type selector test was not found')
    t = tests[0]
    named = const_str(sel_cmp(t.ast).comparators[0])
    other = 'fifo' if named == 'lifo' else 'lifo'
    w.registry = {}
    if w.inline:
        for m_ in g.nodes:
            if m_.kind == 'stmt' and isinstance(m_.ast, ast.Assign) and any(isinstance(t_, ast.Name) and t_.id == helper.params[0] for t_ in m_.ast.targets):
                dv = dotted(m_.ast.value)
                kind = named if guarded_by_edge(g, m_, t, 'true') else (other if guarded_by_edge(g, m_, t, 'false') else None)
                if kind is None or not dv:
                    raise AnalysisError('subscribe: registry selection not under the queue_type selector')
                w.registry[kind] = dv.split('.', 1)[1]
        w.sub_event_arg = None
    for n in g.nodes:
        if w.inline:
            break
        if n.kind in ('entry', 'exit', 'xexit', 'def'):
            continue
        for c in n.calls():
            if isinstance(c.func, ast.Name) and c.func.id == helper.name:
                # the registry handed to the helper: `self.<registry>` under the selector, or a local that the selector binds to one
                cands = []
                a0 = c.args[0] if c.args else None
                if a0 is not None and (dotted(a0) or '').startswith(selfn + '.'):
                    cands.append((dotted(a0), n))
                elif isinstance(a0, ast.Name):
                    for m_ in g.nodes:
                        if m_.kind == 'stmt' and isinstance(m_.ast, ast.Assign) and any(isinstance(t_, ast.Name) and t_.id == a0.id for t_ in m_.ast.targets):
                            dv = dotted(m_.ast.value)
                            if not dv or not dv.startswith(selfn + '.'):
                                raise AnalysisError('subscribe: registry argument of the helper not recognised')
                            cands.append((dv, m_))
                if not cands:
                    raise AnalysisError('subscribe: registry argument of the helper not recognised')
                for reg, gn in cands:
                    kind = named if guarded_by_edge(g, gn, t, 'true') else (other if guarded_by_edge(g, gn, t, 'false') else None)
                    if kind is None:
                        raise AnalysisError('subscribe: helper call not under the queue_type selector')
                    w.registry[kind] = reg.split('.', 1)[1]
                w.sub_event_arg = c.args[1] if len(c.args) > 1 else None
    if set(w.registry) != {'fifo', 'lifo'}:
        raise AnalysisError('subscribe: registries per kind not identified (%s)' % w.registry)
    # without an explicit default, None is simply "not the named kind": the other side of the selector
    w.default_kind = other if (set(w.registry) == {'fifo', 'lifo'}) else None
    for n in walk_shallow(sub.node):
        if isinstance(n, ast.Assign) and any(isinstance(x, ast.Name) and x.id == qt for x in n.targets) and const_str(n.value):
            w.default_kind = const_str(n.value)
    # ---- start: which runner/queue/handle per registry
    init_helpers = list(start.nested.values())
    if len(init_helpers) != 1:
        raise AnalysisError('start: expected exactly one nested thread-creating helper')
    ih = init_helpers[0]
    w.initiate = ih
    w.threads = {}
    # registries are the dict-valued fields of the fabric (assigned {} / dict() in __init__)
    dict_fields = set()
    init = fab.methods.get('__init__')
    for n in walk_shallow(init.node):
        if isinstance(n, ast.Assign) and (isinstance(n.value, ast.Dict) or (isinstance(n.value, ast.Call) and norm(n.value.func) in ('dict', 'OrderedDict', 'defaultdict'))):
            for t in n.targets:
                d = dotted(t)
                if d and d.startswith(init.params[0] + '.'):
                    dict_fields.add(d.split('.', 1)[1])
    w.dict_fields = dict_fields
    for st in walk_shallow(start.node):
        if isinstance(st, ast.Assign) and isinstance(st.value, ast.Call) and isinstance(st.value.func, ast.Name) and st.value.func.id == ih.name:
            a = {}
            for i, x in enumerate(st.value.args):
                if i < len(ih.params):
                    a[ih.params[i]] = x
            for kw in st.value.keywords:
                a[kw.arg] = kw.value
            vals = {k: dotted(v) for k, v in a.items()}
            handle = dotted(st.targets[0])
            deferred_store = None
            if handle and '.' not in handle:
                # the result goes to a local first: the handle is the self attribute that local is stored into later (also as an element of a tuple assignment)
                for st2 in walk_shallow(start.node):
                    if isinstance(st2, ast.Assign):
                        for t2 in st2.targets:
                            pairs2 = list(zip(t2.elts, st2.value.elts)) if isinstance(t2, ast.Tuple) and isinstance(st2.value, ast.Tuple) and len(t2.elts) == len(st2.value.elts) else [(t2, st2.value)]
                            for a2, b2 in pairs2:
                                if isinstance(b2, ast.Name) and b2.id == handle and dotted(a2) and dotted(a2).startswith(selfn + '.'):
                                    deferred_store = st2
                                    handle_attr = dotted(a2)
                if deferred_store is None:
                    raise AnalysisError('start: the created thread is bound to the local %s and never stored in a handle of the fabric' % handle)
                handle = handle_attr
            reg = [v for v in vals.values() if v and v.split('.', 1)[-1] in dict_fields]
            if len(reg) != 1:
                raise AnalysisError('start: a thread is created without exactly one subscription registry')
            regattr = reg[0].split('.', 1)[1]
            runner = [v for v in vals.values() if v and v.split('.', 1)[-1] in fab.methods and v.split('.', 1)[-1].startswith('thread_runner')]
            runner = [v for v in vals.values() if v and v.startswith(selfn + '.') and v.split('.', 1)[1] in fab.methods]
            if len(runner) != 1:
                raise AnalysisError('start: thread function not identified')
            others = [v for k, v in vals.items() if v and v not in reg and v not in runner and v != handle and v.startswith(selfn + '.')]
            w.threads[regattr] = {'runner': fab.methods[runner[0].split('.', 1)[1]], 'handle': handle.split('.', 1)[1] if handle else None,
                                  'queue': [o.split('.', 1)[1] for o in others if 'queue' in o], 'call': st.value, 'args': a,
                                  'handle_arg': [k for k, v in vals.items() if v == handle], 'create_stmt': st, 'store_stmt': deferred_store or st}
    if len(w.threads) != 2:
        raise AnalysisError('start: expected two delivery threads, found %s' % sorted(w.threads))
    # subscribe must write, per kind, a registry that one of the threads was started with - and a different one per kind
    w.consistent = set(w.threads) == set(w.registry.values()) and len(set(w.registry.values())) == 2
    w.kind_of_runner = {}
    for kind, reg in w.registry.items():
        if reg in w.threads:
            w.kind_of_runner[w.threads[reg]['runner']] = kind
    return w



def eval_subscribed(run, model, rule):
    """finite-domain evaluation of the pure query ActiveFabricSource.subscribed(event_or_signal, queue_type, queue=None) over every small world: two kinds,
    signal registered or not (under this kind / the other kind), queue None / registered / a different queue with equal content (an empty deque equals an
    empty deque) / registered under the other kind only, the signal given as an event object or as a number.  Expected: with a queue - identity membership in the
    registry of *that* kind for *that* signal; without - presence of the signal in that registry.  Returns False when the function is outside the pure
    fragment (the def-use rule then stands alone)."""
    import ast as _ast
    from . import pureeval
    from .model import AnalysisError
    fab = model.cls('ActiveFabricSource')
    f = fab.methods.get('subscribed')
    if f is None or len(f.params) < 4:
        return False
    # the registries per kind are those subscribe() writes (resolved by dataflow in wiring()), not whatever subscribed() happens to mention
    try:
        w_ = wiring(model)
        regs = dict(w_.registry)
    except AnalysisError:
        return False
    if set(regs) != {'fifo', 'lifo'}:
        return False

    class Q:            # a queue object: equal by content (all empty here), distinct by identity
        def __eq__(self, o):
            return isinstance(o, Q)

        def __hash__(self):
            return 1

        def __len__(self):
            return 0
    HsmEvent = type('HsmEvent', (), {})
    signals = pureeval.Obj(name_for_signal=lambda n: {11: 'A', 12: 'B'}[n])
    cases = 0
    bad = []
    try:
        for kind in ('fifo', 'lifo'):
            other = 'lifo' if kind == 'fifo' else 'fifo'
            for where in ('nowhere', 'this-kind', 'other-kind', 'this-kind-other-signal'):
                for qarg in ('none', 'member', 'twin'):
                    for form in ('event', 'number'):
                        me, twin, third = Q(), Q(), Q()
                        world = {'fifo': {}, 'lifo': {}}
                        if where == 'this-kind':
                            world[kind]['A'] = [third, me]
                        elif where == 'other-kind':
                            world[other]['A'] = [third, me]
                        elif where == 'this-kind-other-signal':
                            world[kind]['B'] = [third, me]
                            world[kind]['A'] = [third]
                        selfo = pureeval.Obj(**{regs['fifo']: world['fifo'], regs['lifo']: world['lifo']})
                        sig = pureeval.Obj(signal_name='A', _type=HsmEvent) if form == 'event' else 11
                        q = None if qarg == 'none' else (me if qarg == 'member' else twin)
                        if q is None:
                            expect = 'A' in world[kind]
                        else:
                            expect = any(x is q for x in world[kind].get('A', []))
                        cases += 1
                        try:
                            got = pureeval.call(f.node, [selfo, sig, kind, q], globals_={'HsmEvent': HsmEvent, 'signals': signals, 'int': int, 'True': True, 'False': False},
                                                strict_locals=True)
                            got = bool(got) if got is not None else None
                        except pureeval.Raised as ex:
                            got = 'raises ' + ex.what
                        if got != expect:
                            bad.append((kind, where, qarg, form, expect, got))
    except AnalysisError:
        return False
    ok = not bad
    run.inst(rule, f, 'subscribed() evaluated over %d small worlds: identity membership of the queue in the registry of its kind and signal' % cases, ok,
             '' if ok else ('ActiveFabricSource.subscribed(signal, %r, queue) with the signal registered %s and the queue %s answers %s, expected %s (%d of %d worlds differ): the active object '
                            'skips - or repeats - its run-time subscription for the wrong reason'
                            % (bad[0][0], bad[0][1], {'none': 'not given', 'member': 'registered there', 'twin': 'a different queue with equal content'}[bad[0][2]], bad[0][5], bad[0][4],
                               len(bad), cases)), obligation=True)
    return True


def registry_shrink_sites(model, w):
    """places in the package that remove from (or replace the contents of) a subscriber list of the fabric, other than the fabric's own clear(): the delivery threads iterate
    those lists without the subscription lock, so a list that shrinks in place under a running iteration makes the iterator step over the next subscriber.
    Returns [(func, node, text)]."""
    roots = set(w.registry.values())
    out = []
    SHRINK = {'remove', 'pop', 'clear', 'insert', 'sort', 'reverse', '__delitem__', 'popitem'}
    for f in model.all_funcs():
        if f.owner_class is w.fab and f.name in ('clear', '__init__'):
            continue
        tainted = set()

        def is_reg(e, depth=3):
            """e denotes a registry dict or one of its lists"""
            while isinstance(e, (ast.Subscript,)):
                e = e.value
            if isinstance(e, ast.Call) and isinstance(e.func, ast.Attribute) and e.func.attr in ('values', 'items', 'get', 'setdefault'):
                return is_reg(e.func.value, depth)
            if isinstance(e, ast.Attribute) and e.attr in roots:
                return True
            if isinstance(e, ast.Name) and e.id in tainted:
                return True
            return False
        for _ in range(3):
            for n in ast.walk(f.node):
                if isinstance(n, ast.For) and is_reg(n.iter):
                    for x in ast.walk(n.target):
                        if isinstance(x, ast.Name):
                            tainted.add(x.id)
                elif isinstance(n, ast.Assign) and is_reg(n.value):
                    for t in n.targets:
                        if isinstance(t, ast.Name):
                            tainted.add(t.id)
        for n in ast.walk(f.node):
            if isinstance(n, ast.Call) and isinstance(n.func, ast.Attribute) and n.func.attr in SHRINK and is_reg(n.func.value):
                out.append((f, n, norm(n)))
            elif isinstance(n, ast.Delete) and any(is_reg(t) for t in n.targets):
                out.append((f, n, norm(n)))
            elif isinstance(n, (ast.Assign, ast.AugAssign)):
                for t in (n.targets if isinstance(n, ast.Assign) else [n.target]):
                    if isinstance(t, ast.Subscript) and isinstance(t.slice, ast.Slice) and is_reg(t.value):
                        out.append((f, n, norm(n)))
    return out
