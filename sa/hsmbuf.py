"""Relational abstract interpretation (zone domain) of the event processor's entry-path buffer.

Proof obligations, for every function that owns or receives a path buffer (a list local created from a list literal):
  O1  every store   buf[i] = v       has 0 <= i <= len(buf)-1
  O2  every buf.append(v) that stands for "populate slot i" (true branch of the grow-on-demand idiom
      `if i > mark:` / `if i >= len(buf):` ...)  has i == len(buf) before the append
  O3  every load    buf[j]           has 0 <= j <= len(buf)-1   (a negative j silently wraps in Python)
The abstract state is a disjunction of zones indexed by the valuation of status-flag locals (locals that are assigned
return_status constants), obligations are judged on the stable iteration of each loop fixpoint, and after an obligation
has been judged the state is refined as if it held (so one root cause does not cascade).  Calls of package methods that
receive a buffer are analysed inline (the callee grows the caller's list; its integer parameters are by value).
Roles (buffer / integer / flag locals) are inferred from the assignments, not from names.
"""
import ast

from .model import AnalysisError, norm
from .zone import Zone, INF
from .util import status_const


class St:
    """disjunction of zones indexed by the valuation of flag variables"""

    def __init__(self, parts=None):
        self.parts = parts or {}

    @staticmethod
    def of(z):
        return St({(): z})

    def copy(self):
        return St({k: v.copy() for k, v in self.parts.items()})

    def isbot(self):
        return all(z.bot for z in self.parts.values())

    def map(self, f):
        out = {}
        for k, z in self.parts.items():
            if z.bot:
                continue
            r = f(dict(k), z.copy())
            for k2, z2 in (r if isinstance(r, list) else [r]):
                k2 = tuple(sorted(k2.items(), key=lambda kv: kv[0]))
                if z2.bot:
                    continue
                out[k2] = out[k2].join(z2) if k2 in out else z2
        return St(out)

    def join(self, o):
        out = {k: v.copy() for k, v in self.parts.items() if not v.bot}
        for k, z in o.parts.items():
            if z.bot:
                continue
            out[k] = out[k].join(z) if k in out else z.copy()
        return St(out)

    def widen(self, o):
        out = {}
        for k, z in o.parts.items():
            if z.bot:
                continue
            out[k] = self.parts[k].widen(z) if k in self.parts and not self.parts[k].bot else z.copy()
        for k, z in self.parts.items():
            if k not in out and not z.bot:
                out[k] = z.copy()
        return St(out)

    def leq(self, o):
        for k, z in self.parts.items():
            if z.bot:
                continue
            if k not in o.parts or not z.leq(o.parts[k]):
                return False
        return True

    def show(self):
        return ' | '.join('%s: %s' % (dict(k), z.show()) for k, z in self.parts.items()) or 'BOT'


def BOT():
    return St({})


def roles(fnode):
    """(buffers, ints, flags) inferred from the assignments in a function body"""
    bufs, ints, flags = set(), set(), set()
    assigns = []
    for n in ast.walk(fnode):
        if isinstance(n, ast.Assign):
            for t in n.targets:
                if isinstance(t, ast.Tuple) and isinstance(n.value, ast.Tuple) and len(t.elts) == len(n.value.elts):
                    assigns.extend(zip(t.elts, n.value.elts))
                else:
                    assigns.append((t, n.value))
        elif isinstance(n, ast.AugAssign) and isinstance(n.target, ast.Name) and isinstance(n.op, (ast.Add, ast.Sub)) \
                and isinstance(n.value, ast.Constant) and type(n.value.value) is int:
            ints.add(n.target.id)
    changed = True
    while changed:
        changed = False
        for t, v in assigns:
            if not isinstance(t, ast.Name):
                continue
            if isinstance(v, ast.List) and t.id not in bufs:
                bufs.add(t.id)
                changed = True
            if status_const(v) is not None and t.id not in flags:
                flags.add(t.id)
                changed = True
            if t.id not in ints and _is_intexpr(v, ints, bufs):
                ints.add(t.id)
                changed = True
    ints -= flags
    return bufs, ints, flags


def bool_locals(fnode):
    """locals that only ever hold True/False literals (loop-control flags such as `done`, `settled`, `found`)"""
    vals = {}
    for n in ast.walk(fnode):
        if isinstance(n, ast.Assign):
            for t in n.targets:
                if isinstance(t, ast.Tuple) and isinstance(n.value, ast.Tuple) and len(t.elts) == len(n.value.elts):
                    for a, b in zip(t.elts, n.value.elts):
                        if isinstance(a, ast.Name):
                            vals.setdefault(a.id, []).append(b)
                elif isinstance(t, ast.Name):
                    vals.setdefault(t.id, []).append(n.value)
                else:
                    for x in ast.walk(t):
                        if isinstance(x, ast.Name) and isinstance(x.ctx, ast.Store):
                            vals.setdefault(x.id, []).append(None)
        elif isinstance(n, (ast.AugAssign, ast.For, ast.NamedExpr)):
            for x in ast.walk(n.target):
                if isinstance(x, ast.Name):
                    vals.setdefault(x.id, []).append(None)
    return {k for k, vs in vals.items() if vs and all(isinstance(v, ast.Constant) and isinstance(v.value, bool) for v in vs)}


def _is_intexpr(v, ints, bufs):
    if isinstance(v, ast.Constant) and type(v.value) is int:
        return True
    if isinstance(v, ast.UnaryOp) and isinstance(v.op, ast.USub) and isinstance(v.operand, ast.Constant) and type(v.operand.value) is int:
        return True
    if isinstance(v, ast.BinOp) and isinstance(v.op, (ast.Add, ast.Sub)):
        return _is_intexpr(v.left, ints, bufs) or _is_intexpr(v.right, ints, bufs)
    if isinstance(v, ast.Name) and v.id in ints:
        return True
    if isinstance(v, ast.Call) and isinstance(v.func, ast.Name) and v.func.id == 'len' and v.args and isinstance(v.args[0], ast.Name) and v.args[0].id in bufs:
        return True
    return False


class Frame:
    def __init__(self, func, prefix, bufenv, intenv, flagenv):
        self.func = func
        self.prefix = prefix
        self.bufenv = bufenv     # local name -> L variable
        self.intenv = intenv     # local name -> zone variable
        self.flagenv = flagenv   # local name -> flag key


class BufferAnalysis:
    def __init__(self, entry, callees=None):
        """entry: Func; callees: {method name: Func} candidates for inlining"""
        self.entry = entry
        self.callees = callees or {}
        self.obl = {}
        self.order = []
        self.loop_exit = {}      # id(while node) -> (St, Frame)
        self.loop_head = {}
        self.unknown = []        # unknown idioms (append outside a grow guard)
        self._seen_text = {}
        self._desugared = {}
        self.names = ['0']
        self.frames = {}
        self._plan(entry, 'e')
        for nm, f in self.callees.items():
            self._plan(f, 'c')

    def _plan(self, f, prefix):
        bufs, ints, flags = roles(f.node)
        fr = Frame(f, prefix, {}, {}, {})
        # parameters may turn out to be ints/buffers at an inline call: give every parameter an int slot too
        for p in f.params[1:]:
            ints.add(p)
        # counted for-loops: the loop variable of a range loop is an integer, every counted loop gets a ghost counter
        for n in ast.walk(f.node):
            if isinstance(n, ast.For):
                shape = self.for_shape(n, bufs)
                if shape is not None:
                    ints.add(self.ghost_name(n))
                    if shape[0] == 'range':
                        ints.add(n.target.id)
        for b in bufs:
            fr.bufenv[b] = 'L.%s.%s' % (prefix, b)
            if fr.bufenv[b] not in self.names:
                self.names.append(fr.bufenv[b])
        for i in sorted(ints):
            fr.intenv[i] = '%s.%s' % (prefix, i)
            self.names.append(fr.intenv[i])
        for fl in flags:
            fr.flagenv[fl] = '%s.%s' % (prefix, fl)
        fr.boolenv = {b: 'b:%s.%s' % (prefix, b) for b in bool_locals(f.node) if b not in f.params and b not in flags and b not in bufs}
        for b in fr.boolenv:
            fr.intenv.pop(b, None)
        self.frames[f] = fr

    # ---------------------------------------------------------------- recording
    def key_of(self, kind, fr, node):
        return (kind, fr.func.qualname, id(node))

    def rec(self, kind, fr, node, verdict, state):
        key = self.key_of(kind, fr, node)
        if key not in self.obl:
            self.order.append(key)
        prev = self.obl.get(key)
        if prev is None or (prev['verdict'] == 'OK' and verdict != 'OK'):
            self.obl[key] = {'kind': kind, 'func': fr.func, 'node': node, 'verdict': verdict, 'state': state}

    # ---------------------------------------------------------------- expressions
    def iexpr(self, e, fr):
        if isinstance(e, ast.Constant) and type(e.value) is int:
            return ('0', e.value)
        if isinstance(e, ast.UnaryOp) and isinstance(e.op, ast.USub):
            r = self.iexpr(e.operand, fr)
            if r and r[0] == '0':
                return ('0', -r[1])
        if isinstance(e, ast.Name) and e.id in fr.intenv:
            return (fr.intenv[e.id], 0)
        if isinstance(e, ast.BinOp) and isinstance(e.op, (ast.Add, ast.Sub)):
            l = self.iexpr(e.left, fr)
            r = self.iexpr(e.right, fr)
            if l and r and r[0] == '0':
                return (l[0], l[1] + (r[1] if isinstance(e.op, ast.Add) else -r[1]))
            if l and r and l[0] == '0' and isinstance(e.op, ast.Add):
                return (r[0], r[1] + l[1])
        if isinstance(e, ast.Call) and isinstance(e.func, ast.Name) and e.func.id == 'len' and e.args and self.is_buf(e.args[0], fr):
            return (fr.bufenv[e.args[0].id], 0)
        return None

    def is_buf(self, e, fr):
        return isinstance(e, ast.Name) and e.id in fr.bufenv

    def guard_zone(self, z, test, pol, fr):
        if isinstance(test, ast.Compare) and len(test.ops) == 1:
            a = self.iexpr(test.left, fr)
            b = self.iexpr(test.comparators[0], fr)
            if a and b:
                (x, cx), (y, cy) = a, b
                t = type(test.ops[0])
                if not pol:
                    t = {ast.Gt: ast.LtE, ast.GtE: ast.Lt, ast.Lt: ast.GtE, ast.LtE: ast.Gt, ast.Eq: ast.NotEq, ast.NotEq: ast.Eq}.get(t)
                if t is ast.Gt:
                    z.le(y, x, cx - cy - 1)
                elif t is ast.GtE:
                    z.le(y, x, cx - cy)
                elif t is ast.Lt:
                    z.le(x, y, cy - cx - 1)
                elif t is ast.LtE:
                    z.le(x, y, cy - cx)
                elif t is ast.Eq:
                    z.le(x, y, cy - cx)
                    z.le(y, x, cx - cy)
                elif t is ast.NotEq:
                    if z.entails(y, x, cx - cy):
                        z.le(y, x, cx - cy - 1)
                    elif z.entails(x, y, cy - cx):
                        z.le(x, y, cy - cx - 1)
        return z

    def guard(self, st, test, pol, fr):
        if isinstance(test, ast.BoolOp):
            if (isinstance(test.op, ast.And) and pol) or (isinstance(test.op, ast.Or) and not pol):
                for v in test.values:
                    st = self.guard(st, v, pol, fr)
                return st
            return st
        if isinstance(test, ast.UnaryOp) and isinstance(test.op, ast.Not):
            return self.guard(st, test.operand, not pol, fr)

        fk = self.fact_key(test, fr)
        bk = self.bool_test(test, fr)
        if bk is not None:
            key, want = bk
            want = want if pol else not want

            def fb(fl, z):
                if key in fl and fl[key] != want:
                    z.bot = True
                    return (fl, z)
                fl[key] = want
                return (fl, z)
            return st.map(fb)

        def f(fl, z):
            if fk is not None:
                key, eq_when_true = fk
                truth = eq_when_true if pol else not eq_when_true
                if key in fl and fl[key] != truth:
                    z.bot = True
                    return (fl, z)
                fl[key] = truth
                return (fl, z)
            if isinstance(test, ast.Compare) and len(test.ops) == 1 and isinstance(test.left, ast.Name) and test.left.id in fr.flagenv:
                c = status_const(test.comparators[0])
                v = fr.flagenv[test.left.id]
                if c and fl.get(v) is not None:
                    eq = isinstance(test.ops[0], (ast.Eq, ast.Is))
                    ne = isinstance(test.ops[0], (ast.NotEq, ast.IsNot))
                    if eq or ne:
                        truth = (fl[v] == c) if eq else (fl[v] != c)
                        if truth != pol:
                            z.bot = True
                        return (fl, z)
                if c and fl.get(v) is None and isinstance(test.ops[0], (ast.Eq, ast.Is)) and pol:
                    fl[v] = c
                    return (fl, z)
            return (fl, self.guard_zone(z, test, pol, fr))
        return st.map(f)

    def bool_test(self, test, fr):
        """(partition key, value that makes the test true) for a test of a boolean local: `done`, `done is True`, `done == False`, `done is not True` ..."""
        benv = getattr(fr, 'boolenv', {})
        if isinstance(test, ast.Name) and test.id in benv:
            return (benv[test.id], True)
        if isinstance(test, ast.Compare) and len(test.ops) == 1 and isinstance(test.left, ast.Name) and test.left.id in benv \
                and isinstance(test.comparators[0], ast.Constant) and isinstance(test.comparators[0].value, bool):
            c = test.comparators[0].value
            if isinstance(test.ops[0], (ast.Is, ast.Eq)):
                return (benv[test.left.id], c)
            if isinstance(test.ops[0], (ast.IsNot, ast.NotEq)):
                return (benv[test.left.id], not c)
        return None

    # ---------------------------------------------------------------- equality facts between object-valued expressions
    def fact_key(self, test, fr):
        """('f:<frame>:<a>==<b>', equal-when-true) for a comparison a ==/!=/is/is not b of two call-free, non-integer, non-status expressions"""
        if not (isinstance(test, ast.Compare) and len(test.ops) == 1 and isinstance(test.ops[0], (ast.Eq, ast.NotEq, ast.Is, ast.IsNot))):
            return None
        a, b = test.left, test.comparators[0]
        for e in (a, b):
            if self.iexpr(e, fr) is not None or status_const(e) is not None or isinstance(e, ast.Constant):
                return None
            if isinstance(e, ast.Name) and e.id in fr.flagenv:
                return None
            if not isinstance(e, (ast.Name, ast.Attribute)):
                return None
            if any(isinstance(n, (ast.Call, ast.Subscript)) for n in ast.walk(e)):
                return None
        ta, tb = sorted([norm(a), norm(b)])
        return ('f:%s:%s==%s' % (fr.prefix, ta, tb), isinstance(test.ops[0], (ast.Eq, ast.Is)))

    def kill_facts(self, st, fr, path=None, all_attrs=False):
        """forget equality facts that mention `path` (a dotted name) - or every fact about an attribute when a call may have written it"""
        if not any(k.startswith('f:') for key in st.parts for k, _ in key):
            return st

        def f(fl, z):
            for k in list(fl):
                if not k.startswith('f:'):
                    continue
                body = k.split(':', 2)[2]
                sides = body.split('==')
                drop = False
                for sd in sides:
                    if all_attrs and '.' in sd:
                        drop = True
                    if path is not None and (sd == path or sd.startswith(path + '.') or path.startswith(sd + '.')):
                        drop = True
                if drop:
                    del fl[k]
            return (fl, z)
        return st.map(f)

    def call_may_write_attrs(self, c, fr):
        f = c.func
        if isinstance(f, ast.Name) and f.id not in fr.intenv and f.id not in fr.bufenv:
            # a module-level function or class (Event(...), len(...)): reaches the object only through its arguments
            selfn = fr.func.params[0] if fr.func.params else None
            args = list(c.args) + [k.value for k in c.keywords]
            local_names = {n.id for n in ast.walk(fr.func.node) if isinstance(n, ast.Name) and isinstance(n.ctx, ast.Store)}
            if f.id in local_names:
                return True         # a local holding a callable (a state handler)
            return any(isinstance(n, ast.Name) and n.id == selfn for a in args for n in ast.walk(a))
        return True

    # ---------------------------------------------------------------- obligations
    def check_index(self, st, idx, fr, node, kind, L):
        def f(fl, z):
            r = self.iexpr(idx, fr)
            if r is None:
                self.rec(kind, fr, node, 'UNRESOLVED', 'index expression %s is not an affine integer expression' % norm(idx))
                return (fl, z)
            x, c = r
            lo = z.entails('0', x, c)
            hi = z.entails(x, L, -1 - c)
            v = 'OK' if lo and hi else 'FAIL(' + ('' if lo else 'may be negative') + ('' if lo or hi else ', ') + ('' if hi else 'may exceed len-1') + ')'
            self.rec(kind, fr, node, v, '%s %s' % (fl, z.show()))
            z.le('0', x, c)
            z.le(x, L, -1 - c)
            return (fl, z)
        return st.map(f)

    def loads(self, st, expr, fr):
        for n in ast.walk(expr):
            if isinstance(n, ast.Subscript) and self.is_buf(n.value, fr) and isinstance(n.ctx, ast.Load):
                st = self.check_index(st, n.slice, fr, n, 'O3-load', fr.bufenv[n.value.id])
        if any(isinstance(n, ast.Call) and self.call_may_write_attrs(n, fr) for n in ast.walk(expr)):
            st = self.kill_facts(st, fr, all_attrs=True)
        return st

    # ---------------------------------------------------------------- statements
    def block(self, stmts, st, fr, ctl):
        for s in stmts:
            if st.isbot():
                break
            st = self.stmt(s, st, fr, ctl)
        return st

    def assign1(self, st, tgt, val, fr):
        from .model import dotted as _dotted
        d = _dotted(tgt)
        if d is not None:
            st = self.kill_facts(st, fr, path=d)
        if isinstance(tgt, ast.Subscript) and self.is_buf(tgt.value, fr):
            return self.check_index(st, tgt.slice, fr, tgt, 'O1-store', fr.bufenv[tgt.value.id])
        if not isinstance(tgt, ast.Name):
            return st
        name = tgt.id

        def f(fl, z):
            if isinstance(val, ast.List) and name in fr.bufenv:
                z.assign(fr.bufenv[name], '0', len(val.elts))
                return (fl, z)
            if name in fr.flagenv:
                fl[fr.flagenv[name]] = status_const(val) if val is not None else None
                return (fl, z)
            if name in getattr(fr, 'boolenv', {}):
                if isinstance(val, ast.Constant) and isinstance(val.value, bool):
                    fl[fr.boolenv[name]] = val.value
                else:
                    fl.pop(fr.boolenv[name], None)
                return (fl, z)
            if name in fr.intenv:
                r = self.iexpr(val, fr) if val is not None else None
                if r:
                    z.assign(fr.intenv[name], r[0], r[1])
                else:
                    z.forget(fr.intenv[name])
            return (fl, z)
        return st.map(f)

    def grow_index(self, test, fr, negated=False):
        """the slot index of a grow-on-demand guard, or None:  i > m, i >= m, i == len(buf), len(buf) <= i, m < i  (the append sits in the true
        branch), or the complementary tests i < len(buf), i <= m, len(buf) > i, i != len(buf) (the append sits in the else branch)"""
        while isinstance(test, ast.UnaryOp) and isinstance(test.op, ast.Not):
            test = test.operand
            negated = not negated
        if not (isinstance(test, ast.Compare) and len(test.ops) == 1):
            return None
        l, op, r = test.left, type(test.ops[0]), test.comparators[0]
        if negated:
            op = {ast.Lt: ast.GtE, ast.LtE: ast.Gt, ast.Gt: ast.LtE, ast.GtE: ast.Lt, ast.NotEq: ast.Eq, ast.Eq: ast.NotEq}.get(op)
        if op in (ast.Gt, ast.GtE, ast.Eq):
            # the side that is not the length/mark expression is the index; for `i == len(buf)` prefer the non-len side
            li, ri = self.iexpr(l, fr), self.iexpr(r, fr)
            if op is ast.Eq and li is not None and isinstance(l, ast.Call):
                return ri
            return li
        if op in (ast.Lt, ast.LtE):
            return self.iexpr(r, fr)
        return None

    def stmt(self, s, st, fr, ctl):
        if isinstance(s, ast.Assign):
            tgt = s.targets[0]
            st = self.loads(st, s.value, fr)
            call = s.value
            if isinstance(call, ast.Call) and isinstance(call.func, ast.Attribute) and call.func.attr in self.callees \
                    and any(self.is_buf(a, fr) for a in call.args):
                return self.inline(st, tgt, call, fr)
            if isinstance(tgt, ast.Tuple) and isinstance(s.value, ast.Tuple) and len(tgt.elts) == len(s.value.elts):
                # parallel assignment: evaluate right-hand sides against the state before any target is written
                pre = [(t, v, self.iexpr(v, fr)) for t, v in zip(tgt.elts, s.value.elts)]
                for t, v, _r in pre:
                    st = self.assign1(st, t, v, fr)
                return st
            if isinstance(tgt, ast.Tuple):
                for t in tgt.elts:
                    st = self.assign1(st, t, None, fr)
                return st
            for t in s.targets:
                st = self.assign1(st, t, s.value, fr)
            return st
        if isinstance(s, ast.AugAssign):
            def f(fl, z):
                if isinstance(s.target, ast.Name) and s.target.id in fr.intenv:
                    v = fr.intenv[s.target.id]
                    r = self.iexpr(s.value, fr)
                    if r and r[0] == '0' and isinstance(s.op, (ast.Add, ast.Sub)):
                        z.assign(v, v, r[1] if isinstance(s.op, ast.Add) else -r[1])
                    else:
                        z.forget(v)
                return (fl, z)
            return st.map(f)
        if isinstance(s, ast.Expr):
            st = self.loads(st, s.value, fr)
            c = s.value
            if isinstance(c, ast.Call) and isinstance(c.func, ast.Attribute) and c.func.attr == 'append' and self.is_buf(c.func.value, fr):
                L = fr.bufenv[c.func.value.id]
                g = ctl.get('grow')

                def f(fl, z):
                    if g is None:
                        self.rec('O2-append', fr, s, 'UNRESOLVED', 'append to the path buffer outside a grow-on-demand guard (unknown idiom)')
                    else:
                        x, k = g
                        ok = z.entails(x, L, -k) and z.entails(L, x, k)
                        self.rec('O2-append', fr, s, 'OK' if ok else 'FAIL(slot index != len(buffer))', '%s %s' % (fl, z.show()))
                        z.le(x, L, -k)
                        z.le(L, x, k)
                    z.assign(L, L, 1)
                    return (fl, z)
                return st.map(f)
            if isinstance(c, ast.Call) and isinstance(c.func, ast.Attribute) and self.is_buf(c.func.value, fr) and c.func.attr in ('pop', 'clear', 'insert', 'extend', 'remove'):
                self.rec('O2-append', fr, s, 'UNRESOLVED', 'path buffer modified with %s (unknown idiom)' % c.func.attr)
            return st
        if isinstance(s, ast.If):
            st = self.loads(st, s.test, fr)
            zt = self.guard(st, s.test, True, fr)
            zf = self.guard(st, s.test, False, fr)
            ctl_t = dict(ctl)
            ctl_t.pop('grow', None)
            ctl_f = dict(ctl)
            ctl_f.pop('grow', None)
            gi = self.grow_index(s.test, fr)
            if gi is not None and any(isinstance(x, ast.Call) and isinstance(x.func, ast.Attribute) and x.func.attr == 'append' and self.is_buf(x.func.value, fr)
                                      for b in s.body for x in ast.walk(b)):
                ctl_t['grow'] = gi
            gi2 = self.grow_index(s.test, fr, negated=True)
            if gi2 is not None and any(isinstance(x, ast.Call) and isinstance(x.func, ast.Attribute) and x.func.attr == 'append' and self.is_buf(x.func.value, fr)
                                       for b in s.orelse for x in ast.walk(b)):
                ctl_f['grow'] = gi2
            a = self.block(s.body, zt, fr, ctl_t)
            b = self.block(s.orelse, zf, fr, ctl_f)
            return a.join(b)
        if isinstance(s, ast.While):
            always = isinstance(s.test, ast.Constant) and bool(s.test.value)
            head = st.copy()
            it = 0
            while True:
                it += 1
                snap = (dict(self.obl), list(self.order))
                brk = []
                ctl2 = dict(ctl)
                ctl2['breaks'] = brk
                ctl2.pop('grow', None)
                h = self.loads(head, s.test, fr)
                zin = h if always else self.guard(h, s.test, True, fr)
                out = self.block(s.body, zin, fr, ctl2)
                new = st.join(out)
                if new.leq(head):
                    break
                self.obl, self.order = snap
                head = head.widen(head.join(new)) if it >= 6 else head.join(new)
                if it > 40:
                    raise AnalysisError('no fixpoint in %s' % fr.func.qualname)
            ex = BOT() if always else self.guard(head, s.test, False, fr)
            for b in brk:
                ex = ex.join(b)
            if s.orelse:
                ex = self.block(s.orelse, ex, fr, ctl)
            self.loop_exit[id(s)] = (ex.copy(), fr)
            self.loop_head[id(s)] = (head.copy(), fr)
            return ex
        if isinstance(s, ast.For):
            ds = self.desugar_for(s, fr)
            if ds is not None:
                return self.block(ds, st, fr, ctl)
            if any(isinstance(n, ast.Name) and n.id in fr.bufenv for n in ast.walk(s.iter)):
                raise AnalysisError('%s: for-loop over the path buffer in an unrecognised form (%s)' % (fr.func.qualname, norm(s.iter)))
            # a loop over something else: the body is executed 0..n times; integer loop targets are unknown
            head = st.copy()
            tnames = [n.id for n in ast.walk(s.target) if isinstance(n, ast.Name)]

            def forget_targets(x):
                def f(fl, z):
                    for t in tnames:
                        if t in fr.intenv:
                            z.forget(fr.intenv[t])
                    return (fl, z)
                return x.map(f)
            brk = []
            for it in range(40):
                brk = []
                ctl2 = dict(ctl)
                ctl2['breaks'] = brk
                ctl2.pop('grow', None)
                out = self.block(s.body, forget_targets(head), fr, ctl2)
                new = head.join(out)
                if new.leq(head):
                    break
                head = head.widen(new) if it >= 6 else new
            ex = head
            for b in brk:
                ex = ex.join(b)
            if s.orelse:
                ex = self.block(s.orelse, ex, fr, ctl)
            return ex
        if isinstance(s, ast.Break):
            ctl['breaks'].append(st.copy())
            return BOT()
        if isinstance(s, ast.Continue):
            return BOT()
        if isinstance(s, ast.Return):
            if s.value is not None:
                st = self.loads(st, s.value, fr)
            ctl['returns'].append((st.copy(), s.value))
            return BOT()
        if isinstance(s, ast.Raise):
            return BOT()
        if isinstance(s, (ast.Pass, ast.Assert, ast.Global, ast.Nonlocal, ast.Import, ast.ImportFrom, ast.FunctionDef, ast.ClassDef)):
            return st
        if isinstance(s, ast.With):
            return self.block(s.body, st, fr, ctl)
        if isinstance(s, ast.Try):
            a = self.block(s.body, st, fr, ctl)
            out = a
            # a try body made of plain name/attribute loads and stores (`t = self.state.fun`) raises only when a field of the chart is missing - a chart that was never
            # constructed or started, which is outside what the obligations quantify over: its handlers are not entered
            quiet = all(isinstance(b_, (ast.Assign, ast.Pass)) and all(isinstance(x_, (ast.Assign, ast.Name, ast.Attribute, ast.Constant, ast.expr_context)) for x_ in ast.walk(b_))
                        for b_ in s.body)
            for h in ([] if quiet else s.handlers):
                out = out.join(self.block(h.body, st.join(a), fr, ctl))
            if s.orelse:
                out = self.block(s.orelse, out, fr, ctl)
            if s.finalbody:
                out = self.block(s.finalbody, out, fr, ctl)
            return out
        raise AnalysisError('unsupported statement %s in %s' % (type(s).__name__, fr.func.qualname))

    # ---------------------------------------------------------------- counted for-loops
    def for_shape(self, s, bufs):
        """('range', a, b, step) | ('rslice', buf, n) for `for i in range(..)` / `for x in reversed(buf[:n])` / `for x in buf[n-1::-1]`-free forms, else None"""
        it = s.iter
        if isinstance(it, ast.Call) and isinstance(it.func, ast.Name) and it.func.id == 'range' and isinstance(s.target, ast.Name) and not it.keywords:
            a = it.args
            zero = ast.Constant(value=0)
            if len(a) == 1:
                return ('range', zero, a[0], 1)
            if len(a) == 2:
                return ('range', a[0], a[1], 1)
            if len(a) == 3:
                st = a[2]
                if isinstance(st, ast.UnaryOp) and isinstance(st.op, ast.USub) and isinstance(st.operand, ast.Constant) and st.operand.value == 1:
                    return ('range', a[0], a[1], -1)
                if isinstance(st, ast.Constant) and st.value == 1:
                    return ('range', a[0], a[1], 1)
            return None
        if isinstance(it, ast.Call) and isinstance(it.func, ast.Name) and it.func.id == 'reversed' and len(it.args) == 1 and isinstance(s.target, ast.Name):
            sl = it.args[0]
            if isinstance(sl, ast.Subscript) and isinstance(sl.value, ast.Name) and sl.value.id in bufs and isinstance(sl.slice, ast.Slice):
                lo, hi, stp = sl.slice.lower, sl.slice.upper, sl.slice.step
                if (lo is None or (isinstance(lo, ast.Constant) and lo.value == 0)) and hi is not None and stp is None:
                    return ('rslice', sl.value.id, hi)
            if isinstance(sl, ast.Name) and sl.id in bufs:
                return ('rslice', sl.id, ast.Call(func=ast.Name(id='len', ctx=ast.Load()), args=[ast.Name(id=sl.id, ctx=ast.Load())], keywords=[]))
        return None

    def ghost_name(self, s):
        return '_for_%d_%d' % (s.lineno, s.col_offset)

    def desugar_for(self, s, fr):
        """while-form of a counted for-loop over a ghost counter g (declared by _plan):
             for i in range(a, b, -1): B      ==>   g = a + 1; while g > b + 1: g -= 1; i = g; B
             for i in range(a, b, +1): B      ==>   g = a - 1; while g < b - 1: g += 1; i = g; B
             for x in reversed(buf[:n]): B    ==>   g = n;     while g > 0:     g -= 1; x = buf[g]; B
           (`continue` in B is safe: the counter moves at the top; i keeps its last value after the loop)"""
        shape = self.for_shape(s, fr.bufenv)
        g = self.ghost_name(s)
        if shape is None or g not in fr.intenv or s.orelse:
            return None

        def N(id_, store=False):
            return ast.Name(id=id_, ctx=ast.Store() if store else ast.Load())

        def plus(e, k):
            if k == 0:
                return e
            return ast.BinOp(left=e, op=ast.Add() if k > 0 else ast.Sub(), right=ast.Constant(value=abs(k)))
        if shape[0] == 'range':
            _, a, b, step = shape
            init = ast.Assign(targets=[N(g, True)], value=plus(a, -step))
            test = ast.Compare(left=N(g), ops=[ast.Gt() if step < 0 else ast.Lt()], comparators=[plus(b, -step)])
            move = ast.AugAssign(target=N(g, True), op=ast.Add() if step > 0 else ast.Sub(), value=ast.Constant(value=1))
            bind = ast.Assign(targets=[N(s.target.id, True)], value=N(g))
        else:
            _, buf, n = shape
            init = ast.Assign(targets=[N(g, True)], value=n)
            test = ast.Compare(left=N(g), ops=[ast.Gt()], comparators=[ast.Constant(value=0)])
            move = ast.AugAssign(target=N(g, True), op=ast.Sub(), value=ast.Constant(value=1))
            bind = ast.Assign(targets=[N(s.target.id, True)], value=ast.Subscript(value=N(buf), slice=N(g), ctx=ast.Load()))
        loop = ast.While(test=test, body=[move, bind] + list(s.body), orelse=[])
        key = id(s)
        if key not in self._desugared:
            for x in (init, loop):
                ast.copy_location(x, s)
                ast.fix_missing_locations(x)
            for x in (test, move, bind):
                for n_ in ast.walk(x):
                    if not hasattr(n_, 'lineno') or True:
                        n_.lineno, n_.col_offset = s.iter.lineno, s.iter.col_offset
                        n_.end_lineno, n_.end_col_offset = getattr(s.iter, 'end_lineno', s.iter.lineno), getattr(s.iter, 'end_col_offset', s.iter.col_offset)
            self._desugared[key] = [init, loop]
        return self._desugared[key]

    def inline(self, st, tgt, call, fr):
        callee = self.callees[call.func.attr]
        cfr = self.frames[callee]
        params = callee.params[1:]
        # bind
        cfr.bufenv = dict(cfr.bufenv)
        for p, a in zip(params, call.args):
            if self.is_buf(a, fr):
                cfr.bufenv[p] = fr.bufenv[a.id]
                cfr.intenv.pop(p, None)
            elif p in cfr.intenv:
                def f(fl, z, a=a, p=p):
                    r = self.iexpr(a, fr)
                    if r:
                        z.assign(cfr.intenv[p], r[0], r[1])
                    else:
                        z.forget(cfr.intenv[p])
                    return (fl, z)
                st = st.map(f)
        # locals of the callee that alias a buffer parameter are buffers too (none here) ; flags start unknown
        rets = []
        self.block(callee.node.body, st, cfr, {'returns': rets})
        res = BOT()
        for rz, val in rets:
            vals = val.elts if isinstance(val, ast.Tuple) else [val]
            tg = tgt.elts if isinstance(tgt, ast.Tuple) else [tgt]

            def f(fl, z):
                binds = []
                for t, v in zip(tg, vals):
                    if isinstance(t, ast.Name) and t.id in fr.intenv:
                        binds.append((fr.intenv[t.id], self.iexpr(v, cfr) if v is not None else None))
                for cv, r in binds:
                    if r:
                        z.assign(cv, r[0], r[1])
                    else:
                        z.forget(cv)
                for n in cfr.intenv.values():
                    z.forget(n)
                fl = {k: v for k, v in fl.items() if not k.startswith(cfr.prefix + '.') and not k.startswith('f:%s:' % cfr.prefix) and not k.startswith('b:%s.' % cfr.prefix)}
                return (fl, z)
            res = res.join(rz.map(f))
        return res

    # ---------------------------------------------------------------- driver
    def run(self):
        fr = self.frames[self.entry]
        z = Zone(self.names)
        rets = []
        self.block(self.entry.node.body, St.of(z), fr, {'returns': rets})
        return [self.obl[k] for k in self.order]
