"""Rule families over the event processor (HsmEventProcessor.init / dispatch / trans_ / is_in / child_state).
Shared by C01, C02, C03, C22, C24."""
import ast

from .model import AnalysisError, walk_shallow, dotted, norm
from .util import cfg_of, guarded_by_edge, status_const, compare_parts, local_defs, is_none, strip_not
from .hsmsites import classify_sites, handler_calls, receiver_of, reaching_defs
from .hsmbuf import BufferAnalysis, roles
from . import queues

_buf_cache = {}


def processor(model):
    return model.cls('HsmEventProcessor')


def buffer_analysis(model, entry_name):
    hep = processor(model)
    key = (id(model), entry_name)
    if key not in _buf_cache:
        entry = hep.methods.get(entry_name)
        if entry is None:
            raise AnalysisError('HsmEventProcessor.%s not found' % entry_name)
        callees = {}
        # methods of the processor that receive a path buffer from this entry
        bufs, ints, flags = roles(entry.node)
        for n in walk_shallow(entry.node):
            if isinstance(n, ast.Call) and isinstance(n.func, ast.Attribute) and dotted(n.func.value) == entry.params[0] \
                    and any(isinstance(a, ast.Name) and a.id in bufs for a in n.args):
                m = hep.methods.get(n.func.attr)
                if m is None:
                    raise AnalysisError('%s passes its path buffer to %s, which is not a processor method' % (entry.qualname, norm(n.func)))
                callees[n.func.attr] = m
        ba = BufferAnalysis(entry, callees)
        res = ba.run()
        _buf_cache[key] = (ba, res, callees)
    return _buf_cache[key]


def occurrence_key(node, func):
    """normalised text of a construct plus its ordinal among identical texts in the function (stable, line-free)"""
    txt = norm(node)
    same = [n for n in ast.walk(func.node) if type(n) is type(node) and norm(n) == txt]
    same.sort(key=lambda n: (n.lineno, n.col_offset))
    k = [i for i, n in enumerate(same) if n is node]
    return '%s #%d' % (txt, (k[0] + 1) if k else 0)


EXPLAIN = {
    'O1-store': 'store into the path buffer at an index that is not provably inside it',
    'O2-append': ('the append that "populates slot i" is not provably at index i: the high-water mark the guard compares with is not known to be '
                  'len(buffer)-1 here (a callee that grew the shared list returned without passing its mark back), so the appended state lands at a '
                  'larger index and slot i keeps a stale state from an earlier walk - the entry loop then enters the wrong states'),
    'O3-load': 'load from the path buffer at an index that is not provably inside it (a negative index silently wraps around in Python)',
}


def record_buffer_obligations(run, model, entry_name, rule='HSM-BUF'):
    ba, res, callees = buffer_analysis(model, entry_name)
    hep = processor(model)
    run.touch(hep.methods[entry_name])
    for c in callees.values():
        run.touch(c)
    for o in res:
        f = o['func']
        ok = o['verdict'] == 'OK'
        if o['verdict'] == 'UNRESOLVED':
            raise AnalysisError('%s: %s (%s)' % (f.qualname, o['state'], norm(o['node'])))
        run.inst(rule + '.' + o['kind'], f, occurrence_key(o['node'], f), ok,
                 '' if ok else '%s: %s; abstract state: %s' % (o['verdict'], EXPLAIN[o['kind']], o['state']), node=o['node'], obligation=True)
    return ba, res


# ---------------------------------------------------------------------------------------------- content of the path buffer

_content_cache = {}

EXPLAIN_CONTENT = {
    'O4-content': ('a state known to be the d-th ancestor of the transition target is stored into slot i of the path buffer, and d == i is not provable: '
                   'the entry loop walks the slots downwards as "i-th ancestor, ..., parent, target", so a shifted slot enters the wrong state or skips one'),
    'O5-content': ('an ENTRY call takes its handler from a slot of the path buffer that is not known to hold an ancestor of the current target (it is above the content '
                   'frontier: the slot still holds a state of an earlier walk, the source state, or a scratch value) - the chart would enter a state that is not on the '
                   'path to the target'),
    'O6-exit': ('an EXIT call is sent to a state that is not known to be the next one on the active chain (current state, its parent, ...): with NX exits made so far the '
                'call must go to the ancestor of the current state at depth NX - otherwise a state is exited twice, skipped, or a state that is not active is exited'),
    'O7-noraise': ('a raise statement of the processor can be reached by a chart that follows the handler protocol (every handler answers with a status, a parent differs from '
                   'its child, the target of an initial transition lies inside the state that takes it): a well-formed transition or start is aborted half-way - some exits '
                   'or entries have run, the rest have not, and the current state is stale'),
    'O8-offer': ('the event is not offered to the states of the active chain in order (current state first, then its parent, ...), or the guard fallback (EMPTY re-ask) '
                 'goes to another state than the one that has just declined: an inner state is skipped, or an outer state answers an event that an inner one would have handled'),
    'O9-init': ('INIT is sent to a state that is not known to be the current target (the state entered last): the initial transition of another state is taken, or the '
                'same state is asked again and again'),
    'O6-min': ('a common-ancestor test passes here for the pair (state of the active chain at depth m, target ancestor at depth q), but the states one level below on both sides '
               '(depth m-1 and q-1) have not been compared and found different on this path: a lower common ancestor may exist, so more states than necessary would be exited '
               'and re-entered (the tested common state is not the innermost one)'),
    'O6-cover': ('a state of the active chain is exited before any common-ancestor test has passed, i.e. it is given up as a candidate, but it has not been compared with every '
                 'ancestor of the target (slots 0..frontier), or the target\'s ancestor path was not collected up to the outermost state: the common ancestor can be missed, and '
                 'the climb then exits states above it (up to and including the outermost state) and never finds a match'),
    'O5-first': ('the first ENTRY after an initial transition (or after start) does not go to the state just below the one that took the transition: the walk that collects the entry '
                 'path did not stop at that state, so states that are already active are entered a second time (or states are skipped)'),
    'O6-lca': ('where the entry-path routine returns, the exits made and the entry index do not meet at one tested common state: it must have compared a state of the active '
               'chain at depth m with an ancestor of the target at depth q (identity/equality test passed on this path), have exited exactly the m states below it, and '
               'return q-1 so that entry starts just below it (for source == target the pair of parents is the common state: exit and re-enter the source)'),
}


def content_analysis(model, entry_name, cursor_at_entry):
    from .hsmcontent import ContentAnalysis
    key = (id(model), entry_name)
    if key not in _content_cache:
        ba, res, callees = buffer_analysis(model, entry_name)
        ca = ContentAnalysis(ba.entry, callees, cursor_is_target_at_entry=cursor_at_entry, track_source=(entry_name == 'dispatch'))
        _content_cache[key] = (ca, ca.run())
    return _content_cache[key]


def record_content_obligations(run, model, entry_name, cursor_at_entry=False, rule='HSM-CONTENT', kinds=None):
    """slot k of the path buffer holds the k-th ancestor of the target whenever it is used for entry (ghost frontier K, ghost depths d)"""
    ca, res = content_analysis(model, entry_name, cursor_at_entry)
    counts = {'O4-content': 0, 'O5-content': 0, 'O6-exit': 0, 'O6-lca': 0, 'O7-noraise': 0, 'O8-offer': 0, 'O9-init': 0, 'O6-min': 0, 'O6-cover': 0, 'O5-first': 0}
    for o in res:
        if o['kind'] not in counts or (kinds is not None and o['kind'] not in kinds):
            continue
        f = o['func']
        ok = o['verdict'] == 'OK'
        if o['verdict'] == 'UNRESOLVED':
            raise AnalysisError('%s: %s (%s)' % (f.qualname, o['state'], norm(o['node'])))
        counts[o['kind']] += 1
        run.inst(rule + '.' + o['kind'], f, occurrence_key(o['node'], f), ok,
                 '' if ok else '%s: %s; abstract state: %s' % (o['verdict'], EXPLAIN_CONTENT[o['kind']], o['state'][:700]), node=o['node'], obligation=True)
    return counts


# ---------------------------------------------------------------------------------------------- entry loops (O5)

def entry_loops(run, model, entry_name, rule='HSM-BUF.O5-entry-loop'):
    """loops that enter the states of the path buffer: slots j = start, start-1, ..., 0, each once, outermost first"""
    ba, res, callees = buffer_analysis(model, entry_name)
    hep = processor(model)
    n_loops = 0
    for f in [hep.methods[entry_name]] + list(callees.values()):
        g = cfg_of(f)
        fr = ba.frames[f]
        sites = classify_sites(f)
        defs = local_defs(f.node)
        for h in g.loop_heads():
            if h.kind not in ('test', 'for'):
                continue
            body = g.loop_body(h)
            calls = []
            for n, c, txt, sigs in sites:
                if n not in body or sigs != {'ENTRY'}:
                    continue
                # directly in this loop (not in a nested loop)
                inner_heads = [x for x in g.loop_heads() if x is not h and x in body and n in g.loop_body(x)]
                if inner_heads:
                    continue
                calls.append((n, c))
            if not calls:
                continue
            n_loops += 1
            if h.kind == 'for':
                _entry_for_loop(run, rule, f, g, h, body, calls, ba, fr)
                continue
            # index variable: subscript of the buffer in the callee expression (or in the single definition of the callee local)
            idxvars = set()
            for n, c in calls:
                fn = c.func
                if isinstance(fn, ast.Name):
                    ds = [d for d in defs.get(fn.id, []) if not isinstance(d, tuple)]
                    fn = ds[0] if len(ds) == 1 else fn
                if isinstance(fn, ast.Subscript) and isinstance(fn.value, ast.Name) and fn.value.id in fr.bufenv and isinstance(fn.slice, ast.Name):
                    idxvars.add(fn.slice.id)
                else:
                    run.inst(rule, f, 'entry loop enters ' + norm(c.func), False,
                             'an ENTRY call inside an entry loop does not take its handler from the path buffer (%s)' % norm(c.func), node=c, obligation=True)
            if len(idxvars) != 1:
                continue
            j = idxvars.pop()
            decs = [n for n in body if n.kind == 'stmt' and isinstance(n.ast, ast.AugAssign) and isinstance(n.ast.target, ast.Name) and n.ast.target.id == j]
            others = [n for n in body if n.kind == 'stmt' and isinstance(n.ast, ast.Assign) and any(isinstance(t, ast.Name) and t.id == j for t in ast.walk(n.ast) if isinstance(t, ast.Name) and isinstance(t.ctx, ast.Store))]
            start = [m for m, l in g.succ[h] if l == 'true']
            per_dec = queues.count(g, decs, start=start[0], end=h) if start else None
            per_call = queues.count(g, [n for n, c in calls], start=start[0], end=h) if start else None
            # iterations that leave through a break also count once
            step_ok = all(isinstance(d.ast.op, ast.Sub) and isinstance(d.ast.value, ast.Constant) and d.ast.value.value == 1 for d in decs) and bool(decs)
            key = 'entry loop over %s[%s]' % (sorted(fr.bufenv)[0] if fr.bufenv else '?', j)
            brk = [n for n in g.nodes if n.kind == 'stmt' and isinstance(n.ast, ast.Break) and any(x is n.ast for x in ast.walk(h.stmt))
                   and not any(x is n.ast for hh in g.loop_heads() if hh is not h and hh in body for x in ast.walk(hh.stmt))]
            full_iter_dec = per_dec
            if brk and start:
                # loops of the form `while True: ...; if j <= 0: break`: count along start -> break as well
                per_dec_b = g.count_on_paths(lambda n_: 1 if n_ in decs else 0, start=start[0], end=brk[0], edge_ok=lambda a, b, l: b is not h)
                per_call_b = g.count_on_paths(lambda n_: 1 if n_ in [x for x, _c in calls] else 0, start=start[0], end=brk[0], edge_ok=lambda a, b, l: b is not h)
            else:
                per_dec_b = per_call_b = None
            ok = step_ok and not others and (per_dec in ((1, 1), None)) and (per_dec_b in ((1, 1), None)) and (per_dec is not None or per_dec_b is not None)
            run.inst(rule, f, key + ': index steps by exactly -1 once per iteration', ok,
                     '' if ok else 'the entry loop changes its index %s by something other than exactly one `-= 1` per iteration (decrements per iteration: %s/%s, other writes: %d): '
                     'states on the entry path are skipped or entered twice' % (j, per_dec, per_dec_b, len(others)), node=h.ast, obligation=True)
            ok = (per_call in ((1, 1), None)) and (per_call_b in ((1, 1), None)) and (per_call is not None or per_call_b is not None)
            run.inst(rule, f, key + ': exactly one ENTRY call per iteration', ok,
                     '' if ok else 'an iteration of the entry loop makes %s/%s ENTRY calls' % (per_call, per_call_b), node=h.ast, obligation=True)
            # exit value of the index: pre-decrement loops end at 0, post-decrement loops at -1
            pre = all(any(g.dominates(d, n) and d in body for d in decs) for n, c in calls) and bool(decs)
            want = 0 if pre else -1
            ex = ba.loop_exit.get(id(h.stmt))
            ok = False
            state_txt = ''
            if ex is not None:
                st, xfr = ex
                v = xfr.intenv.get(j)
                ok = v is not None and not st.isbot() and all(z.entails(v, '0', want) and z.entails('0', v, -want) for z in st.parts.values() if not z.bot)
                state_txt = st.show()
            run.inst(rule, f, key + ': the loop ends exactly after slot 0 (index == %d at exit)' % want, ok,
                     '' if ok else ('at the exit of the entry loop the index %s is not provably %d: the loop stops before the target (slot 0) was entered or runs past it '
                                    'into negative indices; abstract exit state: %s' % (j, want, state_txt)), node=h.ast, obligation=True)
    return n_loops


def _entry_for_loop(run, rule, f, g, h, body, calls, ba, fr):
    """counted form of an entry loop: `for x in reversed(buf[:n])` / `for i in range(a, -1, -1): buf[i](..)` visits the slots n-1..0 (a..0) once each,
    in descending order, by the semantics of the iteration; what is left to decide is that the body uses the loop variable for exactly one ENTRY call
    per iteration, never rebinds it and never leaves early"""
    st = h.stmt
    shape = ba.for_shape(st, fr.bufenv)
    key = 'entry loop `for %s in %s`' % (norm(st.target), norm(st.iter))
    if shape is None:
        raise AnalysisError('%s: ENTRY calls inside a for-loop of an unrecognised form (%s)' % (f.qualname, norm(st.iter)))
    tname = st.target.id
    rebinding = [n for n in body if n.kind == 'stmt' and any(isinstance(t, ast.Name) and isinstance(t.ctx, ast.Store) and t.id == tname for t in ast.walk(n.ast))]
    early = [n for n in body if n.kind == 'stmt' and isinstance(n.ast, (ast.Break, ast.Return)) and any(x is n.ast for x in ast.walk(st))
             and not any(x is n.ast for hh in g.loop_heads() if hh is not h and hh in body for x in ast.walk(hh.stmt))]
    if shape[0] == 'rslice':
        uses_var = all(isinstance(c.func, ast.Name) and c.func.id == tname for n, c in calls)
        order_ok = True
        ends_ok = True
    else:
        _, a, b, step = shape
        from .util import expand_locals

        def through_var(c):
            fn = c.func
            if isinstance(fn, ast.Name):                                # `fn = buf[i]; fn(self, e)` is buf[i](self, e) (one level: the buffer itself is not expanded)
                ds_ = [d_ for d_ in local_defs(f.node).get(fn.id, []) if isinstance(d_, ast.AST)]
                if len(ds_) == 1 and isinstance(ds_[0], ast.Subscript):
                    fn = ds_[0]
            return isinstance(fn, ast.Subscript) and isinstance(fn.value, ast.Name) and fn.value.id in fr.bufenv and isinstance(fn.slice, ast.Name) and fn.slice.id == tname
        uses_var = all(through_var(c) for n, c in calls)
        order_ok = step == -1
        ends_ok = isinstance(b, ast.UnaryOp) and isinstance(b.op, ast.USub) and isinstance(b.operand, ast.Constant) and b.operand.value == 1
    start = [m for m, l in g.succ[h] if l == 'iter']
    per_call = queues.count(g, [n for n, c in calls], start=start[0], end=h) if start else None
    ok = uses_var and order_ok and not rebinding
    run.inst(rule, f, key + ': index steps by exactly -1 once per iteration', ok,
             '' if ok else 'the counted entry loop does not walk the path buffer downwards through its own loop variable (uses loop variable: %s, descending: %s, rebinds it: %d)'
             % (uses_var, order_ok, len(rebinding)), node=st, obligation=True)
    ok = per_call == (1, 1)
    run.inst(rule, f, key + ': exactly one ENTRY call per iteration', ok, '' if ok else 'an iteration of the entry loop makes %s ENTRY calls' % (per_call,), node=st, obligation=True)
    ok = ends_ok and not early
    run.inst(rule, f, key + ': the loop ends exactly after slot 0', ok,
             '' if ok else 'the counted entry loop does not run down to slot 0 (stop value %s, early exits: %d): the target state is not entered'
             % (norm(shape[2]) if shape[0] == 'range' else '-', len(early)), node=st, obligation=True)


# ---------------------------------------------------------------------------------------------- LCA match rule

def lca_match_rule(run, model, rule='HSM-LCA.match'):
    """in trans_: where a source-side ancestor is found equal to slot iq of the target's ancestor path, entry starts at slot iq-1
    (the least common ancestor itself is not entered) and the search stops"""
    hep = processor(model)
    f = hep.methods.get('trans_')
    if f is None:
        raise AnalysisError('HsmEventProcessor.trans_ not found')
    g = cfg_of(f)
    bufs, ints, flags = roles(f.node)
    bufs = bufs | {f.params[1]}
    rets = [n for n in walk_shallow(f.node) if isinstance(n, ast.Return) and isinstance(n.value, ast.Name)]
    if len(rets) != 1:
        raise AnalysisError('trans_: expected a single `return <entry index>`')
    ipv = rets[0].value.id
    n = 0
    for t in g.nodes:
        if t.kind != 'test':
            continue
        cp = compare_parts(t.ast)
        if not cp or cp[1] not in (ast.Is, ast.Eq):
            continue
        sub = [x for x in (cp[0], cp[2]) if isinstance(x, ast.Subscript) and isinstance(x.value, ast.Name) and x.value.id in bufs and isinstance(x.slice, ast.Name)]
        if len(sub) != 1:
            continue
        qv = sub[0].slice.id
        n += 1
        assigns = [m for m in g.nodes if m.kind == 'stmt' and isinstance(m.ast, ast.Assign) and guarded_by_edge(g, m, t, 'true')
                   and any(isinstance(x, ast.Name) and x.id == ipv for tg in m.ast.targets for x in ([tg] if isinstance(tg, ast.Name) else []))]
        ok = len(assigns) == 1 and isinstance(assigns[0].ast.value, ast.BinOp) and isinstance(assigns[0].ast.value.op, ast.Sub) \
            and isinstance(assigns[0].ast.value.left, ast.Name) and assigns[0].ast.value.left.id == qv \
            and isinstance(assigns[0].ast.value.right, ast.Constant) and assigns[0].ast.value.right.value == 1
        run.inst(rule, f, 'match on %s: entry index = %s - 1' % (norm(sub[0]), qv), ok,
                 '' if ok else ('where the search finds the common ancestor in slot %s, the entry index is set by %s instead of %s - 1: the common ancestor '
                                'itself is re-entered, or the state just below it is skipped' % (qv, [norm(a.ast) for a in assigns], qv)), node=t.ast, obligation=True)
        # the scan index is then driven below zero (search ends) on that branch
        ends = [m for m in g.nodes if m.kind == 'stmt' and isinstance(m.ast, ast.Assign) and guarded_by_edge(g, m, t, 'true')
                and any(isinstance(tg, ast.Name) and tg.id == qv for tg in m.ast.targets)]
        ok = any(isinstance(m.ast.value, ast.UnaryOp) and isinstance(m.ast.value.op, ast.USub) for m in ends)
        run.inst(rule, f, 'match on %s ends the scan' % norm(sub[0]), ok, '' if ok else 'after a match the scan index is not driven below zero', node=t.ast, obligation=True)
    run.floor('LCA match tests against the target ancestor path', n, 2)
    # (e): when the walk up from the target reaches S, S itself is stored but not entered: `ip -= 1` on that branch
    stests = [t for t in g.nodes if t.kind == 'test' and compare_parts(t.ast) and compare_parts(t.ast)[1] in (ast.Is, ast.Eq)
              and any(dotted(x) and dotted(x).endswith('.temp.fun') for x in (compare_parts(t.ast)[0], compare_parts(t.ast)[2]))
              and any(h for h in g.loop_heads() if t in g.loop_body(h))]
    for t in stests:
        decs = [m for m in g.nodes if m.kind == 'stmt' and isinstance(m.ast, ast.AugAssign) and isinstance(m.ast.target, ast.Name) and m.ast.target.id == ipv
                and guarded_by_edge(g, m, t, 'true')]
        ok = len(decs) == 1 and isinstance(decs[0].ast.op, ast.Sub) and isinstance(decs[0].ast.value, ast.Constant) and decs[0].ast.value.value == 1
        run.inst(rule, f, 'target-side walk reaches the source: source is not entered (entry index - 1)', ok,
                 '' if ok else 'when the walk up from the target reaches the source state the entry index is not stepped back by one: the source is re-entered or a state skipped',
                 node=t.ast, obligation=True)
    return n


# ---------------------------------------------------------------------------------------------- chart.trans(fn): the handler-side half of H3

def trans_api_rule(run, model, rule='HSM-TRANS'):
    """H3 says a handler that wants a transition calls chart.trans(x) and returns its result: trans must put x into the cursor and answer TRAN"""
    hep = processor(model)
    f = hep.methods.get('trans')
    if f is None or len(f.params) < 2:
        raise AnalysisError('HsmEventProcessor.trans(self, fn) not found')
    g = cfg_of(f)
    run.touch(f, g)
    selfn, fnp = f.params[0], f.params[1]
    stores = [n for n in g.nodes if n.kind == 'stmt' and isinstance(n.ast, ast.Assign) and any(dotted(t) == selfn + '.temp.fun' for t in n.ast.targets)]
    rets = [n for n in g.nodes if n.kind == 'stmt' and isinstance(n.ast, ast.Return)]
    falls = [p_ for p_, lab in g.pred[g.exit] if lab != 'return']
    ok = bool(rets) and not falls and all(r.ast.value is not None and status_const(r.ast.value) == 'TRAN' for r in rets)
    run.inst(rule, f, 'trans answers TRAN on every path', ok,
             '' if ok else 'chart.trans() does not return return_status.TRAN on every path: a handler that does `return chart.trans(x)` does not request the transition', obligation=True)
    good = [n for n in stores if isinstance(n.ast.value, ast.Name) and n.ast.value.id == fnp]
    ok = bool(good) and len(good) == len(stores) and all(any(g.dominates(s_, r) for s_ in good) for r in rets)
    run.inst(rule, f, 'trans stores its argument in the cursor before it returns', ok,
             '' if ok else ('chart.trans(x) does not leave x in the cursor (temp.fun) on every path: the processor reads the target of a transition from the cursor, so it would '
                            'transition to whatever state the cursor happened to hold'), obligation=True)
    others = sorted({dotted(t) for n in g.nodes if n.kind == 'stmt' and isinstance(n.ast, (ast.Assign, ast.AugAssign)) for t in (n.ast.targets if isinstance(n.ast, ast.Assign) else [n.ast.target])
                     if dotted(t) and dotted(t).startswith(selfn + '.') and dotted(t) != selfn + '.temp.fun'})
    run.inst(rule, f, 'trans changes nothing but the cursor', not others, '' if not others else 'chart.trans() also writes %s' % others, obligation=True)


# ---------------------------------------------------------------------------------------------- signal sets

ALLOWED_SIGNALS = {
    'init': {'SUPER', 'ENTRY', 'INIT'},
    'is_in': {'SUPER'},
    'child_state': {'SUPER'},
    'trans_': {'SUPER', 'EXIT'},
    'dispatch': {'USER', 'EMPTY', 'EXIT', 'SUPER', 'ENTRY', 'INIT'},
}


def signal_sets(run, model, names, rule='HSM-SIGSET'):
    hep = processor(model)
    total = 0
    for nm in names:
        f = hep.methods.get(nm)
        if f is None:
            raise AnalysisError('HsmEventProcessor.%s not found' % nm)
        run.touch(f, cfg_of(f))
        sites = classify_sites(f, user_params=f.params[1:2] if nm == 'dispatch' else [])
        total += len(sites)
        for n, c, txt, sigs in sites:
            if any(s.startswith('UNKNOWN') or s.startswith('OTHER') or s == 'NOEVENT' for s in sigs):
                raise AnalysisError('%s: the signal sent by %s cannot be resolved (%s)' % (f.qualname, norm(c), sorted(sigs)))
            bad = sigs - ALLOWED_SIGNALS[nm]
            run.inst(rule, f, '%s sends %s' % (occurrence_key(c, f), '/'.join(sorted(sigs))), not bad,
                     '' if not bad else '%s sends %s to a state handler; this method may only send %s (e.g. start_at must not exit anything, a query must run no action)'
                     % (nm, sorted(bad), sorted(ALLOWED_SIGNALS[nm])), node=c, obligation=True)
    return total


# ---------------------------------------------------------------------------------------------- cursor invariant I1

def cursor_restored_on_failure(run, model, names, rule='HSM-CURSOR.I1'):
    """queries that can fail (assert / raise after the walk moved the cursor) restore the cursor before they fail"""
    hep = processor(model)
    for nm in names:
        f = hep.methods.get(nm)
        g = cfg_of(f)
        selfn = f.params[0]
        hc = [n for n, c in handler_calls(g, f)]
        restores = [n for n in g.nodes if n.kind == 'stmt' and isinstance(n.ast, ast.Assign) and any(dotted(t) == selfn + '.temp.fun' for t in n.ast.targets)
                    and dotted(n.ast.value) == selfn + '.state.fun']
        fails = [n for n in g.nodes if n.kind == 'stmt' and isinstance(n.ast, (ast.Assert, ast.Raise)) and any(g.exists_path(h, n) for h in hc)]
        for n in fails:
            # on every path from a handler call to the failing statement a restore intervenes
            ok = all(not g.exists_path(h, n, avoiding=restores) for h in hc if g.exists_path(h, n))
            run.inst(rule, f, '%s restores the cursor before it can fail at `%s`' % (nm, norm(n.ast)), ok,
                     '' if ok else ('%s can raise at `%s` after its walk moved the cursor and before the cursor is put back: a failed query leaves temp.fun on an outer state, '
                                    'the next is_in() answers from there and the next dispatch offers its event to the wrong state' % (nm, norm(n.ast))), node=n.ast, obligation=True)


def cursor_invariant(run, model, names, rule='HSM-CURSOR.I1'):
    """at every normal exit temp.fun == state.fun: decided per exit by value numbering of the cursor, the state and the locals
    (a handler call gives the cursor a fresh value; `temp.fun = state.fun`, or both assigned the same local, makes them equal again)"""
    hep = processor(model)
    for nm in names:
        f = hep.methods.get(nm)
        if f is None:
            raise AnalysisError('HsmEventProcessor.%s not found' % nm)
        g = cfg_of(f)
        IN, OUT, s0 = cursor_state_values(f, g)
        exits = [p for p, lab in g.pred[g.exit]]
        bad = []
        for p in exits:
            st = OUT.get(p)
            if st is None:
                continue
            if st.get('@temp') != st.get('@state'):
                bad.append(p)
        ok = not bad and bool(exits)
        run.inst(rule, f, '%s leaves temp.fun == state.fun' % nm, ok,
                 '' if ok else ('%s can return (after `%s`) with the cursor (temp.fun) not provably equal to the state (state.fun). The next dispatch starts its search at the cursor, '
                                'is_in()/child_state() walk from it, and the exit walk of a transition assumes both agree' % (nm, bad[0].text() if bad else '?')),
                 node=bad[0].ast if bad and hasattr(bad[0].ast, 'lineno') else None, obligation=True)


# ---------------------------------------------------------------------------------------------- parent reads (typestate)

def parent_read_typestate(run, model, names, rule='HSM-CURSOR.parent-read'):
    """after x(self, EXIT) the cursor holds parent(x) only if x did not answer HANDLED: a read of temp.fun as "the parent" must be
    preceded by x(self, SUPER) on the HANDLED branch"""
    hep = processor(model)
    n_sites = 0
    for nm in names:
        f = hep.methods.get(nm)
        g = cfg_of(f)
        selfn = f.params[0]
        sites = classify_sites(f, user_params=f.params[1:2] if nm == 'dispatch' else [])
        reads = [n for n in g.nodes if n.kind == 'stmt' and isinstance(n.ast, ast.Assign) and
                 any(dotted(v) == selfn + '.temp.fun' for v in ([n.ast.value] + (list(n.ast.value.elts) if isinstance(n.ast.value, ast.Tuple) else [])))]
        supers = [n for n, c, txt, sigs in sites if sigs == {'SUPER'}]
        anycall = [n for n, c, txt, sigs in sites]
        for en, ec, txt, sigs in sites:
            if sigs != {'EXIT'}:
                continue
            for r in reads:
                # is r the next cursor read after this exit call (no other handler call in between except SUPER)?
                others = [x for x in anycall if x is not en]
                if not g.exists_path(en, r, avoiding=others):
                    continue
                n_sites += 1
                # the paths en -> r that avoid every SUPER call must leave a `== HANDLED` test on its false edge
                tests = [t for t in g.nodes if t.kind == 'test' and any(status_const(x) == 'HANDLED' for x in ast.walk(t.ast)) and
                         isinstance(t.ast, ast.Compare) and isinstance(t.ast.ops[0], (ast.Eq, ast.Is))]

                def edge_ok(a, b, lab):
                    if a in tests and lab == 'true':
                        return False
                    return True
                # paths that take a true edge of a HANDLED test must meet a SUPER call
                def edge_ok2(a, b, lab):
                    return True
                # 1) there must be a HANDLED test between
                between = [t for t in tests if (t is en or g.exists_path(en, t, avoiding=others)) and g.exists_path(t, r, avoiding=[x for x in others if x not in supers])]
                ok = False
                if between:
                    t = between[0]
                    # true branch reaches r only through a SUPER call on the same handler
                    succ_true = [m for m, l in g.succ[t] if l == 'true']
                    ok = bool(succ_true) and all(not g.exists_path(m, r, avoiding=supers) and m is not r or m in supers for m in succ_true)
                    if ok:
                        for m in succ_true:
                            if m in supers:
                                continue
                            ok = ok and not g.exists_path(m, r, avoiding=supers)
                    # the SUPER call asks the same handler
                    for s_ in supers:
                        if any(g.exists_path(m, s_) or m is s_ for m in succ_true) and g.exists_path(s_, r, avoiding=[x for x in others if x is not s_]):
                            sc = [c for n2, c, t2, sg in sites if n2 is s_]
                            if sc and norm(sc[0].func) != norm(ec.func):
                                ok = False
                run.inst(rule, f, 'after %s the parent is read only once it is known' % occurrence_key(ec, f), ok,
                         '' if ok else ('after the exit action of a state the code reads temp.fun as that state\'s parent, but a handler that answers HANDLED to EXIT leaves the '
                                        'cursor untouched; without the `if status == HANDLED: <state>(self, SEARCH_FOR_SUPER)` step the walk re-exits the same state forever or '
                                        'climbs from a stale cursor'), node=ec, obligation=True)
    return n_sites


# ---------------------------------------------------------------------------------------------- outcome discipline (C02)

def _status_test(t, var, const, ops):
    """is test node t a comparison `var <op> return_status.const` with op in ops (either operand order)"""
    cp = compare_parts(t.ast)
    if not cp:
        return False
    l, op, r = cp
    if isinstance(l, ast.Name) and l.id == var and status_const(r) == const and op in ops:
        return True
    if isinstance(r, ast.Name) and r.id == var and status_const(l) == const and op in ops:
        return True
    return False


def outcome_rules(run, model, rule='HSM-OUTCOME'):
    hep = processor(model)
    f = hep.methods.get('dispatch')
    if f is None:
        raise AnalysisError('HsmEventProcessor.dispatch not found')
    g = cfg_of(f)
    run.touch(f, g)
    selfn = f.params[0]
    sites = classify_sites(f, user_params=f.params[1:2])
    users = [(n, c) for n, c, txt, sigs in sites if sigs == {'USER'}]
    if not users:
        raise AnalysisError('dispatch: no site offers the caller\'s event to a state')
    rvs = set()
    for un, uc in users:
        if not (isinstance(un.ast, ast.Assign) and len(un.ast.targets) == 1 and isinstance(un.ast.targets[0], ast.Name) and un.ast.value is uc):
            raise AnalysisError('dispatch: the result of the event offer %s is not bound to a local' % norm(uc))
        rvs.add(un.ast.targets[0].id)
    if len(rvs) != 1:
        raise AnalysisError('dispatch: event offers bind their answers to different locals %s' % sorted(rvs))
    rv = rvs.pop()
    tran_tests = [t for t in g.nodes if t.kind == 'test' and (_status_test(t, rv, 'TRAN', (ast.GtE, ast.Eq, ast.Is)))]
    if len(tran_tests) != 1:
        raise AnalysisError('dispatch: expected one `result >= TRAN` outcome test, found %d' % len(tran_tests))
    tt = tran_tests[0]
    unodes = [n for n, c in users]
    rd, valmap = reaching_defs(g, f.params)
    # the search region: everything between an offer and the outcome test
    region = set()
    for un in unodes:
        region |= g.reachable(un, avoiding=[tt])
    region = {n for n in region if g.exists_path(n, tt) or n is tt}
    un_tests = [t for t in region if t.kind == 'test' and _status_test(t, rv, 'UNHANDLED', (ast.Eq, ast.Is))]
    empties = [(n, c) for n, c, txt, sigs in sites if sigs == {'EMPTY'} and n in region]
    for un, uc in users:
        key = occurrence_key(uc, f)
        others = [x for x in unodes if x is not un]
        # S1: offered to the state the cursor points at
        cv = uc.func.id if isinstance(uc.func, ast.Name) else None
        if cv is not None:
            ds = rd[un].get(cv, set())
            vals = [valmap.get(d) for d in ds if d[0] != 'param']
            ok = bool(vals) and all(v is not None and dotted(v) == selfn + '.temp.fun' for v in vals) and len(vals) == len(ds)
        else:
            ok = dotted(uc.func) == selfn + '.temp.fun'
        run.inst(rule + '.search', f, 'offer %s goes to the state the cursor points at' % key, ok,
                 '' if ok else 'the state the event is offered to is not re-read from the cursor (temp.fun) before this offer: the search does not move outward', node=uc, obligation=True)
        # S2: an UNHANDLED answer is re-asked with EMPTY before it can leave the search
        leak = g.exists_path(un, tt, avoiding=un_tests + others)
        run.inst(rule + '.search', f, 'an UNHANDLED answer to %s is always re-asked (guard fallback)' % key, not leak,
                 '' if not leak else ('the answer of %s can reach the outcome switch without passing a `== UNHANDLED` test: when this state declines the event (a failed guard) '
                                      'the event is neither passed to its parent nor reported as ignored - it is silently swallowed' % norm(uc)), node=uc, obligation=True)
        # S3: the search is left only when the answer is not SUPER
        def not_super_edge(a, b, lab):
            if a.kind == 'test':
                if _status_test(a, rv, 'SUPER', (ast.NotEq, ast.IsNot)) and lab == 'true':
                    return False
                if _status_test(a, rv, 'SUPER', (ast.Eq, ast.Is)) and lab == 'false':
                    return False
            return b not in others
        leak = tt in g.reachable(un, edge_ok=not_super_edge)
        run.inst(rule + '.search', f, 'after %s the search ends only when the answer is not SUPER' % key, not leak,
                 '' if not leak else 'the outcome switch can be reached from %s without the answer having been tested against SUPER: a state that names its parent stops the bubbling'
                 % norm(uc), node=uc, obligation=True)
    # the UNHANDLED tests lead to an EMPTY re-ask of the same state whose answer replaces the steering variable
    run.inst(rule + '.search', f, 'guard fallback present', bool(un_tests) and bool(empties),
             '' if un_tests and empties else 'the search has no UNHANDLED -> EMPTY re-ask: a state that declines the event (failed guard) no longer passes it to its parent', obligation=True)
    ucallees = {norm(c.func) for n, c in users}
    for t in un_tests:
        mine = [(n, c) for n, c in empties if guarded_by_edge(g, n, t, 'true')]
        ok = len(mine) >= 1
        run.inst(rule + '.search', f, 're-ask exactly when the state answered UNHANDLED', ok, 'an UNHANDLED test has no EMPTY re-ask on its true branch', node=t.ast, obligation=True)
        for n, c in mine:
            ok = isinstance(n.ast, ast.Assign) and len(n.ast.targets) == 1 and isinstance(n.ast.targets[0], ast.Name) and n.ast.targets[0].id == rv and n.ast.value is c
            run.inst(rule + '.search', f, 'the re-ask result replaces the result that steers the search', ok,
                     '' if ok else 'the result of the EMPTY re-ask is not assigned to the search\'s status variable: the search still sees UNHANDLED, leaves, and the event is dropped', node=c, obligation=True)
            ok = norm(c.func) in ucallees
            run.inst(rule + '.search', f, 'the re-ask goes to the same state', ok, 're-ask goes to %s' % norm(c.func), node=c, obligation=True)
    for n, c in empties:
        ok = any(guarded_by_edge(g, n, t, 'true') for t in un_tests)
        run.inst(rule + '.search', f, 'EMPTY is sent only as the UNHANDLED fallback', ok, 'an EMPTY query is sent without the state having answered UNHANDLED', node=c, obligation=True)
    # S4: a SUPER answer leads to another offer
    sup_tests = [t for t in region if t.kind == 'test' and (_status_test(t, rv, 'SUPER', (ast.NotEq, ast.IsNot, ast.Eq, ast.Is)))]
    ok = False
    for t in sup_tests:
        lab = 'false' if _status_test(t, rv, 'SUPER', (ast.NotEq, ast.IsNot)) else 'true'
        for m_, l_ in g.succ[t]:
            if l_ == lab and any(m_ is u or g.exists_path(m_, u) for u in unodes):
                ok = True
    run.inst(rule + '.search', f, 'a SUPER answer leads to another offer (the search loops outward)', ok,
             '' if ok else 'after a state names its parent (SUPER) the event is not offered again: it never reaches the enclosing states', obligation=True)
    # S5/S6: only handlers move the cursor in the search region; no other handler calls there
    cw = [n for n in region if n.kind == 'stmt' and isinstance(n.ast, ast.Assign) and any(dotted(t) == selfn + '.temp.fun' for t in n.ast.targets)]
    run.inst(rule + '.search', f, 'only handlers move the cursor during the search', not cw, 'dispatch rewrites temp.fun during the search', obligation=True)
    other = [(n, c) for n, c, txt, sigs in sites if n in region and n not in unodes and (n, c) not in empties and n is not tt]
    run.inst(rule + '.search', f, 'no other handler call during the search', not other, 'additional handler calls in the search: %s' % [norm(c) for n, c in other], obligation=True)
    body = region
    # (b) outcome switch: every later handler call is on the TRAN branch
    after = [(n, c) for n, c, txt, sigs in sites if n not in body]
    tran_tests = [t for t in g.nodes if t.kind == 'test' and (_status_test(t, rv, 'TRAN', (ast.GtE, ast.Eq, ast.Is)))]
    if len(tran_tests) != 1:
        raise AnalysisError('dispatch: expected one `result >= TRAN` outcome test, found %d' % len(tran_tests))
    tt = tran_tests[0]
    for n, c in after:
        ok = guarded_by_edge(g, n, tt, 'true')
        run.inst(rule + '.no-action', f, 'handler call only on the transition outcome: ' + occurrence_key(c, f), ok,
                 '' if ok else 'a state handler is called (%s) on an outcome that is not a transition: a handled or ignored event runs entry/exit/init actions' % norm(c), node=c, obligation=True)
    tcalls = [n for n in g.nodes if n.kind not in ('entry', 'exit', 'xexit', 'def') and
              any(isinstance(c.func, ast.Attribute) and dotted(c.func.value) == selfn and c.func.attr in ('trans_', 'init') for c in n.calls())]
    for n in tcalls:
        ok = guarded_by_edge(g, n, tt, 'true')
        run.inst(rule + '.no-action', f, 'transition machinery only on the transition outcome', ok, 'trans_ is called on a non-transition outcome', node=n.ast, obligation=True)
    # on every exit that was not reached through the TRAN branch the state is still the state at entry
    def not_tran(a, b, lab):
        return not (a is tt and lab == 'true')
    IN, OUT, s0 = cursor_state_values(f, g, edge_ok=not_tran)
    exits = [p for p, lab in g.pred[g.exit] if p in OUT]
    badx = [p for p in exits if OUT[p].get('@state') != s0]
    ok = bool(exits) and not badx
    run.inst(rule + '.no-action', f, 'on a non-transition outcome the stored state is the state at entry', ok,
             '' if ok else 'on a handled/ignored outcome state.fun can receive something other than the state the chart was in when the event arrived (exit after `%s`)'
             % (badx[0].text() if badx else '?'), obligation=True)
    # (c) top
    top = processor(model).methods.get('top')
    if top is None:
        raise AnalysisError('HsmEventProcessor.top not found')
    rets = [n for n in walk_shallow(top.node) if isinstance(n, ast.Return)]
    tdefs = local_defs(top.node)
    ok = bool(rets)
    for r in rets:
        v = r.value
        if isinstance(v, ast.Name):
            ds = [d for d in tdefs.get(v.id, []) if not isinstance(d, tuple)]
            ok = ok and bool(ds) and all(status_const(d) == 'IGNORED' for d in ds)
        else:
            ok = ok and v is not None and status_const(v) == 'IGNORED'
    run.inst(rule + '.top', top, 'top answers IGNORED to everything', ok,
             '' if ok else 'the outermost state no longer answers IGNORED: an event nobody handles is not reported as ignored / the search does not end at top', obligation=True)
    writes = [n for n in walk_shallow(top.node) if isinstance(n, (ast.Assign, ast.AugAssign)) and
              any(isinstance(t, (ast.Attribute, ast.Subscript)) for t in (n.targets if isinstance(n, ast.Assign) else [n.target]))]
    calls = [n for n in walk_shallow(top.node) if isinstance(n, ast.Call)]
    run.inst(rule + '.top', top, 'top has no effect', not writes and not calls, 'top writes state or calls something: %s' % [norm(w) for w in writes + calls], obligation=True)
    # overrides delegate on every path that does not answer HANDLED
    from . import wrap
    for k in model.subclasses(processor(model)):
        o = k.methods.get('top')
        if o is None:
            continue
        go = cfg_of(o)
        run.touch(o, go)
        dn = [n for n in go.nodes if wrap.delegation_calls(n, o)]
        hn = [n for n in go.nodes if n.kind == 'stmt' and any(status_const(x) == 'HANDLED' for x in n.walk())]
        # every path has a delegation or a HANDLED assignment/return
        cnt = go.count_on_paths(lambda n: 1 if (n in dn or n in hn) else 0)
        ok = cnt is not None and cnt[0] >= 1
        run.inst(rule + '.top', o, 'override of top delegates to the base unless it handles the event itself', ok,
                 '' if ok else 'a path of %s neither handles the event nor asks the base top' % o.qualname, obligation=True)
        for n in dn:
            for c, how in wrap.delegation_calls(n, o):
                ok = any(isinstance(a, ast.Starred) for a in c.args) or len(c.args) >= 2
                run.inst(rule + '.top', o, 'delegation forwards the arguments', ok, 'delegation drops the arguments', node=c, nontrivial=False)


# ---------------------------------------------------------------------------------------------- queries (C22)

def query_rules(run, model, rule='HSM-QUERY'):
    hep = processor(model)
    for nm in ('is_in', 'child_state'):
        f = hep.methods.get(nm)
        if f is None:
            raise AnalysisError('HsmEventProcessor.%s not found' % nm)
        g = cfg_of(f)
        run.touch(f, g)
        selfn, argp = f.params[0], f.params[1]
        # write set: only the cursor
        def writes_of(fn_, seen):
            """attributes of the chart other than the cursor that fn_ (or a method of the chart it calls) stores into; a call of something unknown counts"""
            out = []
            sn_ = fn_.params[0]
            for n in walk_shallow(fn_.node):
                tg = n.targets if isinstance(n, ast.Assign) else ([n.target] if isinstance(n, (ast.AugAssign, ast.AnnAssign)) else [])
                for t in tg:
                    for x in ([t] if not isinstance(t, ast.Tuple) else t.elts):
                        d = dotted(x)
                        if d and d.startswith(sn_ + '.') and d != sn_ + '.temp.fun':
                            out.append(selfn + d[len(sn_):])
                if isinstance(n, ast.Call) and isinstance(n.func, ast.Attribute) and dotted(n.func.value) == sn_:
                    m_ = model.lookup_method(hep, n.func.attr) if hasattr(model, 'lookup_method') else hep.methods.get(n.func.attr)
                    if m_ is None or m_.qualname in seen or not m_.params:
                        out.append('call ' + norm(n.func))
                    else:
                        out += writes_of(m_, seen | {m_.qualname})
            return out
        bad = writes_of(f, {f.qualname})
        run.inst(rule + '.effects', f, '%s writes nothing but the cursor' % nm, not bad,
                 '' if not bad else '%s modifies %s: a query changes the chart' % (nm, sorted(set(bad))), obligation=True)
        heads = [h for h in g.loop_heads() if h.kind == 'test']
        fheads = [h for h in g.loop_heads() if h.kind == 'for']
        if not heads and len(fheads) == 1 and any(n_ in g.loop_body(fheads[0]) for n_, _c, _t, _s in classify_sites(f, user_params=[])):
            # the outward walk is a counted loop: besides a match and top's IGNORED it has a third way out - the iterable running dry
            it_ = fheads[0].stmt.iter
            endless = isinstance(it_, ast.Call) and norm(it_.func).split('.')[-1] in ('count', 'repeat', 'cycle') and len(it_.args) <= 1
            if endless:
                raise AnalysisError('%s: the walk is a for loop over an endless iterator: the query rules do not apply to this shape' % nm)
            run.inst(rule + '.walk', f, 'the walk ends when top answers IGNORED (or on a match)', False,
                     'the outward walk of %s is `for ... in %s`: it also ends when that iterable is exhausted, before top was reached - for a current state nested deeper than the '
                     'iterable is long the enclosing states beyond it are never compared with the argument (is_in answers False for a state the chart is in, child_state fails for '
                     'a real ancestor); the processor itself puts no bound on nesting depth' % (nm, norm(it_)), node=fheads[0].stmt.iter, obligation=True)
            continue
        if len(heads) != 1:
            raise AnalysisError('%s: expected one loop' % nm)
        h = heads[0]
        body = g.loop_body(h)
        sites = classify_sites(f, user_params=[])
        match = [t for t in g.nodes if t.kind == 'test' and compare_parts(t.ast) and
                 {dotted(compare_parts(t.ast)[0]), dotted(compare_parts(t.ast)[2])} == {selfn + '.temp.fun', argp}]
        if len(match) != 1:
            # a comparison of *projections* of the two handlers (f(cursor) == f(argument)) is not the match test the property needs
            qdefs = local_defs(f.node)

            def mentions(e, what, depth=3):
                for x in ast.walk(e):
                    if dotted(x) == what:
                        return True
                    if isinstance(x, ast.Name) and depth > 0 and x.id not in f.params:
                        if any(isinstance(d_, ast.AST) and mentions(d_, what, depth - 1) for d_ in qdefs.get(x.id, [])):
                            return True
                return False
            proj = [t for t in g.nodes if t.kind == 'test' and compare_parts(t.ast) and
                    ((mentions(compare_parts(t.ast)[0], selfn + '.temp.fun') and mentions(compare_parts(t.ast)[2], argp)) or
                     (mentions(compare_parts(t.ast)[2], selfn + '.temp.fun') and mentions(compare_parts(t.ast)[0], argp)))]
            if proj and not match:
                run.inst(rule + '.match', f, 'the cursor itself is compared with the argument itself', False,
                         '%s decides the match by %s: it compares something computed from the two handlers, not the handlers. Two different states whose handlers have the same '
                         'projection (the same wrapped function, the same name, ...) are taken for one another: is_in answers True for a state the chart is not in, child_state '
                         'returns a state instead of failing' % (nm, norm(proj[0].ast)), node=proj[0].ast, obligation=True)
                continue
            raise AnalysisError('%s: the match test (cursor vs argument) was not found' % nm)
        mt = match[0]
        if compare_parts(mt.ast)[1] not in (ast.Eq, ast.Is) or mt is h:
            raise AnalysisError('%s: the walk is not of the shape `while True: if cursor == argument: ... else: step` (match test `%s`); '
                                'the shape-specific query rules do not apply' % (nm, norm(mt.ast)))
        ok = compare_parts(mt.ast)[1] is ast.Eq
        run.inst(rule + '.match', f, 'the cursor is compared with the argument by ==', ok,
                 '' if ok else 'handlers are compared by identity: bound methods such as chart.top are equal but never identical, the query never matches them', node=mt.ast, obligation=True)
        # the step: one SUPER call on the cursor on the non-match branch
        for n, c, txt, sigs in sites:
            ok = guarded_by_edge(g, n, mt, 'false') and dotted(c.func) == selfn + '.temp.fun'
            run.inst(rule + '.walk', f, 'steps outward from the cursor only when there is no match', ok, 'the SUPER step is %s' % norm(c), node=c, obligation=True)
        # flags set only in the match branch
        flagsets = [n for n in g.nodes if n.kind == 'stmt' and isinstance(n.ast, ast.Assign) and isinstance(n.ast.value, ast.Constant) and n.ast.value.value is True]
        for n in flagsets:
            ok = guarded_by_edge(g, n, mt, 'true')
            run.inst(rule + '.match', f, 'the positive answer is set only on a match: ' + norm(n.ast), ok,
                     '' if ok else 'the query can answer True without the argument having been found on the active path', node=n.ast, obligation=True)
        run.floor('%s: positive-answer assignments' % nm, len(flagsets), 1)
        # the walk ends only on a match or when the outward step was answered IGNORED (top): every way out of the loop is guarded by one of the two
        from .boolflow import must_atoms, simulate
        breaks = [n for n in g.nodes if n.kind == 'stmt' and isinstance(n.ast, ast.Break) and n in body]
        if not (isinstance(h.ast, ast.Constant) and bool(h.ast.value)):
            raise AnalysisError('%s: the walk is not a `while True` loop left by break: the query rules do not apply to this shape' % nm)
        rvs = set()
        calltxt = set()
        for n, c, txt, sigs in sites:
            calltxt.add(norm(c))
            if isinstance(n.ast, ast.Assign) and isinstance(n.ast.targets[0], ast.Name):
                rvs.add(n.ast.targets[0].id)
        cur, argn = selfn + '.temp.fun', argp
        looping = any(n_ in body for n_, c_, t_, s_ in sites)
        run.inst(rule + '.walk', f, 'the outward step is repeated (it lies on a cycle of the walk)', looping,
                 '' if looping else ('the SUPER step of %s is not inside a loop any more (the walk is left unconditionally after the first level): only the current state and nothing above it '
                                     'is ever compared with the argument' % nm), obligation=True)
        for b_ in breaks:
            atoms = must_atoms(g, b_, f.node, params=f.params)
            on_match = any((l, op, r) in atoms for (l, op, r) in ((cur, 'Eq', argn), (argn, 'Eq', cur), (cur, 'Is', argn), (argn, 'Is', cur)))
            on_top = any(op in ('Eq', 'Is') and r.endswith('.IGNORED') and (l in rvs or l in calltxt) for (l, op, r) in atoms)
            ok = on_match or on_top
            run.inst(rule + '.walk', f, 'the walk ends when top answers IGNORED (or on a match)', ok, 'the walk can end before top was reached', node=b_.ast, obligation=True)
        # a match ends the walk: from the matched branch no path (with the status locals propagated) comes back to the loop head or asks another state
        starts_ = [m for m, l in g.succ[mt] if l == 'true']
        outside = {n for n in g.nodes if n not in body}
        sitenodes = [n for n, c, txt, sigs in sites]
        res = simulate(g, starts_[0], {h} | outside, {}, track=sitenodes) if starts_ else []
        ends_ok = bool(res) and all(stop is not h and not vis for stop, env, vis in res)
        run.inst(rule + '.walk', f, 'a match ends the walk', ends_ok, 'after a match the walk continues', obligation=True)
        # return value
        rets = [n for n in walk_shallow(f.node) if isinstance(n, ast.Return)]
        if nm == 'is_in':
            ok = len(rets) == 1 and isinstance(rets[0].value, ast.Name) and any(isinstance(x.ast.targets[0], ast.Name) and x.ast.targets[0].id == rets[0].value.id for x in flagsets)
            run.inst(rule + '.match', f, 'is_in returns the match flag', ok, 'is_in returns %s' % (norm(rets[0].value) if rets else None), obligation=True)
            # initial False
            defs = local_defs(f.node)
            ok = ok and any(isinstance(d, ast.Constant) and d.value is False for d in defs.get(rets[0].value.id, []) if not isinstance(d, tuple))
            run.inst(rule + '.match', f, 'the match flag starts False', ok, 'match flag not initialised to False', obligation=True)
        else:
            # child = cursor before the step, seeded with the state; assert confirmed; return child
            ok = len(rets) == 1 and isinstance(rets[0].value, ast.Name)
            cvar = rets[0].value.id if ok else None
            cdefs = [n for n in g.nodes if n.kind == 'stmt' and isinstance(n.ast, ast.Assign) and any(isinstance(t, ast.Name) and t.id == cvar for t in n.ast.targets)]
            def cursor_is_state_at(n_):
                # the cursor was set to state.fun by a dominating assignment and nothing moved it since
                for a_ in g.nodes:
                    if a_.kind == 'stmt' and isinstance(a_.ast, ast.Assign) and any(dotted(t) == selfn + '.temp.fun' for t in a_.ast.targets) \
                            and dotted(a_.ast.value) == selfn + '.state.fun' and g.dominates(a_, n_):
                        movers = [m_ for m_ in g.nodes if m_ is not a_ and ((m_.kind == 'stmt' and isinstance(m_.ast, ast.Assign) and
                                                                           any(dotted(t) == selfn + '.temp.fun' for t in m_.ast.targets)) or m_ in [x for x, _c, _t, _s in sites])]
                        if not any(g.exists_path(a_, m_) and g.exists_path(m_, n_) for m_ in movers):
                            return True
                return False
            seeds = [n for n in cdefs if n not in body and (dotted(n.ast.value) == selfn + '.state.fun' or (dotted(n.ast.value) == selfn + '.temp.fun' and cursor_is_state_at(n)))]
            steps = [n for n in cdefs if dotted(n.ast.value) == selfn + '.temp.fun' and n in body]
            okc = bool(seeds) and len(steps) == 1 and len(cdefs) == len(seeds) + len(steps)
            run.inst(rule + '.match', f, 'child is seeded with the current state and follows the cursor', okc, 'child is assigned %s' % [norm(n.ast) for n in cdefs], obligation=True)
            for s_ in steps:
                oks = guarded_by_edge(g, s_, mt, 'false') and all(g.dominates(s_, n) for n, c, txt, sigs in sites)
                run.inst(rule + '.match', f, 'child is the cursor *before* the outward step', oks,
                         '' if oks else 'child is recorded after the SUPER step: child_state returns the parent itself instead of its child', node=s_.ast, obligation=True)
            seedc = [n for n in g.nodes if n.kind == 'stmt' and isinstance(n.ast, ast.Assign) and any(dotted(t) == selfn + '.temp.fun' for t in n.ast.targets)
                     and dotted(n.ast.value) == selfn + '.state.fun' and g.dominates(n, h)]
            run.inst(rule + '.walk', f, 'child_state starts its walk at the current state', bool(seedc), 'the walk does not start from state.fun', obligation=True)
            asserts = [n for n in walk_shallow(f.node) if isinstance(n, ast.Assert)]
            oka = any(any(isinstance(x, ast.Name) and any(isinstance(fs.ast.targets[0], ast.Name) and fs.ast.targets[0].id == x.id for fs in flagsets) for x in ast.walk(a.test)) for a in asserts)
            if oka:
                # the assert must hold exactly when the match flag is set
                from .boolflow import evaluate
                flagnames = {fs.ast.targets[0].id for fs in flagsets if isinstance(fs.ast.targets[0], ast.Name)}
                oka = False
                for a in asserts:
                    used = [x.id for x in ast.walk(a.test) if isinstance(x, ast.Name) and x.id in flagnames]
                    if len(set(used)) == 1:
                        vt = evaluate(a.test, {used[0]: True})
                        vf = evaluate(a.test, {used[0]: False})
                        if vt is True and vf is False:
                            oka = True
            run.inst(rule + '.match', f, 'child_state fails when the argument does not enclose the current state', oka,
                     'the confirmation assert is gone or does not hold exactly when the argument was found on the active path: child_state answers (or fails) for the wrong arguments',
                     obligation=True)


# ---------------------------------------------------------------------------------------------- progress / None discipline (C24)

def _raises_topology(g, node):
    return node.kind == 'stmt' and isinstance(node.ast, ast.Raise) and node.ast.exc is not None and 'HsmTopologyException' in norm(node.ast.exc)


def cursor_alias_names(f, selfn):
    """locals that only ever hold a fresh copy of the cursor (every definition is exactly `self.temp.fun`, also as an element of a tuple assignment)"""
    vals = {}
    for n in walk_shallow(f.node):
        if isinstance(n, ast.Assign):
            for t in n.targets:
                if isinstance(t, ast.Tuple) and isinstance(n.value, ast.Tuple) and len(t.elts) == len(n.value.elts):
                    for a, b in zip(t.elts, n.value.elts):
                        if isinstance(a, ast.Name):
                            vals.setdefault(a.id, []).append(b)
                elif isinstance(t, ast.Name):
                    vals.setdefault(t.id, []).append(n.value)
                else:
                    for x in ast.walk(t):
                        if isinstance(x, ast.Name) and isinstance(x.ctx, ast.Store):
                            vals.setdefault(x.id, []).append(None)
        elif isinstance(n, (ast.AugAssign, ast.For)):
            for x in ast.walk(n.target):
                if isinstance(x, ast.Name):
                    vals.setdefault(x.id, []).append(None)
    return {k for k, vs in vals.items() if vs and all(v is not None and dotted(v) == selfn + '.temp.fun' for v in vs)}


def repeat_parent_guard(g, f, h, selfn):
    """inside loop h: a test `previous == temp.fun` (previous = cursor value saved before the SUPER step) whose true edge raises
    HsmTopologyException"""
    body = g.loop_body(h) | {n for n in g.nodes if n.kind == 'stmt' and isinstance(n.ast, ast.Raise) and any(x is n.ast for x in ast.walk(h.stmt))}
    for t in g.nodes:
        if t.kind != 'test' or not any(x is t.ast for x in ast.walk(h.stmt)) or t is h:
            continue
        cp = compare_parts(t.ast)
        if not cp or cp[1] not in (ast.Eq, ast.Is):
            continue
        aliases = cursor_alias_names(f, selfn)

        def is_cur(x):
            return dotted(x) == selfn + '.temp.fun' or (isinstance(x, ast.Name) and x.id in aliases)
        lit = [x for x in (cp[0], cp[2]) if dotted(x) == selfn + '.temp.fun']
        if lit:
            other = [x for x in (cp[0], cp[2]) if x is not lit[0]]         # the cursor itself against a saved value (whatever that local is called or holds)
        elif is_cur(cp[0]) != is_cur(cp[2]):
            other = [x for x in (cp[0], cp[2]) if not is_cur(x)]           # a fresh copy of the cursor against a saved value
        else:
            continue
        if not other or not isinstance(other[0], ast.Name):
            continue
        prev = other[0].id
        # prev is assigned from temp.fun (or from a fresh copy of it) inside the loop, also as one element of a tuple assignment
        saved = []
        for n in g.nodes:
            if n.kind == 'stmt' and isinstance(n.ast, ast.Assign) and any(x is n.ast for x in ast.walk(h.stmt)):
                for tg in n.ast.targets:
                    if isinstance(tg, ast.Name) and tg.id == prev and is_cur(n.ast.value):
                        saved.append(n)
                    elif isinstance(tg, ast.Tuple) and isinstance(n.ast.value, ast.Tuple) and len(tg.elts) == len(n.ast.value.elts):
                        for a_, b_ in zip(tg.elts, n.ast.value.elts):
                            if isinstance(a_, ast.Name) and a_.id == prev and is_cur(b_):
                                saved.append(n)
        raises = [n for n in g.nodes if _raises_topology(g, n) and guarded_by_edge(g, n, t, 'true')]
        if saved and raises:
            return t, cp[1]
    return None, None


def progress_rules(run, model, rule='HSM-PROGRESS'):
    hep = processor(model)
    n_loops = 0
    walks = {}
    for nm in ('init', 'dispatch', 'trans_'):
        f = hep.methods.get(nm)
        if f is None:
            raise AnalysisError('HsmEventProcessor.%s not found' % nm)
        g = cfg_of(f)
        run.touch(f, g)
        selfn = f.params[0]
        sites = classify_sites(f, user_params=f.params[1:2] if nm == 'dispatch' else [])
        bufs, ints, flags = roles(f.node)
        for h in g.loop_heads():
            if h.kind == 'for':
                # a for-loop over range(..), reversed(list[..]) or a list iterates a finite sequence: it terminates by the semantics of the iteration
                it = h.stmt.iter
                finite = (isinstance(it, ast.Call) and isinstance(it.func, ast.Name) and it.func.id in ('range', 'reversed', 'enumerate', 'zip', 'list', 'tuple', 'sorted')) \
                    or isinstance(it, (ast.Name, ast.Subscript, ast.Tuple, ast.List))
                if not finite:
                    raise AnalysisError('%s: for-loop over %s: unknown iteration' % (f.qualname, norm(it)))
                n_loops += 1
                run.inst(rule + '.loops', f, 'for %s in %s' % (norm(h.stmt.target), norm(it)), True, nontrivial=False, node=h.stmt)
                continue
            if h.kind != 'test':
                continue
            n_loops += 1
            body = g.loop_body(h)
            inner = [x for x in g.loop_heads() if x is not h and x in body]
            own = {n for n in body if not any(n in g.loop_body(x) for x in inner)}
            # --- classification
            guard_txt = norm(h.ast)
            gcp = compare_parts(h.ast)
            own_sites = [(n, c, sigs) for n, c, txt, sigs in sites if n in own or n is h]
            kind = None
            # (1) cursor-compare loop: guard compares temp.fun (or a local that only ever holds a fresh copy of it) with a local handler
            cal_ = cursor_alias_names(f, selfn)
            if gcp and gcp[1] in (ast.NotEq, ast.IsNot) and any(dotted(x_) == selfn + '.temp.fun' or (isinstance(x_, ast.Name) and x_.id in cal_) for x_ in (gcp[0], gcp[2])):
                kind = 'cursor-walk'
                t, op = repeat_parent_guard(g, f, h, selfn)
                ok = t is not None
                walks[(nm, 'cursor-walk')] = (f, h, ok, op)
                run.inst(rule + '.loops', f, 'cursor walk `while %s` has a repeat-parent guard' % guard_txt, ok,
                         '' if ok else ('the loop `while %s` climbs from an initial-transition target towards the state that took the transition with SUPER queries, but nothing '
                                        'detects that the climb reached the top without meeting it (top answers every SUPER query without moving the cursor): an initial '
                                        'transition whose target is not nested inside the state loops forever instead of raising HsmTopologyException' % guard_txt),
                         node=h.ast, obligation=True)
                if ok:
                    run.inst(rule + '.loops', f, 'the repeat-parent test compares handlers with ==', op is ast.Eq,
                             '' if op is ast.Eq else 'the repeat-parent test uses identity: bound methods (chart.top) are never identical, the guard never fires', node=t.ast, obligation=True)
                continue
            # (2) handler-compare exit walk: `while t != s`
            if gcp and isinstance(gcp[0], ast.Name) and isinstance(gcp[2], ast.Name) and gcp[1] in (ast.NotEq, ast.IsNot) \
                    and gcp[0].id not in ints and gcp[2].id not in ints and gcp[0].id not in flags:
                kind = 'exit-walk'
                # discharged by I1: one operand is the search result (assigned from temp.fun in the search loop), the other starts as state.fun
                defs = local_defs(f.node)

                def origins(v, depth=3):
                    out_ = set()
                    for d in defs.get(v, []):
                        if isinstance(d, tuple) or not dotted(d):
                            continue
                        out_.add(dotted(d))
                        if isinstance(d, ast.Name) and d.id != v and depth > 0:      # a copy of another local (a helper's parameter written out by the inliner)
                            out_ |= origins(d.id, depth - 1)
                    return out_
                o = origins(gcp[0].id) | origins(gcp[2].id)
                ok = selfn + '.temp.fun' in o and selfn + '.state.fun' in o
                # progress: each iteration re-reads the walker from the cursor after an EXIT (+SUPER) step
                steps = [n for n in own if n.kind == 'stmt' and isinstance(n.ast, ast.Assign) and dotted(n.ast.value) == selfn + '.temp.fun'
                         and any(isinstance(tg, ast.Name) and tg.id in (gcp[0].id, gcp[2].id) for tg in n.ast.targets)]
                ok = ok and bool(steps)
                run.inst(rule + '.loops', f, 'exit walk `while %s`: walker starts at the state, bound is the answering state found from it' % guard_txt, ok,
                         '' if ok else 'the exit walk `while %s` is not bounded by a state found by searching upward from its starting state' % guard_txt, node=h.ast, obligation=True)
                continue
            # (2b) answer-steered by the loop guard itself: `while r == SUPER`, `while t(self, init_e) == TRAN`
            if any(status_const(y) in ('SUPER', 'TRAN') for y in ast.walk(h.ast)):
                run.inst(rule + '.loops', f, 'loop `while %s` is steered by a handler answer (top ends it)' % guard_txt, True, node=h.ast, obligation=True)
                continue
            # (3) index loops: an int local strictly decreases (by `-= k` or by being set to a negative constant) and the loop leaves at a bound
            decs = [n for n in own if n.kind == 'stmt' and isinstance(n.ast, ast.AugAssign) and isinstance(n.ast.target, ast.Name) and n.ast.target.id in ints
                    and isinstance(n.ast.op, ast.Sub)]
            if decs:
                v0 = decs[0].ast.target.id
                decs = [d for d in decs if d.ast.target.id == v0]
                decs += [n for n in own if n.kind == 'stmt' and isinstance(n.ast, ast.Assign) and len(n.ast.targets) == 1 and isinstance(n.ast.targets[0], ast.Name)
                         and n.ast.targets[0].id == v0 and isinstance(n.ast.value, ast.UnaryOp) and isinstance(n.ast.value.op, ast.USub)]
            brks = [n for n in g.nodes if n.kind == 'stmt' and isinstance(n.ast, ast.Break) and any(x is n.ast for x in ast.walk(h.stmt))
                    and not any(any(x is n.ast for x in ast.walk(ih.stmt)) for ih in inner)]
            if decs:
                v = v0
                exit_tests = []
                if gcp and isinstance(gcp[0], ast.Name) and gcp[0].id == v and gcp[1] in (ast.GtE, ast.Gt):
                    exit_tests.append(h)
                for b in brks:
                    for t in g.nodes:
                        if t.kind == 'test' and any(x is t.ast for x in ast.walk(h.stmt)):
                            cp = compare_parts(t.ast)
                            if cp and isinstance(cp[0], ast.Name) and cp[0].id == v and cp[1] in (ast.Lt, ast.LtE) and guarded_by_edge(g, b, t, 'true'):
                                exit_tests.append(t)
                start = [m for m, l in g.succ[h] if l == 'true']
                per = queues.count(g, decs, start=start[0], end=h) if start else None
                incs = [n for n in own if n.kind == 'stmt' and isinstance(n.ast, ast.AugAssign) and isinstance(n.ast.target, ast.Name) and n.ast.target.id == v and isinstance(n.ast.op, ast.Add)]
                ok = bool(exit_tests) and per is not None and per[0] >= 1 and not incs
                kind = 'index'
                run.inst(rule + '.loops', f, 'index loop `while %s` on %s: decreases every iteration, leaves at its lower bound' % (guard_txt, v), ok,
                         '' if ok else 'the loop over %s does not decrease it on every iteration (%s) or has no lower-bound exit' % (v, per), node=h.ast, obligation=True)
                continue
            # (4) result-steered: the loop leaves when a handler answer is not SUPER / is HANDLED / is not TRAN
            steer = False
            for t in [h] + [x for x in g.nodes if x.kind == 'test' and any(y is x.ast for y in ast.walk(h.stmt))]:
                if any(status_const(y) in ('SUPER', 'HANDLED', 'TRAN', 'IGNORED') for y in ast.walk(t.ast)):
                    if t is h or any(guarded_by_edge(g, b, t, lab) for b in brks for lab in ('true', 'false')):
                        steer = True
            if not steer:
                # the same through a loop-control flag: `while not done: ... if answer != TRAN: done = True`
                inner_t, _pol = strip_not(h.ast)
                if isinstance(inner_t, ast.Name):
                    sets = [n for n in g.nodes if n.kind == 'stmt' and isinstance(n.ast, ast.Assign) and any(y is n.ast for y in ast.walk(h.stmt))
                            and any(isinstance(tg, ast.Name) and tg.id == inner_t.id for tg in n.ast.targets) and isinstance(n.ast.value, ast.Constant) and isinstance(n.ast.value.value, bool)]
                    for t in [x for x in g.nodes if x.kind == 'test' and any(y is x.ast for y in ast.walk(h.stmt))]:
                        if any(status_const(y) in ('SUPER', 'HANDLED', 'TRAN', 'IGNORED') for y in ast.walk(t.ast)) and \
                                any(guarded_by_edge(g, s_, t, lab) for s_ in sets for lab in ('true', 'false')):
                            steer = True
            if steer:
                kind = 'result-steered'
                run.inst(rule + '.loops', f, 'loop `while %s` is steered by a handler answer (top ends it)' % guard_txt, True, node=h.ast, obligation=True)
                continue
            raise AnalysisError('%s: loop `while %s` has no recognised termination argument' % (f.qualname, guard_txt))
        # --- None discipline
        for n, c, txt, sigs in sites:
            if sigs & {'INIT', 'ENTRY', 'REFLECTION'}:
                continue
            # where does the result go?
            rv = None
            if isinstance(n.ast, ast.Assign) and n.ast.value is c and len(n.ast.targets) == 1 and isinstance(n.ast.targets[0], ast.Name):
                rv = n.ast.targets[0].id
            inline_cmp = n.kind == 'test' and any(isinstance(x, ast.Compare) and any(y is c for y in ast.walk(x)) for x in ast.walk(n.ast))
            if rv is None and not inline_cmp:
                continue      # result unused (pure cursor move)
            if inline_cmp:
                run.inst(rule + '.none', f, 'status of %s is tested for None before it is compared' % occurrence_key(c, f), False,
                         ('the answer of %s is compared with a status constant directly: a handler that returns nothing (None) is taken for "not HANDLED", the walk reads a '
                          'cursor the handler never moved and goes on from the wrong state instead of raising HsmTopologyException' % norm(c)), node=c, obligation=True)
                continue
            # comparisons of rv with status constants reachable from n without reassignment of rv
            redefs = [m for m in g.nodes if m is not n and m.kind == 'stmt' and isinstance(m.ast, (ast.Assign, ast.AugAssign)) and
                      any(isinstance(x, ast.Name) and x.id == rv and isinstance(x.ctx, ast.Store) for tg in (m.ast.targets if isinstance(m.ast, ast.Assign) else [m.ast.target]) for x in ast.walk(tg))]
            uses = [t for t in g.nodes if t.kind == 'test' and any(isinstance(x, ast.Compare) and any(isinstance(y, ast.Name) and y.id == rv for y in [x.left] + x.comparators)
                                                                   and any(status_const(y) for y in [x.left] + x.comparators) for x in ast.walk(t.ast))
                    and g.exists_path(n, t, avoiding=redefs)]
            if not uses:
                continue
            nonetests = [t for t in g.nodes if t.kind == 'test' and compare_parts(t.ast) and isinstance(compare_parts(t.ast)[0], ast.Name) and compare_parts(t.ast)[0].id == rv
                         and compare_parts(t.ast)[1] is ast.Is and is_none(compare_parts(t.ast)[2])
                         and any(_raises_topology(g, r) and guarded_by_edge(g, r, t, 'true') for r in g.nodes)]
            ok = True
            for u in uses:
                # every path n -> u (without redefinition) passes a None test
                if g.exists_path(n, u, avoiding=redefs + nonetests):
                    ok = False
            run.inst(rule + '.none', f, 'status of %s is tested for None before it is compared' % occurrence_key(c, f), ok,
                     '' if ok else ('the answer of %s reaches the comparison %s without a `is None` test: a handler that returns nothing is not reported with '
                                    'HsmTopologyException; the comparison fails with TypeError or the walk continues from a cursor the handler never moved'
                                    % (norm(c), norm(uses[0].ast))), node=c, obligation=True)
    run.floor('loops in init/dispatch/trans_', n_loops, 13)
    # --- SIBLING: both drill-downs (init's walk and dispatch's walk) carry the guard
    ws = [v for k, v in walks.items()]
    run.floor('initial-transition cursor walks', len(ws), 2)
    both = all(w[2] for w in ws)
    run.inst(rule + '.sibling', 'hsm.HsmEventProcessor', 'start_at and dispatch guard their initial-transition walks alike', both,
             '' if both else 'one of the two initial-transition walks (start_at / dispatch) detects an impossible target and the other does not', obligation=True)


# ---------------------------------------------------------------------------------------------- value numbering of cursor / state

def cursor_state_values(f, g, assume_equal_at_entry=True, edge_ok=None):
    """forward must-analysis: symbolic value of temp.fun, state.fun and of every local at each CFG node *exit*.
    A handler call (or a call of init/trans_) gives the cursor a fresh value; joins of different values give a phi symbol."""
    selfn = f.params[0]
    hc = {n for n, c in handler_calls(g, f)}
    for n in g.nodes:
        if n.kind in ('entry', 'exit', 'xexit', 'def'):
            continue
        if any(isinstance(c.func, ast.Attribute) and c.func.attr in ('init', 'trans_') and dotted(c.func.value) == selfn for c in n.calls()):
            hc.add(n)
    s0 = ('entry', 'state')
    init = {'@temp': s0 if assume_equal_at_entry else ('entry', 'temp'), '@state': s0}
    OUT = {}
    IN = {g.entry: dict(init)}
    work = [g.entry]
    fresh = [0]

    def sym_of(expr, st, node, slot):
        d = dotted(expr)
        if d == selfn + '.temp.fun':
            return st.get('@temp', ('unk', node.id, slot))
        if d == selfn + '.state.fun':
            return st.get('@state', ('unk', node.id, slot))
        if isinstance(expr, ast.Name):
            return st.get(expr.id, ('var0', expr.id))
        if isinstance(expr, ast.Constant):
            return ('const', repr(expr.value))
        return ('expr', node.id, slot)

    def transfer(n, st):
        st = dict(st)
        if n.kind == 'stmt' and isinstance(n.ast, ast.Assign):
            for tg in n.ast.targets:
                tgts = tg.elts if isinstance(tg, ast.Tuple) else [tg]
                vals = n.ast.value.elts if isinstance(tg, ast.Tuple) and isinstance(n.ast.value, ast.Tuple) and len(n.ast.value.elts) == len(tgts) else [n.ast.value] * len(tgts)
                pre = dict(st)
                if n in hc:
                    pre['@temp'] = ('call', n.id)
                for i, (t_, v_) in enumerate(zip(tgts, vals)):
                    sv = sym_of(v_, pre, n, i) if not (isinstance(v_, ast.Call)) else ('callres', n.id, i)
                    d = dotted(t_)
                    if d == selfn + '.temp.fun':
                        st['@temp'] = sv
                    elif d == selfn + '.state.fun':
                        st['@state'] = sv
                    elif isinstance(t_, ast.Name):
                        st[t_.id] = sv
                if n in hc and not any(dotted(t_) == selfn + '.temp.fun' for t_ in tgts):
                    st['@temp'] = ('call', n.id)
            return st
        if n in hc:
            st['@temp'] = ('call', n.id)
        if n.kind == 'stmt' and isinstance(n.ast, ast.AugAssign) and isinstance(n.ast.target, ast.Name):
            st[n.ast.target.id] = ('aug', n.id)
        if n.kind == 'for' and isinstance(n.stmt.target, ast.Name):
            st[n.stmt.target.id] = ('iter', n.id)
        return st
    it = 0
    while work:
        it += 1
        if it > 20000:
            raise AnalysisError('value numbering does not stabilise in %s' % f.qualname)
        n = work.pop()
        out = transfer(n, IN[n])
        if OUT.get(n) == out:
            continue
        OUT[n] = out
        for m, lab in g.succ[n]:
            if edge_ok is not None and not edge_ok(n, m, lab):
                continue
            # IN[m] = join of the current OUT of every predecessor that has been reached
            preds = [p for p, l2 in g.pred[m] if p in OUT and (edge_ok is None or edge_ok(p, m, l2))]
            new = {}
            keys = set()
            for p in preds:
                keys |= set(OUT[p])
            for k in keys:
                vals = {OUT[p].get(k) for p in preds}
                if IN.get(m, {}).get(k) == ('phi', m.id, k):
                    new[k] = ('phi', m.id, k)          # monotone: once merged, stays merged
                elif len(vals) == 1 and None not in vals:
                    new[k] = next(iter(vals))
                else:
                    new[k] = ('phi', m.id, k)
            if IN.get(m) != new:
                IN[m] = new
                work.append(m)
    return IN, OUT, s0



# ---------------------------------------------------------------------------------------------- handler-protocol census (validation of the model's assumptions)

def protocol_census(run, model):
    """reads the state handlers of the repository's own tests and examples (sa/census.py) and records how many follow H1/Hs/H3: the assumptions under which the
    processor is analysed are the protocol people actually write.  Never a finding: deviations are listed in the evidence."""
    import warnings
    from . import census
    from .model import repo_root
    with warnings.catch_warnings():
        warnings.simplefilter('ignore')
        r = census.census(repo_root())
    run.rule('HSM-PROTOCOL.census', 'the handler protocol H1/Hs/H3 assumed by the model, checked against every state handler found in test/ and examples/ (informational)')
    run.inst('HSM-PROTOCOL.census', 'test/ + examples/', '%d state handlers in %d files, %d ways out classified: %d handlers follow the protocol' %
             (r['handlers'], r['files'], r['paths'], r['conforming_handlers']), True, nontrivial=False)
    for d, k in sorted(r['deviations'].items()):
        run.note('handler-protocol census: %d handler(s) deviate - %s' % (k, d))
    for ex in r['examples']:
        run.note('handler-protocol census example: ' + ex)
    return r



# ---------------------------------------------------------------------------------------------- an initial transition that targets the state itself (C24)

def selfinit_rule(run, model, rule='HSM-PROGRESS.selfinit'):
    """malformed-chart run of the content analysis: every initial transition is assumed to name the very state that takes it.  Whatever the shape of the walk, the
    processor must then raise before it asks any state for another initial transition and before it returns - otherwise it asks the same state again for ever
    (or silently rests in a state it never entered)."""
    from .hsmcontent import ContentAnalysis
    hep = processor(model)
    n = 0
    for nm, at_entry, track in (('dispatch', False, True), ('init', True, False)):
        ba, res, callees = buffer_analysis(model, nm)
        ca = ContentAnalysis(ba.entry, callees, cursor_is_target_at_entry=at_entry, track_source=track, assume_self_init=True)
        for o in ca.run():
            if o['kind'] != 'O10-selfinit':
                continue
            n += 1
            ok = o['verdict'] == 'OK'
            f = o['func']
            what = occurrence_key(o['node'], f) if not isinstance(o['node'], ast.FunctionDef) else 'end of %s' % f.name
            run.inst(rule, f, 'after an initial transition to the state itself: ' + what, ok,
                     '' if ok else ('%s: when a state\'s initial transition targets that same state, %s %s instead of raising HsmTopologyException - the step never ends (the '
                                    'state is asked for its initial transition again and again), or the chart rests in a state whose entry never ran'
                                    % (o['verdict'], f.qualname, 'asks for an initial transition again' if 'asks' in o['verdict'] else 'finishes normally')),
                     node=o['node'] if not isinstance(o['node'], ast.FunctionDef) else None, obligation=True)
    return n


def status_distinct_rule(run, model):
    """The processor steers by comparing handler answers with the return_status constants: the constants the package actually compares against must be
    pairwise distinct numbers (and `>= TRAN` must separate the transition statuses from the others).  The table is read by evaluating
    ReturnStatusSource.__init__ in the finite evaluator (stores into a scratch mapping), so a loop over a tuple of names is as good as literal stores."""
    import collections
    from . import pureeval
    run.rule('STATUS.distinct', 'the return_status constants the package compares against are pairwise distinct; TRAN* are the largest')
    cls = model.classes.get('ReturnStatusSource')
    if cls is None or '__init__' not in cls.methods:
        raise AnalysisError('ReturnStatusSource.__init__ not found')
    init = cls.methods['__init__']
    run.touch(init)

    class _Tab(collections.OrderedDict):
        pass
    tab = _Tab()
    env = {init.params[0]: tab, '__mutable__': True}
    try:
        for st in init.node.body:
            if isinstance(st, ast.Expr) and isinstance(st.value, ast.Constant):
                continue
            if isinstance(st, ast.Expr) and isinstance(st.value, ast.Call) and norm(st.value.func).startswith('super('):
                continue
            pureeval.run_body([st], env)
    except (AnalysisError, pureeval.Raised) as ex:
        raise AnalysisError('ReturnStatusSource.__init__ cannot be evaluated: %s' % ex)
    used = set()
    for f in model.all_funcs():
        for n in ast.walk(f.node):
            if isinstance(n, ast.Attribute) and isinstance(n.value, ast.Name) and n.value.id == 'return_status':
                used.add(n.attr)
    used &= set(tab)
    run.floor('return_status constants used by the package', len(used), 5)
    by_val = {}
    for k in sorted(used):
        by_val.setdefault(tab[k], []).append(k)
    clash = {v: ks for v, ks in by_val.items() if len(ks) > 1}
    run.inst('STATUS.distinct', init, 'constants %s are pairwise distinct' % ', '.join(sorted(used)), not clash,
             '' if not clash else 'return_status constants share a number: %s - the processor cannot tell these answers apart' % clash, obligation=True)
    ordered = any(isinstance(n, ast.Compare) and any(isinstance(o, (ast.Gt, ast.GtE, ast.Lt, ast.LtE)) for o in n.ops) and 'return_status.TRAN' in norm(n)
                  for f in model.all_funcs() for n in ast.walk(f.node))
    if 'TRAN' in tab and ordered:
        low = [k for k in used if not k.startswith('TRAN') and isinstance(tab[k], int) and tab[k] >= tab['TRAN']]
        run.inst('STATUS.distinct', init, 'every non-transition status is below TRAN', not low,
                 '' if not low else 'the processor tests `answer >= TRAN` for "a transition was requested", but %s are numbered at or above TRAN' % low, obligation=True)
