"""Handler-protocol census (thorough tier of C01-C03, C22, C24): the abstract model of the event processor assumes that state handlers follow the
protocol H1-H3.  This module reads every state handler it can find in the repository's own tests and examples (nothing is imported or run) and
classifies, per handler and per way of leaving it, what it answers and whether it moved the cursor:

  H1  an answer of SUPER comes with `chart.temp.fun = <parent>` on the same path (and the cursor is written on no other path, except through chart.trans)
  Hs  every way out answers with a status (a return_status constant, the result of chart.trans(..), or - for REFLECTION only - a name)
  H3  a transition is requested as `chart.trans(<state>)` (the cursor is not written by hand together with a TRAN constant)

The census does not decide anything about miros; it validates that the assumptions under which C01-C03 are decided describe the handlers people write
(the numbers go into the evidence, deviations are listed)."""
import ast
import glob
import os

from .model import norm, dotted


STATUS = {'SUPER', 'HANDLED', 'UNHANDLED', 'IGNORED', 'TRAN', 'ENTRY', 'EXIT', 'NULL', 'SUPER_SUB', 'TRAN_INIT', 'TRAN_HIST', 'TRAN_EP', 'TRAN_XP'}


def status_of(e):
    d = dotted(e)
    if d and d.split('.')[-1] in STATUS and ('return_status' in d or 'ReturnStatus' in d):
        return d.split('.')[-1]
    return None


def is_trans_call(e, chart):
    return isinstance(e, ast.Call) and isinstance(e.func, ast.Attribute) and e.func.attr == 'trans' and isinstance(e.func.value, ast.Name) and e.func.value.id == chart


def looks_like_handler(fn):
    a = fn.args
    if len(a.args) != 2 or a.vararg or a.kwarg:
        return False
    chart, ev = a.args[0].arg, a.args[1].arg
    txt = ast.dump(fn)
    uses_sig = any(isinstance(n, ast.Attribute) and n.attr == 'signal' and isinstance(n.value, ast.Name) and n.value.id == ev for n in ast.walk(fn))
    answers = any(status_of(n) for n in ast.walk(fn) if isinstance(n, ast.Attribute)) or any(is_trans_call(n, chart) for n in ast.walk(fn))
    return uses_sig and answers and 'return_status' in txt


def paths(stmts, env):
    """enumerate the ways through a statement list (loops are taken zero or one time; try bodies straight): yields (kind, env) with kind in
    'fall' | 'return'; env = {'status': set-of-answers-for-the-returned-local..., 'cursor': 'parent'|'trans'|None, 'ret': answer}"""
    if not stmts:
        yield ('fall', env)
        return
    st, rest = stmts[0], stmts[1:]

    def cont(envs):
        for kind, e2 in envs:
            if kind == 'return':
                yield (kind, e2)
            else:
                for r in paths(rest, e2):
                    yield r
    if isinstance(st, ast.Return):
        e2 = dict(env)
        e2['ret'] = answer_of(st.value, env)
        yield ('return', e2)
        return
    if isinstance(st, ast.If):
        out = list(paths(st.body, dict(env))) + list(paths(st.orelse, dict(env)))
        for r in cont(out):
            yield r
        return
    if isinstance(st, (ast.For, ast.While)):
        out = [('fall', dict(env))] + list(paths(st.body, dict(env)))
        for r in cont(out):
            yield r
        return
    if isinstance(st, ast.With):
        for r in cont(list(paths(st.body, dict(env)))):
            yield r
        return
    if isinstance(st, ast.Try):
        out = list(paths(st.body + st.orelse + st.finalbody, dict(env)))
        for h in st.handlers:
            out += list(paths(h.body + st.finalbody, dict(env)))
        for r in cont(out):
            yield r
        return
    e2 = dict(env)
    if isinstance(st, ast.Assign):
        tg = st.targets[0]
        pairs = list(zip(tg.elts, st.value.elts)) if isinstance(tg, ast.Tuple) and isinstance(st.value, ast.Tuple) and len(tg.elts) == len(st.value.elts) else [(tg, st.value)]
        for t, v in pairs:
            if isinstance(t, ast.Name):
                e2['v:' + t.id] = answer_of(v, env)
                if is_trans_call(v, env['chart']):
                    e2['cursor'] = 'trans'
            d = dotted(t)
            if d == env['chart'] + '.temp.fun':
                e2['cursor'] = 'hand'
    elif isinstance(st, ast.Expr) and is_trans_call(st.value, env['chart']):
        e2['cursor'] = 'trans'
    for r in paths(rest, e2):
        yield r


def answer_of(v, env):
    if v is None:
        return 'None'
    s = status_of(v)
    if s:
        return s
    if is_trans_call(v, env['chart']):
        return 'TRAN(trans)'
    if isinstance(v, ast.Name):
        return env.get('v:' + v.id, '?')
    if isinstance(v, ast.Constant) and v.value is None:
        return 'None'
    return '?'


def census(repo):
    files = sorted(glob.glob(os.path.join(repo, 'test', '*.py')) + glob.glob(os.path.join(repo, 'examples', '**', '*.py'), recursive=True))
    res = {'files': 0, 'handlers': 0, 'paths': 0, 'conforming_handlers': 0, 'deviations': {}, 'examples': []}
    for fn in files:
        try:
            tree = ast.parse(open(fn, encoding='utf-8', errors='replace').read())
        except SyntaxError:
            continue
        res['files'] += 1
        for f in [n for n in ast.walk(tree) if isinstance(n, ast.FunctionDef)]:
            if not looks_like_handler(f):
                continue
            res['handlers'] += 1
            chart = f.args.args[0].arg
            body = [s for s in f.body if not isinstance(s, (ast.FunctionDef, ast.ClassDef))]
            devs = set()
            n_paths = 0
            try:
                for kind, env in paths(body, {'chart': chart, 'cursor': None}):
                    n_paths += 1
                    if n_paths > 4000:
                        devs.add('too many paths (not classified)')
                        break
                    ans = env.get('ret', 'None') if kind == 'return' else 'None'
                    cur = env.get('cursor')
                    if ans == 'None':
                        devs.add('Hs: a way out answers nothing')
                    elif ans == '?':
                        pass        # a value the census cannot classify (REFLECTION name, computed status)
                    if ans == 'SUPER' and cur != 'hand':
                        devs.add('H1: SUPER without naming the parent')
                    if cur == 'hand' and ans not in ('SUPER', '?'):
                        devs.add('H1/H3: cursor written by hand with answer %s' % ans)
                    if ans == 'TRAN' and cur != 'trans':
                        devs.add('H3: TRAN constant without chart.trans()')
            except RecursionError:
                devs.add('too deep (not classified)')
            res['paths'] += n_paths
            if not devs:
                res['conforming_handlers'] += 1
            for d in devs:
                res['deviations'][d] = res['deviations'].get(d, 0) + 1
                if len(res['examples']) < 12:
                    res['examples'].append('%s:%d %s - %s' % (os.path.relpath(fn, repo), f.lineno, f.name, d))
    return res
