"""Queue-end agreement (ENDS), consumer discipline (CONSUMER), wake-up tokens (TOKEN), capacity (BOUND).
Shared by C04, C05, C14, C15, C16 (and C09/C10 for the end labels)."""
import ast

from .model import AnalysisError, walk_shallow, dotted, norm
from .util import parents, cfg_of, shallow_calls, local_defs, resolve_name, guarded_by_edge, strip_not, compare_parts, inline_self_helpers, FuncView
from .cfg import INF

END = {'append': 'right', 'appendleft': 'left', 'pop': 'right', 'popleft': 'left', 'extend': 'right', 'extendleft': 'left'}
ADD = {'append', 'appendleft'}
REMOVE = {'pop', 'popleft'}
OPPOSITE = {'left': 'right', 'right': 'left'}


def ops_on(g, path, meths=None, fnode=None):
    """[(cfg node, call, method)] for calls <path>.<meth>(...) in the CFG; with fnode, also through single-definition local aliases of <path>"""
    out = []
    for n in g.nodes:
        if n.kind in ('entry', 'exit', 'xexit', 'def'):
            continue
        for c in n.calls():
            if isinstance(c.func, ast.Attribute) and (meths is None or c.func.attr in meths):
                recv = c.func.value
                if fnode is not None and isinstance(recv, ast.Name):
                    from .util import expand_locals
                    recv = expand_locals(recv, fnode)
                if dotted(recv) == path:
                    out.append((n, c, c.func.attr))
    return out


def count(g, nodes, start=None, end=None):
    s = list(nodes)
    return g.count_on_paths(lambda n: sum(1 for x in s if x is n), start=start, end=end)


def is_nonempty_test(test, path):
    """(recognised, polarity) : is `test` a non-empty test of the container at `path`?
    len(p) != 0, len(p) > 0, len(p) >= 1, 0 < len(p), p (truthiness), len(p)"""
    inner, pol = strip_not(test)
    if dotted(inner) == path:
        return True, pol
    if isinstance(inner, ast.Call) and norm(inner.func) == 'len' and inner.args and dotted(inner.args[0]) == path:
        return True, pol
    cp = compare_parts(inner)
    if cp:
        l, op, r = cp

        def is_len(e):
            return isinstance(e, ast.Call) and norm(e.func) == 'len' and e.args and dotted(e.args[0]) == path

        def num(e):
            return e.value if isinstance(e, ast.Constant) and type(e.value) is int else None
        if is_len(l) and num(r) is not None:
            k = num(r)
            if (op is ast.NotEq and k == 0) or (op is ast.Gt and k == 0) or (op is ast.GtE and k == 1):
                return True, pol
            if (op is ast.Eq and k == 0) or (op is ast.LtE and k == 0) or (op is ast.Lt and k == 1):
                return True, not pol
        if is_len(r) and num(l) is not None:
            k = num(l)
            if (op is ast.NotEq and k == 0) or (op is ast.Lt and k == 0) or (op is ast.LtE and k == 1):
                return True, pol
            if (op is ast.Eq and k == 0):
                return True, not pol
    return False, None


def consumer_end(model):
    """the end of the pending-event queue that next_rtc removes from"""
    hq = model.cls('HsmWithQueues')
    f = hq.methods.get('next_rtc')
    if f is None:
        raise AnalysisError('HsmWithQueues.next_rtc not found')
    g = cfg_of(f)
    pops = ops_on(g, f.params[0] + '.queue', REMOVE)
    ends = {END[m] for _n, _c, m in pops}
    if len(ends) != 1:
        raise AnalysisError('next_rtc does not remove from exactly one end of self.queue (found %s)' % sorted(ends))
    return ends.pop()


def check_post_ends(run, model, rule, E):
    """post_fifo adds its own event at the end opposite E, post_lifo at E: exactly once on every path"""
    hq = model.cls('HsmWithQueues')
    for nm, want in (('post_fifo', OPPOSITE[E]), ('post_lifo', E)):
        f = hq.methods.get(nm)
        if f is None:
            raise AnalysisError('HsmWithQueues.%s not found' % nm)
        g = cfg_of(f)
        run.touch(f, g)
        adds = ops_on(g, f.params[0] + '.queue', ADD | {'extend', 'extendleft', 'insert'})
        right = [n for n, c, m in adds if END.get(m) == want]
        wrong = [(n, c, m) for n, c, m in adds if END.get(m) != want]
        cnt = count(g, right)
        ok = cnt == (1, 1) and not wrong
        run.inst(rule, f, '%s adds once at the %s end (consumer end is %s)' % (nm, want, E), ok,
                 '' if ok else ('%s puts the event at the wrong end or not exactly once: adds at %s end on paths %s, other adds %s; '
                                'the consumer removes from the %s end' % (nm, want, cnt, [m for _n, _c, m in wrong], E)), obligation=True)
        for n, c, m in adds:
            ok = len(c.args) == 1 and isinstance(c.args[0], ast.Name) and c.args[0].id == f.params[1] and f.params[1] not in local_defs(f.node)
            run.inst(rule, f, '%s adds its own event argument' % nm, ok, '' if ok else '%s adds %s, not the event it was given' % (nm, norm(c)), node=c, obligation=True)


def check_next_rtc(run, model, rule, E):
    hq = model.cls('HsmWithQueues')
    f = hq.methods['next_rtc']
    g = cfg_of(f)
    run.touch(f, g)
    selfn = f.params[0]
    q = selfn + '.queue'
    pops = ops_on(g, q, REMOVE)
    disp = [(n, c) for n in g.nodes if n.kind not in ('entry', 'exit', 'xexit', 'def') for c in n.calls()
            if isinstance(c.func, ast.Attribute) and c.func.attr == 'dispatch' and dotted(c.func.value) == selfn]
    tests = []
    for t in g.nodes:
        if t.kind == 'test':
            rec, pol = is_nonempty_test(t.ast, q)
            if rec:
                tests.append((t, 'true' if pol else 'false'))
    if len(tests) > 1:
        raise AnalysisError('next_rtc: expected one non-empty test of self.queue, found %d' % len(tests))
    if not tests:
        # the emptiness decision is taken some other way (through a local, a helper's answer ...): judged without it - a step pops at most once, dispatches at most
        # once, every dispatch follows a pop and every pop is followed by the dispatch on every normal path
        pc = count(g, [n for n, _c, _m in pops])
        dc = count(g, [n for n, _c in disp])
        ok = pc in ((0, 1), (1, 1)) and dc == pc and all(any(g.dominates(pn, dn) for pn, _c, _m in pops) for dn, _c2 in disp) \
            and all(any(g.postdominates(dn, pn) for dn, _c2 in disp) for pn, _c, _m in pops)
        run.inst(rule, f, 'a step pops at most once and dispatches exactly what it popped, once', ok,
                 '' if ok else 'next_rtc pops %s times and dispatches %s times over its paths, or a pop is not followed by the dispatch' % (pc, dc), obligation=True)
        t, lab = None, None
    else:
        t, lab = tests[0]
    other = 'false' if lab == 'true' else 'true'
    from .boolflow import values_at as _values_at

    def known_nonempty(node):
        """the emptiness test is decided "not empty" on every way to node (directly by its edge, or through locals that carry its answer)"""
        if t is None:
            return True
        if guarded_by_edge(g, node, t, lab):
            return True
        try:
            vs = _values_at(g, node, {norm(t.ast)}, fnode=f.node, params=f.params)
        except AnalysisError:
            return False
        return bool(vs) and all(v.get(norm(t.ast)) is (lab == 'true') for v in vs)
    branch = []
    for m, l in (g.succ[t] if t is not None else []):
        pc = count(g, [n for n, _c, _m in pops], start=m)
        dc = count(g, [n for n, _c in disp], start=m)
        branch.append((l == lab, pc, dc, (pc == (1, 1) and dc == (1, 1)) if l == lab else (pc == (0, 0) and dc == (0, 0))))
    if branch and all(b[3] for b in branch):
        run.inst(rule, f, 'non-empty: one pop and one dispatch', True, obligation=True)
        run.inst(rule, f, 'empty: no pop, no dispatch', True, obligation=True)
    elif branch:
        # the two sides of the test do not separate the paths syntactically (its answer travels through a local): judged by pairing instead - at most one pop on any
        # path, every pop only where the queue is known non-empty, every dispatch after a pop, every pop followed by the dispatch
        pc = count(g, [n for n, _c, _m in pops])
        dc = count(g, [n for n, _c in disp])
        ok = pc in ((0, 1), (1, 1)) and dc == pc and all(any(g.dominates(pn, dn) for pn, _c, _m in pops) for dn, _c2 in disp) \
            and all(any(g.postdominates(dn, pn) for dn, _c2 in disp) for pn, _c, _m in pops) and all(known_nonempty(pn) for pn, _c, _m in pops)
        run.inst(rule, f, 'non-empty: one pop and one dispatch', ok,
                 '' if ok else 'next_rtc pops %s times and dispatches %s times over its paths (sides of the emptiness test: %s); a step must pop exactly once when the queue is not empty, '
                 'dispatch what it popped, and do neither when it is empty' % (pc, dc, [(('non-empty' if b[0] else 'empty'), b[1], b[2]) for b in branch]), obligation=True)
    # the step only takes from the queue: whatever happens to the dispatch (also on the exception paths), the popped event is not put back
    others = [(n, c, m) for n, c, m in ops_on(g, q, None, fnode=f.node) if m not in REMOVE and m not in ('__len__',)]
    others = [(n, c, m) for n, c, m in others if m in ADD or m in ('extend', 'extendleft', 'insert', 'rotate', 'clear', 'remove')]
    run.inst(rule, f, 'the step never puts an event into the queue or reorders it', not others,
             '' if not others else ('next_rtc calls %s on its queue (%s): an event that was taken for dispatch can be queued again - a step that fails after the handler ran, '
                                    'for example, is repeated by the next step, so one posted event is dispatched twice'
                                    % (', '.join(sorted({m for _n, _c, m in others})), norm(others[0][1]))),
             node=others[0][1] if others else None, obligation=True)
    # nothing popped or dispatched before the test
    for n, c, m in pops:
        ok = known_nonempty(n) and END[m] == E
        run.inst(rule, f, 'pop at the consumer end under the non-empty test', ok, '' if ok else 'a pop is not guarded by the non-empty test', node=c, obligation=True)
    defs = local_defs(f.node)
    for n, c in disp:
        arg = c.args[0] if c.args else None
        for kw in c.keywords:
            if kw.arg in ('e', 'event'):
                arg = kw.value
        val = resolve_name(arg, defs) if arg is not None else None
        ok = any(val is pc for _n, pc, _m in pops)
        if not ok and isinstance(arg, ast.Name):
            # several definitions in the function: the ones that reach the dispatch decide
            from .hsmsites import reaching_defs as _rd
            rd_, valmap_ = _rd(g, f.params)
            vals_ = [valmap_.get(d_) for d_ in rd_[n].get(arg.id, set())]
            ok = bool(vals_) and all(any(v_ is pc for _n, pc, _m in pops) for v_ in vals_)
        run.inst(rule, f, 'dispatches the popped event', ok,
                 '' if ok else 'next_rtc dispatches %s, which is not the event it popped' % (norm(arg) if arg is not None else None), node=c, obligation=True)
        # the pop precedes the dispatch
        ok2 = all(g.dominates(pn, n) for pn, _pc, _m in pops)
        run.inst(rule, f, 'pop dominates dispatch', ok2, 'dispatch is not dominated by the pop', node=c, obligation=True)
    return f


def check_complete_circuit(run, model, rule):
    """shape-independent: (1) every normal way out of complete_circuit lies on the "queue is empty" side of an emptiness test, with no step in between (the
    observation is still current); (2) every cycle of its CFG passes through a step (next_rtc/dispatch): together, it returns only with the queue seen empty and
    never spins without making progress"""
    hq = model.cls('HsmWithQueues')
    f = hq.methods.get('complete_circuit')
    if f is None:
        raise AnalysisError('HsmWithQueues.complete_circuit not found')
    g = cfg_of(f)
    run.touch(f, g)
    q = f.params[0] + '.queue'
    tests = []
    for t in g.nodes:
        if t.kind == 'test':
            rec, pol = is_nonempty_test(t.ast, q)
            if rec:
                tests.append((t, 'false' if pol else 'true'))       # the label of the edge taken when the queue is empty
    steps = [n for n in g.nodes if n.kind not in ('entry', 'exit', 'xexit', 'def') and
             any(isinstance(c.func, ast.Attribute) and c.func.attr in ('next_rtc', 'dispatch') and dotted(c.func.value) == f.params[0] for c in n.calls())]
    run.floor('complete_circuit: emptiness tests of the pending queue', len(tests), 1)
    run.floor('complete_circuit: step calls', len(steps), 1)
    outs = [(p_, lab) for p_, lab in g.pred[g.exit] if lab not in ('raise', 'exc')]
    for p_, lab in outs:
        ok = False
        for t, empty_lab in tests:
            after = [m for m, l in g.succ[t] if l == empty_lab]
            if not after:
                continue
            if p_ is t and lab == empty_lab:
                ok = True
            elif guarded_by_edge(g, p_, t, empty_lab) and not any(s_ is p_ or (g.exists_path(after[0], s_, avoiding=[t]) and g.exists_path(s_, p_, avoiding=[t])) for s_ in steps):
                ok = True
        run.inst(rule, f, 'way out `%s` is taken only with the queue seen empty' % p_.text()[:60], ok,
                 '' if ok else ('complete_circuit can return through `%s` without the queue having just been seen empty: events stay pending although the caller was told the '
                                'circuit is complete' % p_.text()[:80]), node=p_.ast if hasattr(p_.ast, 'lineno') else None, obligation=True)
    run.floor('complete_circuit: ways out', len(outs), 1)
    heads = list(g.loop_heads())
    for h in heads:
        body = g.loop_body(h)
        succ_in = [m for m, l in g.succ[h] if m in body or m is h]
        spin = any(m is h or g.exists_path(m, h, avoiding=steps) for m in succ_in if m not in steps)
        run.inst(rule, f, 'every iteration of the loop at `%s` takes a step' % norm(h.ast)[:50], not spin,
                 '' if not spin else 'an iteration of the loop may take no step: with an event pending complete_circuit spins for ever (livelock)', node=h.ast if hasattr(h.ast, 'lineno') else None,
                 obligation=True)
    run.floor('complete_circuit: loops', len(heads), 1)


def check_dispatch_sites(run, model, rule, E):
    """every call self.dispatch(x) made by a queued chart outside the dispatch overrides themselves dispatches a value that was
    popped from the consumer end by the statement that defines x: one pop <-> one dispatch, so a post made by a handler is seen
    before the next event is taken"""
    from .hsmsites import reaching_defs
    hq = model.cls('HsmWithQueues')
    n_sites = 0
    for k in [hq] + model.subclasses(hq):
        for f in k.methods.values():
            if f.name == 'dispatch':
                continue
            fs = [f] + list(f.nested.values())
            for ff in fs:
                selfn = f.params[0] if f.params else None
                calls = [c for c in shallow_calls(ff.node) if isinstance(c.func, ast.Attribute) and c.func.attr == 'dispatch' and dotted(c.func.value) == selfn]
                if not calls:
                    continue
                g = cfg_of(ff)
                rd, valmap = reaching_defs(g, ff.params)
                for c in calls:
                    n_sites += 1
                    node = [n for n in g.nodes if n.kind not in ('entry', 'exit', 'xexit', 'def') and any(x is c for x in n.walk())][0]
                    arg = c.args[0] if c.args else None
                    for kw in c.keywords:
                        if kw.arg in ('e', 'event'):
                            arg = kw.value
                    ok = False
                    why = 'the dispatched value is %s' % (norm(arg) if arg is not None else None)
                    if isinstance(arg, ast.Name):
                        ds = rd[node].get(arg.id, set())
                        vals = [valmap.get(d) for d in ds if d[0] != 'param']
                        ok = bool(vals) and len(vals) == len(ds) and all(
                            isinstance(v, ast.Call) and isinstance(v.func, ast.Attribute) and v.func.attr in REMOVE and END[v.func.attr] == E and dotted(v.func.value) == selfn + '.queue'
                            for v in vals)
                        if not ok:
                            why = 'the dispatched value %s is not defined by a pop from the consumer end of the queue right before the dispatch' % arg.id
                    elif isinstance(arg, ast.Call) and isinstance(arg.func, ast.Attribute) and arg.func.attr in REMOVE and END[arg.func.attr] == E and dotted(arg.func.value) == selfn + '.queue':
                        ok = True
                    run.inst(rule, ff, 'dispatch site in %s dispatches the event it just popped' % ff.name, ok,
                             '' if ok else ('%s calls dispatch outside the one-pop-one-dispatch pairing (%s): events taken from the queue in advance are dispatched after events that a '
                                            'handler posts to the front in the meantime - the dispatch order is no longer that of the deque' % (ff.qualname, why)), node=c, obligation=True)
    run.floor('dispatch call sites of queued charts', n_sites, 1)


def check_locking_deque(run, model, rule_ends, rule_token, rule_bound, rule_monotone=None, rule_repair=None, rule_lock=None):
    """LockingDeque: forwarding on every path, token protocol, capacity"""
    ld = model.cls('LockingDeque')
    init = ld.methods.get('__init__')
    if init is None:
        raise AnalysisError('LockingDeque.__init__ not found')
    # fields: the deque and the token queue
    dq = tq = None
    dq_ctor = tq_ctor = None
    for n in walk_shallow(init.node):
        if isinstance(n, ast.Assign) and isinstance(n.value, ast.Call):
            nm = norm(n.value.func)
            for t in n.targets:
                d = dotted(t)
                if d and d.startswith('self.'):
                    if nm == 'deque':
                        dq, dq_ctor = d.split('.', 1)[1], n.value
                    elif nm in ('Queue', 'queue.Queue'):
                        tq, tq_ctor = d.split('.', 1)[1], n.value
    handed = None
    if dq is None:
        # the deque may be handed in: `def __init__(self, items=None): if items is None: items = deque(..); self.deque = items`
        idefs = local_defs(init.node)
        for n in walk_shallow(init.node):
            if isinstance(n, ast.Assign) and isinstance(n.value, ast.Name) and n.value.id in init.params[1:]:
                ctors = [d_ for d_ in idefs.get(n.value.id, []) if isinstance(d_, ast.Call) and norm(d_.func) == 'deque']
                for t in n.targets:
                    d = dotted(t)
                    if d and d.startswith('self.') and ctors:
                        dq, dq_ctor, handed = d.split('.', 1)[1], ctors[0], n.value.id
    if dq is None or tq is None:
        raise AnalysisError('LockingDeque: deque / token queue fields not identified')
    info = {'deque': dq, 'tokens': tq}
    if handed is not None:
        # every deque that is handed in must have the capacity the token queue has
        idx = init.params.index(handed) - 1
        tq_size = next((kw.value for kw in tq_ctor.keywords if kw.arg == 'maxsize'), tq_ctor.args[0] if tq_ctor.args else None)
        for f_ in model.all_funcs():
            for c_ in [x for x in ast.walk(f_.node) if isinstance(x, ast.Call) and norm(x.func).split('.')[-1] == 'LockingDeque']:
                arg = c_.args[idx] if idx < len(c_.args) else next((k.value for k in c_.keywords if k.arg == handed), None)
                if arg is None:
                    continue
                src = None
                da = dotted(arg)
                if da and f_.params and da.startswith(f_.params[0] + '.') and f_.owner_class is not None:
                    attr_ = da.split('.', 1)[1]
                    for k_ in [f_.owner_class] + list(model.mro(f_.owner_class)[1:]):
                        for m_ in k_.methods.values():
                            for y in walk_shallow(m_.node):
                                if isinstance(y, ast.Assign) and isinstance(y.value, ast.Call) and norm(y.value.func) == 'deque' and m_.params \
                                        and any(dotted(t_) == m_.params[0] + '.' + attr_ for t_ in y.targets):
                                    src = y.value
                elif isinstance(arg, ast.Call) and norm(arg.func) == 'deque':
                    src = arg
                if src is None:
                    raise AnalysisError('LockingDeque is handed %s in %s: where that deque is created was not found' % (norm(arg), f_.qualname))
                ml = next((kw.value for kw in src.keywords if kw.arg == 'maxlen'), src.args[1] if len(src.args) > 1 else None)
                canon = lambda e: (norm(e).replace('self.__class__.', 'CLS.').replace('type(self).', 'CLS.') if e is not None else None)
                okb = ml is not None and tq_size is not None and canon(ml) == canon(tq_size)
                run.inst(rule_bound, f_, 'the deque handed to LockingDeque has the token queue\'s capacity (%s)' % canon(ml), okb,
                         '' if okb else ('%s hands LockingDeque a deque of capacity %s while the wake-up token queue holds %s: for an object whose two numbers differ the item count and the '
                                         'token count part ways - with more room in the deque a post finds the token queue full, adds anyway and then blocks for good in the repair put; with '
                                         'less, tokens outnumber events and the wrong element is given up on overflow' % (f_.qualname, canon(ml), canon(tq_size))),
                         node=c_, obligation=True)
    # ---- BOUND
    maxlen = next((kw.value for kw in dq_ctor.keywords if kw.arg == 'maxlen'), dq_ctor.args[1] if len(dq_ctor.args) > 1 else None)
    maxsize = next((kw.value for kw in tq_ctor.keywords if kw.arg == 'maxsize'), tq_ctor.args[0] if tq_ctor.args else None)
    ok = maxlen is not None and not (isinstance(maxlen, ast.Constant) and maxlen.value is None)
    run.inst(rule_bound, init, 'pending deque has a maxlen', ok, '' if ok else 'the pending-event deque is unbounded', node=dq_ctor, obligation=True)
    ok = maxsize is not None and maxlen is not None and norm(maxsize) == norm(maxlen)
    run.inst(rule_bound, init, 'token capacity == deque capacity (%s)' % (norm(maxlen) if maxlen is not None else None), ok,
             '' if ok else 'token queue capacity %s differs from deque capacity %s: a guarded put can still block / tokens cannot match items'
             % (norm(maxsize) if maxsize is not None else None, norm(maxlen) if maxlen is not None else None), node=tq_ctor, obligation=True)
    # ---- forwarding
    for nm in ('append', 'appendleft'):
        f = ld.methods.get(nm)
        if f is None:
            raise AnalysisError('LockingDeque.%s not found' % nm)
        # helpers of the class that do the work (possibly receiving the bound deque method) are inlined first
        inl_node, inl = inline_self_helpers(f, ld, model)
        if inl:
            f = FuncView(f, inl_node)
            run.note('LockingDeque.%s: inlined helper(s) %s' % (nm, ', '.join(inl)))
        g = cfg_of(f)
        run.touch(f, g)
        selfn, item = f.params[0], f.params[1]
        adds = ops_on(g, selfn + '.' + dq, ADD | {'extend', 'extendleft', 'insert'})
        same = [n for n, c, m in adds if m == nm]
        wrong = [m for n, c, m in adds if m != nm]
        cnt = count(g, same)
        ok = cnt == (1, 1) and not wrong
        run.inst(rule_ends, f, '%s adds the item at the same-named end on every path' % nm, ok,
                 '' if ok else ('LockingDeque.%s adds to the deque with %s %s times on some path (other adds: %s): on that path (the token queue is full) '
                                'the posted event is lost or lands at the wrong end' % (nm, nm, cnt, wrong)), obligation=True)
        for n, c, m in adds:
            ok = len(c.args) == 1 and isinstance(c.args[0], ast.Name) and c.args[0].id == item
            run.inst(rule_ends, f, '%s adds its own item' % nm, ok, '' if ok else 'adds %s' % norm(c), node=c, obligation=True)
        # ---- overflow policy: the sequence of deque operations of every path, applied to a symbolic bounded deque, leaves the same content as a plain
        # bounded deque would - except that a full queue gives up its right-most (newest fifo) element, never a front (lifo) one
        from .util import expand_locals as _xl
        fulltxt_ = '%s.%s.full()' % (selfn, tq)

        def full_edge(n_, lab_):
            # does taking this edge say that the token queue is full (True) / has room (False)?
            if n_.kind != 'test' or lab_ not in ('true', 'false'):
                return None
            inner_, pol_ = strip_not(_xl(n_.ast, f.node, params=f.params, observers=True))
            cp_ = compare_parts(inner_)
            if cp_ and norm(cp_[0]) == fulltxt_ and isinstance(cp_[2], ast.Constant) and isinstance(cp_[2].value, bool) and cp_[1] in (ast.Is, ast.Eq, ast.IsNot, ast.NotEq):
                v_ = cp_[2].value if cp_[1] in (ast.Is, ast.Eq) else (not cp_[2].value)
            elif norm(inner_) == fulltxt_:
                v_ = True
            else:
                return None
            v_ = v_ if pol_ else (not v_)
            return v_ if lab_ == 'true' else (not v_)
        for seq, fullness in deque_op_sequences(g, selfn + '.' + dq, edge_fact=full_edge):
            for full in ((False, True) if fullness is None else (fullness,)):
                got = apply_deque_ops(seq, full)
                want = (['x0', 'x1', 'ITEM'] if nm == 'append' else ['ITEM', 'x0', 'x1'])
                if got is None:
                    raise AnalysisError('LockingDeque.%s: operation sequence %s on the deque is not modelled' % (nm, [m_ for m_, _a in seq]))
                ok = got == want
                run.inst(rule_ends, f, '%s: deque content after [%s] on a %s queue' % (nm, ', '.join('%s(%s)' % (m_, a_) for m_, a_ in seq), 'full' if full else 'non-full'), ok,
                         '' if ok else ('on a %s queue the operations [%s] turn [x0, x1%s] into %s, expected %s: %s'
                                        % ('full' if full else 'non-full', ', '.join('%s(%s)' % (m_, a_) for m_, a_ in seq), ', x2' if full else '', got, want,
                                           'an element other than the right-most one is dropped, the remaining events are dispatched out of posting order' if full
                                           else 'the existing events are reordered')), obligation=True)
        # ---- TOKEN: puts are guarded; repair test after the add; monotone loops
        puts = ops_on(g, selfn + '.' + tq, {'put', 'put_nowait'})
        run.floor('%s token put sites' % nm, len(puts), 1)
        full_tests, lt_tests = [], []
        from .hsmsites import reaching_defs as _rdefs
        rd_, valmap_ = _rdefs(g, f.params)

        def effective(t):
            """a test on a local flag whose every reaching definition is the same observation (`missing = tokens < items` before the loop and again inside it) asks that
            observation"""
            e = t.ast
            neg = False
            while isinstance(e, ast.UnaryOp) and isinstance(e.op, ast.Not):
                e = e.operand
                neg = not neg
            if isinstance(e, ast.Name):
                vals = [valmap_.get(d) for d in rd_[t].get(e.id, set())]
                if vals and all(isinstance(v, (ast.Compare, ast.Call)) for v in vals) and len({norm(v) for v in vals}) == 1:
                    return ast.UnaryOp(op=ast.Not(), operand=vals[0]) if neg else vals[0]
            return t.ast
        for t in g.nodes:
            if t.kind != 'test':
                continue
            teff = effective(t)
            inner, pol = strip_not(teff)
            if isinstance(inner, ast.Call) and isinstance(inner.func, ast.Attribute) and inner.func.attr == 'full' and dotted(inner.func.value) == selfn + '.' + tq:
                full_tests.append((t, 'false' if pol else 'true'))    # label of the not-full edge
            cp = compare_parts(teff)
            if cp is None:
                in_, pol_ = strip_not(teff)
                cp_ = compare_parts(in_)
                if cp_ and not pol_:
                    # `not (a < b)` asks `a >= b`
                    NEGOP = {ast.Lt: ast.GtE, ast.GtE: ast.Lt, ast.LtE: ast.Gt, ast.Gt: ast.LtE, ast.Eq: ast.NotEq, ast.NotEq: ast.Eq}
                    if cp_[1] in NEGOP:
                        cp = (cp_[0], NEGOP[cp_[1]], cp_[2])
            if cp and is_qsize(cp[0], selfn, tq) and is_len(cp[2], selfn, dq):
                lt_tests.append((t, cp[1]))
            elif cp and is_len(cp[0], selfn, dq) and is_qsize(cp[2], selfn, tq):
                lt_tests.append((t, {ast.Gt: ast.Lt, ast.GtE: ast.LtE, ast.NotEq: ast.NotEq, ast.Lt: ast.Gt, ast.LtE: ast.GtE, ast.Eq: ast.Eq}[cp[1]]))
        fpar = parents(f.node)
        for n, c, m in puts:
            if m == 'put_nowait' or any(kw.arg == 'block' and isinstance(kw.value, ast.Constant) and kw.value.value is False for kw in c.keywords):
                run.inst(rule_token, f, 'non-blocking put', True, node=c, nontrivial=False)
                continue
            # a blocking put must not be executed while a lock is held (the guard was evaluated before the lock was taken)
            p_ = fpar.get(c)
            held = None
            while p_ is not None and p_ is not f.node:
                if isinstance(p_, ast.With):
                    for it_ in p_.items:
                        d_ = dotted(it_.context_expr) or norm(it_.context_expr)
                        if 'lock' in d_.lower() or 'mutex' in d_.lower():
                            held = d_
                p_ = fpar.get(p_)
            if rule_lock:
              run.inst(rule_lock, f, 'blocking token put is not made while holding a lock', held is None,
                     '' if held is None else ('the blocking put of a wake-up token runs inside `with %s`: two posters that both saw "not full" at 499 tokens race, the second blocks in '
                                              'put() holding the lock, and the consumer - which needs that lock to pop and thereby make room - blocks too: the post never returns' % held),
                     node=c, obligation=True)
            from .boolflow import must_atoms
            atoms = must_atoms(g, n, f.node, params=f.params)
            fulltxt = '%s.%s.full()' % (selfn, tq)
            qs, ln = '%s.%s.qsize()' % (selfn, tq), 'len(%s.%s)' % (selfn, dq)
            g1 = any(l == fulltxt and ((op in ('Is', 'Eq') and r == 'False') or op == 'Falsy' or (op in ('IsNot', 'NotEq') and r == 'True')) for (l, op, r) in atoms)
            g2 = any(l == qs and op == 'Lt' and r == ln for (l, op, r) in atoms)
            ok = g1 or g2
            run.inst(rule_token, f, 'blocking put is guarded by not-full or tokens<items', ok,
                     '' if ok else 'a blocking put on the token queue is reachable without a guard that there is room: a post can block forever', node=c, obligation=True)
        # monotone repair loops
        for h in g.loop_heads():
            if h.kind != 'test':
                continue
            cp = [op for t, op in lt_tests if t is h]
            if not cp:
                continue
            body = g.loop_body(h)
            only_puts = any(n in body for n, c, m in puts)
            if rule_monotone:
                # a loop that waits for `tokens <cmp> items` to change must change it itself: exactly one token per iteration
                start_ = [m_ for m_, l_ in g.succ[h] if l_ == 'true']
                per_ = count(g, [n for n, c, m in puts], start=start_[0], end=h) if start_ else None
                okp = per_ == (1, 1)
                if per_ == (0, 1) and isinstance(strip_not(h.ast)[0], ast.Name):
                    # flag-steered form: the pass re-reads the observation into the flag and puts a token only if it still holds; the pass without a put is the one that
                    # has just set the flag false, i.e. the last one
                    flag_ = strip_not(h.ast)[0].id
                    reas = [n_ for n_ in body if n_.kind == 'stmt' and isinstance(n_.ast, ast.Assign) and any(isinstance(t_, ast.Name) and t_.id == flag_ for t_ in n_.ast.targets)]
                    ftests = [t_ for t_ in body if t_.kind == 'test' and t_ is not h and isinstance(strip_not(t_.ast)[0], ast.Name) and strip_not(t_.ast)[0].id == flag_]
                    putn = [n_ for n_, c_, m_ in puts if n_ in body]
                    if len(reas) == 1 and len(ftests) == 1 and putn and all(guarded_by_edge(g, p_, ftests[0], 'true' if strip_not(ftests[0].ast)[1] else 'false') for p_ in putn) \
                            and g.dominates(reas[0], ftests[0]) and (ftests[0], ast.Lt) in [(t_, o_) for t_, o_ in lt_tests]:
                        okp = True
                run.inst(rule_monotone, f, 'each iteration of the repair loop adds exactly one token', okp,
                         '' if okp else ('an iteration of the loop `while %s` adds %s tokens: with none the poster spins for ever as soon as it sees fewer tokens than items (which racing '
                                         'posters produce), with more than one it overshoots' % (norm(h.ast), per_)), node=h.ast, obligation=True)
            if only_puts and rule_monotone:
                ok = cp[0] is ast.Lt
                run.inst(rule_monotone, f, 'repair loop guard is tokens < items', ok,
                         '' if ok else ('the repair loop adds tokens while `tokens %s items`: the enclosing test already says `<`, and the loop only '
                                        'ever increases tokens, so when two posters (or a poster and the consumer) interleave, tokens can step past '
                                        'the item count and the loop keeps putting until the token queue is full and put() blocks'
                                        % {ast.NotEq: '!=', ast.LtE: '<=', ast.Gt: '>', ast.GtE: '>=', ast.Eq: '=='}.get(cp[0], '?')),
                         node=h.ast, obligation=True)
        # a repair test (tokens < items) is evaluated after the add on every path
        # (`tokens < items` and its complement `tokens >= items` ask the same question: either one is the re-test)
        rep = [t for t, op in lt_tests if op in (ast.Lt, ast.GtE)]
        # a call of a LockingDeque helper whose own first test is tokens < items counts as the repair test
        for n2 in g.nodes:
            if n2.kind in ('entry', 'exit', 'xexit', 'def'):
                continue
            for c2 in n2.calls():
                if isinstance(c2.func, ast.Attribute) and dotted(c2.func.value) == selfn and c2.func.attr in ld.methods and c2.func.attr not in ('append', 'appendleft'):
                    hm = ld.methods[c2.func.attr]
                    hg = cfg_of(hm)
                    first = [m for m, _l in hg.succ[hg.entry]]
                    if first and first[0].kind == 'test':
                        cph = compare_parts(first[0].ast)
                        if cph and cph[1] is ast.Lt and is_qsize(cph[0], hm.params[0], tq) and is_len(cph[2], hm.params[0], dq):
                            rep.append(n2)
        ok = bool(rep) and all(any(g.postdominates(t, n) for t in rep) for n in same) if same else False
        if rule_repair:
          run.inst(rule_repair, f, 'token repair test post-dominates the add', ok,
                 '' if ok else 'after adding an item there is a path that neither put a token nor re-tests tokens < items: the consumer is never woken for it (lost wake-up)',
                 obligation=True)
    # ---- removal forwarding and length
    for nm in ('pop', 'popleft'):
        f = ld.methods.get(nm)
        if f is None:
            raise AnalysisError('LockingDeque.%s not found' % nm)
        rets = [n for n in walk_shallow(f.node) if isinstance(n, ast.Return)]
        ok = len(rets) == 1 and isinstance(rets[0].value, ast.Call) and isinstance(rets[0].value.func, ast.Attribute) \
            and rets[0].value.func.attr == nm and dotted(rets[0].value.func.value) == f.params[0] + '.' + dq
        run.inst(rule_ends, f, '%s forwards to deque.%s and returns it' % (nm, nm), ok, '' if ok else 'LockingDeque.%s does not return deque.%s()' % (nm, nm), obligation=True)
    for nm in ('__len__', 'len'):
        f = ld.methods.get(nm)
        if f is None:
            continue
        rets = [n for n in walk_shallow(f.node) if isinstance(n, ast.Return)]
        ok = len(rets) == 1 and rets[0].value is not None and norm(rets[0].value) == 'len(%s.%s)' % (f.params[0], dq)
        run.inst(rule_ends, f, '%s is the deque length' % nm, ok, '' if ok else '%s does not return len(deque)' % nm, obligation=True)
    return info


def deque_op_sequences(g, path, limit=64, edge_fact=None):
    """the distinct sequences of operations on the deque at `path` along the entry->exit paths of g (each loop taken at most once)"""
    seqs = set()
    ops = {}
    for n in g.nodes:
        if n.kind in ('entry', 'exit', 'xexit', 'def'):
            continue
        lst = []
        for c in n.calls():
            if isinstance(c.func, ast.Attribute) and dotted(c.func.value) == path and c.func.attr in ('append', 'appendleft', 'rotate', 'pop', 'popleft', 'clear', 'extend', 'extendleft', 'insert', 'remove'):
                a = c.args[0] if c.args else None
                lst.append((c.func.attr, norm(a) if a is not None else ''))
        if lst:
            ops[n] = lst
    count = [0]

    def walk(n, seq, seen_edges, fact):
        if count[0] > 4000:
            raise AnalysisError('too many paths while enumerating deque operations')
        count[0] += 1
        seq = seq + tuple(ops.get(n, ()))
        if n is g.exit:
            seqs.add((seq, fact))
            return
        for m, lab in g.succ[n]:
            if lab == 'exc':
                continue
            e = (n.id, m.id)
            if e in seen_edges:
                continue
            f2 = fact
            if edge_fact is not None:
                v = edge_fact(n, lab)
                if v is not None:
                    if fact is not None and fact != v:
                        continue        # contradicts an earlier test on this path
                    f2 = v
            walk(m, seq, seen_edges | {e}, f2)
    walk(g.entry, (), frozenset(), None)
    if len(seqs) > limit:
        raise AnalysisError('too many distinct deque operation sequences')
    return sorted(seqs, key=lambda x: (x[0], str(x[1])))


def apply_deque_ops(seq, full, maxlen=3):
    """content of a deque(maxlen=3) that held [x0, x1] (or [x0, x1, x2] when full) after the operations; the added item is ITEM.
    On a full queue the expected result keeps x0, x1 (the front) and gives up x2."""
    from collections import deque as _dq
    d = _dq(['x0', 'x1', 'x2'] if full else ['x0', 'x1'], maxlen=maxlen)
    for m, a in seq:
        if m == 'append':
            d.append('ITEM')
        elif m == 'appendleft':
            d.appendleft('ITEM')
        elif m == 'rotate':
            try:
                k = int(a) if a != '' else 1
            except ValueError:
                return None
            d.rotate(k)
        else:
            return None
    return list(d)


def is_qsize(e, selfn, tq):
    return isinstance(e, ast.Call) and isinstance(e.func, ast.Attribute) and e.func.attr == 'qsize' and dotted(e.func.value) == selfn + '.' + tq


def is_len(e, selfn, dq):
    return isinstance(e, ast.Call) and norm(e.func) == 'len' and e.args and dotted(e.args[0]) == selfn + '.' + dq


def check_clear(run, model, rule, info):
    """LockingDeque.clear: empties the deque, drains tokens, task_done only after a successful get"""
    ld = model.cls('LockingDeque')
    f = ld.methods.get('clear')
    if f is None:
        raise AnalysisError('LockingDeque.clear not found')
    g = cfg_of(f)
    run.touch(f, g)
    selfn = f.params[0]
    dq, tq = info['deque'], info['tokens']
    clears = ops_on(g, selfn + '.' + dq, {'clear'})
    ok = count(g, [n for n, _c, _m in clears]) == (1, 1) or (clears and all(g.dominates(n, g.exit) for n, _c, _m in clears))
    run.inst(rule, f, 'clear empties the deque', bool(ok), '' if ok else 'clear() does not empty the deque on every path', obligation=True)
    gets = ops_on(g, selfn + '.' + tq, {'get', 'get_nowait'})
    dones = ops_on(g, selfn + '.' + tq, {'task_done'})
    for n, c, m in dones:
        # a successful get must lie on every path to the task_done: i.e. some get node dominates it through a non-exception edge
        def ok_edge(a, b, lab, _gets=[x for x, _c, _m in gets]):
            return not (a in _gets and lab == 'exc')
        reach_wo = g.reachable(g.entry, avoiding=[x for x, _c, _m in gets])
        # paths that reach n only via 'exc' edges out of a get = the get failed
        reach_succ = set()
        # nodes reachable after a *successful* get: follow non-exc edges out of get nodes
        todo = [mm for x, _c, _m in gets for mm, lab in g.succ[x] if lab != 'exc']
        while todo:
            k = todo.pop()
            if k in reach_succ:
                continue
            reach_succ.add(k)
            for mm, lab in g.succ[k]:
                if k in [x for x, _c, _m in gets] and lab == 'exc':
                    continue
                todo.append(mm)
        # is n reachable on a path where the last get failed or no get happened?
        fail_reach = set()
        todo = [mm for x, _c, _m in gets for mm, lab in g.succ[x] if lab == 'exc']
        while todo:
            k = todo.pop()
            if k in fail_reach:
                continue
            fail_reach.add(k)
            if k in [x for x, _c, _m in gets]:
                continue
            todo.extend(mm for mm, lab in g.succ[k])
        bad = (n in reach_wo) or (n in fail_reach)
        run.inst(rule, f, 'task_done only after a successful get', not bad,
                 '' if not bad else ('task_done() is reachable on the path where get_nowait() raised (nothing was taken): Queue.task_done then raises '
                                     'ValueError("task_done() called too many times"), so clear() fails on a queue with no unfinished tasks'),
                 node=c, obligation=True)
    # every token get of clear() is non-blocking and tolerates an empty token queue: the consumer thread of a started active object takes tokens at any moment, so
    # "not empty" observed before the get says nothing about the get (and a blocking get would wait for a post that may never come)
    import ast as _ast
    par = parents(f.node)
    for n, c, m in gets:
        nonblocking = m == 'get_nowait' or any(kw.arg == 'block' and isinstance(kw.value, _ast.Constant) and kw.value.value is False for kw in c.keywords) or \
            (c.args and isinstance(c.args[0], _ast.Constant) and c.args[0].value is False)
        p_ = par.get(c)
        caught = False
        while p_ is not None and p_ is not f.node:
            if isinstance(p_, _ast.Try) and any(any(x is c for x in _ast.walk(b_)) for b_ in p_.body):
                for hd in p_.handlers:
                    if hd.type is None or any(nm_ in norm(hd.type) for nm_ in ('Empty', 'Exception', 'BaseException')):
                        caught = True
            p_ = par.get(p_)
        ok = nonblocking and caught
        run.inst(rule, f, 'token get of clear() is non-blocking and tolerates an empty token queue', ok,
                 '' if ok else ('clear() takes a wake-up token with %s %s: on a started active object the consumer thread can take the last token between any emptiness test and this '
                                'get, so clear() %s' % (norm(c), 'outside a handler for queue.Empty' if nonblocking else '(blocking)',
                                                         'raises queue.Empty to its caller' if nonblocking else 'blocks for ever')), node=c, obligation=True)
    run.floor('clear(): token get sites', len(gets), 1)


def check_bounds(run, model, rule, floor=9):
    """every deque constructed in the package is bounded by a named class constant"""
    n = 0
    for f in model.all_funcs():
        for c in shallow_calls(f.node):
            if isinstance(c.func, ast.Name) and c.func.id == 'deque':
                n += 1
                ml = next((kw.value for kw in c.keywords if kw.arg == 'maxlen'), c.args[1] if len(c.args) > 1 else None)
                if ml is not None:
                    from .util import expand_locals
                    ml = expand_locals(ml, f.node, params=f.params)
                ok = ml is not None and not (isinstance(ml, ast.Constant) and ml.value is None)
                named = ok and ((isinstance(ml, ast.Attribute) and ml.attr.isupper()) or (isinstance(ml, ast.Name) and ml.id.isupper())
                                or (isinstance(ml, ast.Constant) and type(ml.value) is int and ml.value > 0))
                tgt = ''
                run.inst(rule, f, 'deque(maxlen=%s)' % (norm(ml) if ml is not None else None), bool(ok and named),
                         '' if ok and named else ('a buffer is created without a bound (or with an anonymous one): %s' % norm(c)), node=c, obligation=True)
    run.floor('deque constructions in the package', n, floor)
    # the capacity constants are positive integers
    for cname, const in (('HsmWithQueues', 'QUEUE_SIZE'), ('HsmEventProcessor', 'SPY_RING_BUFFER_SIZE'), ('HsmEventProcessor', 'TRC_RING_BUFFER_SIZE'),
                         ('HsmEventProcessor', 'RTC_RING_BUFFER_SIZE')):
        v = model.const_int(cname, const)
        ok = isinstance(v, int) and v > 0
        run.inst(rule, cname, '%s.%s = %s' % (cname, const, v), ok, '' if ok else 'capacity constant %s.%s is not a positive integer literal' % (cname, const), nontrivial=False)


def check_consumer_self_stop(run, rule, re_, g, flag_p, fab_p, selfn):
    """the consumer thread gives up (clears its own run flag) only for the stop item at the head of the queue or when the fabric was stopped - in
    particular a wake-up that finds the queue empty (a surplus token) must leave the thread waiting"""
    from .boolflow import values_at
    from .util import signal_const
    clears = [n for n in g.nodes if n.kind not in ('entry', 'exit', 'xexit', 'def') and
              any(isinstance(c.func, ast.Attribute) and c.func.attr == 'clear' and dotted(c.func.value) == flag_p for c in n.calls())]
    # the observations the thread makes: fabric flag, non-empty queue, stop item at the head (texts taken from the code itself)
    watch = set()
    k_fab = '%s.is_set()' % fab_p
    watch.add(k_fab)
    k_ne, k_stop = set(), set()
    from .util import expand_locals
    exprs = []
    for n in g.nodes:
        if n.kind in ('test', 'stmt'):
            exprs.extend(ast.walk(n.ast))
            if n.kind == 'test':      # the simulation tests the expression with single-definition locals expanded: watch that text too
                exprs.extend(ast.walk(expand_locals(n.ast, re_.node, params=re_.params, observers=True)))
    for e in exprs:
        if isinstance(e, ast.Compare) and len(e.ops) == 1:
            if any(signal_const(x) == 'STOP_ACTIVE_OBJECT_SIGNAL' for x in ast.walk(e)):
                pos = e if isinstance(e.ops[0], (ast.Eq, ast.Is)) else ast.Compare(left=e.left, ops=[ast.Eq() if isinstance(e.ops[0], ast.NotEq) else ast.Is()], comparators=e.comparators)
                if isinstance(e.ops[0], (ast.Eq, ast.Is, ast.NotEq, ast.IsNot)):
                    k_stop.add(norm(pos))
            rec, pol = is_nonempty_test(e, selfn + '.queue')
            if rec:
                k_ne.add((norm(e), pol))
    watch |= k_stop | {k for k, _p in k_ne}
    for cl in clears:
        vals = values_at(g, cl, watch, fnode=re_.node, params=re_.params)
        bad = []
        for v in vals:
            fab_off = v.get(k_fab) is False
            stop_seen = any(v.get(k) is True for k in k_stop)
            if not (fab_off or stop_seen):
                bad.append(v)
        ok = bool(vals) and not bad
        run.inst(rule, re_, 'the thread ends itself only for the stop item or a stopped fabric', ok,
                 '' if ok else ('the consumer thread clears its own run flag on a path where it has neither seen the stop item at the head of its queue nor found the fabric stopped '
                                '(known on that path: %s): a wake-up that finds the queue empty - a surplus token, which racing posters produce normally - ends the thread; every later '
                                'post is queued and never dispatched' % (bad[0] if bad else {})), node=cl.ast, obligation=True)
    return len(clears)


def run_event_roles(model, cg):
    """(Func run_event, cfg, run-flag parameter, fabric-flag parameter, queue parameter, self name): the parameters are identified from the spawn site"""
    ao = model.cls('ActiveObject')
    re_ = ao.methods.get('run_event')
    if re_ is None:
        raise AnalysisError('ActiveObject.run_event not found')
    g = cfg_of(re_)
    spawn = [(f, c) for f, ts, c in cg.spawns if re_ in ts]
    if len(spawn) != 1:
        raise AnalysisError('run_event is not spawned from exactly one site')
    sf, sc = spawn[0]
    sargs = next((kw.value for kw in sc.keywords if kw.arg == 'args'), None)
    if not isinstance(sargs, ast.Tuple) or len(sargs.elts) != len(re_.params) - 1:
        raise AnalysisError('run_event spawn arguments not recognised')
    bind = dict(zip(re_.params[1:], [dotted(a) for a in sargs.elts]))
    flag_p = [p for p, a in bind.items() if a and a.endswith('activeobject_task_event')]
    fab_p = [p for p, a in bind.items() if a and a.endswith('fabric_task_event')]
    q_p = [p for p, a in bind.items() if a and a.endswith('.queue')]
    if not (len(flag_p) == len(fab_p) == len(q_p) == 1):
        raise AnalysisError('run_event parameters (run flag, fabric flag, queue) not identified from the spawn site: %s' % bind)
    return re_, g, flag_p[0], fab_p[0], q_p[0], re_.params[0]



def token_pairing(run, model, cg, rule):
    """the consumer thread takes exactly one wake-up token and at most one event per iteration of its loop: only then does "the token queue is full" mean "the deque is
    full", which is what LockingDeque.append/appendleft take it for when they choose the overflow path (a consumer that handles several events per token leaks tokens
    while it is busy; after 500 of them every delivery into the not-at-all-full queue is treated as an overflow and reorders the pending events)"""
    re_, g, flag_p, fab_p, q_p, selfn = run_event_roles(model, cg)
    heads = [h for h in g.loop_heads() if h.kind == 'test']
    heads = [h for h in heads if not any(h in g.loop_body(o) for o in heads if o is not h)]
    if len(heads) != 1:
        raise AnalysisError('run_event: thread loop not found')
    h = heads[0]
    body = g.loop_body(h)
    start = [m for m, l in g.succ[h] if l == 'true'][0]

    def nodes_calling(recv, meth):
        return [n for n in body if n.kind not in ('entry', 'exit', 'xexit', 'def') and
                any(isinstance(c.func, ast.Attribute) and c.func.attr == meth and dotted(c.func.value) == recv for c in n.calls())]
    waits = nodes_calling(q_p, 'wait') + nodes_calling(q_p, 'get') + nodes_calling(selfn + '.queue', 'wait')
    steps = nodes_calling(selfn, 'next_rtc')
    wc = count(g, waits, start=start, end=h)
    sc = count(g, steps, start=start, end=h)
    ok = wc == (1, 1) and sc is not None and sc[1] <= 1
    run.inst(rule, re_, 'one wake-up token and at most one event per iteration of the thread loop', ok,
             '' if ok else ('an iteration of the active object\'s thread loop takes %s tokens and handles %s events: tokens and pending events are no longer paired, the token queue fills up '
                            'while the deque is nearly empty, and from then on LockingDeque.append treats every delivery as an overflow (rotate + append): a delivered event is placed '
                            'behind or in front of the wrong pending events' % (wc, sc)), node=h.ast, obligation=True)


DEQUE_API = {'append', 'appendleft', 'pop', 'popleft', 'rotate', 'insert', 'extend', 'extendleft', 'clear', 'remove', 'reverse', '__iter__', '__getitem__', '__setitem__',
             '__delitem__', '__len__', '__bool__', '__contains__', 'copy', '__reversed__'}


def check_queue_classes(run, model, cg, rule):
    """the pending-event queue and the deferral queue are collections.deque objects (an active object wraps the former in its LockingDeque, checked on its own): the order
    rules reason with deque's own append/appendleft/popleft/rotate.  A subclass of deque that redefines part of that interface is a different container."""
    hq = model.cls('HsmWithQueues')
    n = 0
    for attr in ('queue', 'defer_queue'):
        for owner in [k for k in model.classes.values() if k is hq or hq in model.mro(k)]:
            tys = set()
            for t_ in cg.field_types.get((owner.name, attr), set()):
                if isinstance(t_, tuple) and t_ and t_[0] == 'alias':
                    tys |= {x for x in cg.field_types.get((owner.name, t_[1]), set()) if not isinstance(x, tuple)}       # self.queue = self.locking_deque
                else:
                    tys.add(t_)
            for ty in sorted(str(t) for t in tys):
                n += 1
                base = ty.split('.')[-1]
                if base in ('deque', 'LockingDeque'):
                    run.inst(rule, owner.name, '%s.%s is a %s' % (owner.name, attr, base), True, nontrivial=False)
                    continue
                k = model.classes.get(base)
                if k is None:
                    raise AnalysisError('%s.%s may hold a %s: not a container the queue rules know' % (owner.name, attr, ty))
                bases = [norm(b).split('.')[-1] for b in k.node.bases]
                if 'deque' not in bases:
                    raise AnalysisError('%s.%s may hold a %s (bases %s): not a container the queue rules know' % (owner.name, attr, ty, bases))
                over = sorted(set(k.methods) & DEQUE_API)
                run.inst(rule, k.name, '%s.%s is a %s, a deque subclass that keeps deque\'s own interface' % (owner.name, attr, base), not over,
                         '' if not over else ('%s.%s is a %s, a subclass of deque that redefines %s: posts and steps no longer act on the queue the way the same operations act on a '
                                              'collections.deque(maxlen=QUEUE_SIZE) - which element a full queue gives up, or where an element lands, is decided by the subclass'
                                              % (owner.name, attr, base, ', '.join(over))), obligation=True)
    run.floor('queue fields typed', n, 2)


def check_queue_writers(run, model, rule):
    """who may touch the pending-event queue: post_fifo / post_lifo (add at one end), next_rtc (pop at the consumer end), stop() (the wake-up item) and the LockingDeque's own
    methods.  Anything else that removes, rotates, inserts or reorders it - from any thread - changes the order in which the chart reacts, or races the consumer."""
    MUT = {'append', 'appendleft', 'pop', 'popleft', 'rotate', 'insert', 'extend', 'extendleft', 'clear', 'remove', 'reverse', 'sort'}
    ALLOWED = {('HsmWithQueues', 'post_fifo'), ('HsmWithQueues', 'post_lifo'), ('HsmWithQueues', 'next_rtc'), ('ActiveObject', 'stop'), ('HsmWithQueues', '__init__'), ('ActiveObject', '__init__'),
               ('ActiveObject', '__start'), ('HsmWithQueues', 'clear_spy'), ('ActiveObject', 'clear')}
    hq = model.cls('HsmWithQueues')
    n = 0
    for f in model.all_funcs():
        k = f.owner_class
        root = f
        while getattr(root, 'parent', None) is not None:
            root = root.parent
        k = root.owner_class
        if k is None or not (k is hq or hq in model.mro(k)) or not root.params:
            continue
        selfn = root.params[0]
        for c in [x for x in ast.walk(f.node) if isinstance(x, ast.Call) and isinstance(x.func, ast.Attribute) and x.func.attr in MUT]:
            d = dotted(c.func.value) or ''
            if d in (selfn + '.queue', selfn + '.queue.deque', selfn + '.locking_deque', selfn + '.locking_deque.deque'):
                n += 1
                ok = (k.name, root.name) in ALLOWED or any((b.name, root.name) in ALLOWED for b in model.mro(k))
                run.inst(rule, f, 'queue operation %s in %s.%s' % (norm(c.func), k.name, root.name), ok,
                         '' if ok else ('%s performs %s on the pending-event queue. Only post_fifo/post_lifo add to it and only next_rtc takes from it; an operation that removes, rotates or '
                                        'reorders it elsewhere interleaves with deliveries and posts from other threads (an event that arrives while the queue is rotated ends up in front '
                                        'of events that were already pending) and with the consumer\'s pop' % (f.qualname, norm(c))), node=c, obligation=True)
    run.floor('operations on the pending-event queue found', n, 3)
